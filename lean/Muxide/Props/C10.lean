import Muxide.Lemmas.FragRead
/-
  C10 — Fragmented muxer: the emitted media segments carry exactly the accepted writes, in order;
  empty flushes emit nothing and consume no sequence number; sequence numbers are 1, 2, 3, …;
  a write is rejected iff its decode time is lower than the previously accepted one; queries are pure;
  the sample bytes are found through the trun data offset relative to the start of the moof.

  A run is a list of `FOp` (write / flush / ready / dur / init) executed by `runF` from the initial
  state `start c = { cfg := c }`.  `accepted` = samples of the writes answered `.ok`;
  `emitted` = queue contents at each successful flush; `segments` = the bytes those flushes returned.
  Property theorems only; definitions and helper lemmas live in Muxide/Lemmas/Frag.lean, FragRead.lean.
-/
namespace Muxide.Props.C10
open Muxide Muxide.Spec

/-- the state of a freshly created fragmented muxer -/
def start (c : FragConfig) : Frag := { cfg := c }

/-! ### a. conservation -/

/-- **Conservation**: for every interleaving of operations, the samples of the emitted segments (in
    emission order) followed by the samples still queued are exactly the accepted writes, in order —
    nothing lost, duplicated, reordered or altered. -/
theorem C10_conserve (c : FragConfig) (ops : List FOp) :
    (emitted (start c) ops).flatten ++ (runF (start c) ops).1.samples = accepted (start c) ops := by
  simpa [start] using run_conserve (start c) ops

/-- with a final flush, the emitted segments carry all accepted writes and nothing stays queued -/
theorem C10_conserve_final (c : FragConfig) (ops : List FOp) :
    (emitted (start c) (ops ++ [.flush])).flatten = accepted (start c) ops ∧
    (runF (start c) (ops ++ [.flush])).1.samples = [] := by
  have h := C10_conserve c (ops ++ [.flush])
  have hq : (runF (start c) (ops ++ [.flush])).1.samples = [] := by
    rw [runF_append]
    simp only [runF_cons, runF_nil, stepF]
    cases hs : (runF (start c) ops).1.samples with
    | nil => rw [flush_nil _ hs]; exact hs
    | cons x xs => rw [flush_cons _ x xs hs]
  have ha : accepted (start c) (ops ++ [.flush]) = accepted (start c) ops := by
    rw [accepted_append, accepted_cons]
    simp [acceptedOne]
  rw [hq, ha, List.append_nil] at h
  exact ⟨h, hq⟩

/-! ### b. sequence numbers -/

/-- every successful flush returns exactly one segment -/
theorem C10_seq_count (c : FragConfig) (ops : List FOp) :
    (segments (start c) ops).length = (emitted (start c) ops).length :=
  run_emit_length _ _

/-- **Sequence numbers 1, 2, 3, …**: the k-th emitted segment (k = 0, 1, …) is non-empty and is
    `buildSegment samples_k (k+1) (dts of its first sample)`, as long as `k + 1 < 2^32`
    (the model, like the `u32` counter, wraps modulo 2^32 afterwards). -/
theorem C10_seq (c : FragConfig) (ops : List FOp) (k : Nat) (ss : List FSample)
    (h : (emitted (start c) ops)[k]? = some ss) (hk : k + 1 < 2^32) :
    ss ≠ [] ∧ (segments (start c) ops)[k]? = some (buildSegment ss (k + 1) (firstDts ss)) := by
  have := run_seq (start c) ops k ss h (by simp [start]; omega)
  simpa [start, Nat.add_comm] using this

/-- the segment a reader sees carries that sequence number in its `mfhd` (see `C10_bytes`) -/
theorem C10_seq_mfhd (ss : List FSample) (q b off : Nat) :
    (fMoof ss q b off).kids.head? = some (Box.leaf "mfhd" (u32be 0 ++ u32be q)) := rfl

/-! ### c. empty flush -/

/-- **Flushing with nothing queued** yields no segment, leaves the state (in particular the
    sequence counter) unchanged. -/
theorem C10_empty_flush (f : Frag) (h : f.samples = []) : f.flush = (f, .none) :=
  flush_nil f h

/-- conversely a flush with a non-empty queue always yields a segment -/
theorem C10_nonempty_flush (f : Frag) (h : f.samples ≠ []) : ∃ b, f.flush.2 = .seg b := by
  cases hs : f.samples with
  | nil => exact absurd hs h
  | cons x xs => rw [flush_cons f x xs hs]; exact ⟨_, rfl⟩

/-! ### d. rejection -/

/-- **Rejected iff decode time goes backwards**: the reply is `errNonMonotonic` iff a write was
    accepted before and `dts` is lower than its dts; then the state is unchanged (nothing queued).
    Otherwise the reply is `ok`, the sample is appended to the queue unaltered and `lastDts = dts`. -/
theorem C10_reject_iff (f : Frag) (pts dts : Nat) (data : Bytes) (sync : Bool) :
    ((f.write pts dts data sync).2 = .errNonMonotonic ↔ ∃ l, f.lastDts = some l ∧ dts < l) ∧
    ((∃ l, f.lastDts = some l ∧ dts < l) → f.write pts dts data sync = (f, .errNonMonotonic)) ∧
    ((¬ ∃ l, f.lastDts = some l ∧ dts < l) → f.write pts dts data sync =
      ({ f with lastDts := some dts, samples := f.samples ++ [⟨pts, dts, data, sync⟩] }, .ok)) := by
  refine ⟨⟨fun h => ?_, fun h => ?_⟩, fun h => write_reject f pts dts data sync h,
    fun h => write_accept f pts dts data sync h⟩
  · by_cases hr : Rejects f dts
    · exact hr
    · rw [write_accept f pts dts data sync hr] at h; cases h
  · rw [write_reject f pts dts data sync h]

/-- **`lastDts` invariant**: in every reachable state `lastDts` is the dts of the last accepted
    write (`none` before the first one) — so "previously accepted" in `C10_reject_iff` is meant
    literally, across flushes and queries. -/
theorem C10_lastDts (c : FragConfig) (ops : List FOp) :
    (runF (start c) ops).1.lastDts = (accepted (start c) ops).getLast?.map (·.dts) := by
  simpa [start] using run_lastDts (start c) ops

/-- accepted decode times are non-decreasing -/
theorem C10_accepted_sorted (c : FragConfig) (ops : List FOp) :
    (accepted (start c) ops).Pairwise (fun a b => a.dts ≤ b.dts) :=
  (run_sorted (start c) ops).2

/-- the i-th reply of a run is the reply of the i-th operation in the state reached by the first
    i operations: the step theorems (c, d, e) apply at every point of every run -/
theorem C10_reply_at (c : FragConfig) (ops : List FOp) (i : Nat) (op : FOp) (h : ops[i]? = some op) :
    (runF (start c) ops).2[i]? = some (stepF (runF (start c) (ops.take i)).1 op).2 :=
  (run_reply_at (start c) ops i op h).2

/-! ### e. queries are pure -/

/-- `ready` and `dur` do not change the state; `init` changes at most `initCache`; every other
    operation gives the same reply and the same next state (up to `initCache`) on two states
    that differ only in `initCache`. -/
theorem C10_queries_pure (f : Frag) :
    stepF f .ready = (f, f.ready) ∧ stepF f .dur = (f, f.durMs) ∧
    f.sameExceptCache (stepF f .init).1 ∧
    (∀ (g : Frag) (op : FOp), op ≠ .init → f.sameExceptCache g →
      (stepF f op).2 = (stepF g op).2 ∧ (stepF f op).1.sameExceptCache (stepF g op).1) :=
  ⟨rfl, rfl, init_sameExceptCache f,
   fun g op hop h => ⟨(step_sameExceptCache f g op hop h).1, (step_sameExceptCache f g op hop h).2.1⟩⟩

/-- `sameExceptCache` is literally "equal after erasing `initCache`" -/
theorem C10_sameExceptCache_iff (f g : Frag) :
    f.sameExceptCache g ↔ { f with initCache := none } = { g with initCache := none } :=
  sameExceptCache_iff f g

/-- run level: two states that differ only in a (well-formed: empty or `buildInit cfg`) cache give
    the same replies to every operation list, `init` requests included -/
theorem C10_cache_irrelevant (f g : Frag) (ops : List FOp) (h : f.sameExceptCache g)
    (hf : f.cacheOk) (hg : g.cacheOk) :
    (runF f ops).2 = (runF g ops).2 ∧ (runF f ops).1.sameExceptCache (runF g ops).1 :=
  run_sameExceptCache f g ops h hf hg

/-- run level: deleting every init-segment request from a run changes none of the other replies -/
theorem C10_init_transparent (c : FragConfig) (ops : List FOp) :
    nonInitReplies ops (runF (start c) ops).2 = (runF (start c) (ops.filter (· ≠ .init))).2 :=
  run_drop_init (start c) ops (by intro b hb; simp [start] at hb)

/-! ### f. the bytes, read back by the independent reader -/

/-- structural fact: a media segment is the moof box (whose trun data offset is `moof size + 8`),
    an 8-byte mdat header, and the sample payloads concatenated in order -/
theorem C10_segment_layout (ss : List FSample) (q b : Nat) :
    buildSegment ss q b =
      (fMoof ss q b ((fMoof ss q b 0).ser.length % 2^32 + 8)).ser ++
        u32be (8 + (ss.map (·.data.length)).sum) ++ ascii "mdat" ++ ss.flatMap (·.data) :=
  buildSegment_struct ss q b

/-- the moof size does not depend on the data-offset value written into it (so computing the
    offset from a moof built with offset 0 is sound) -/
theorem C10_size_moof_indep (ss : List FSample) (q b off off' : Nat) :
    (fMoof ss q b off).ser.length = (fMoof ss q b off').ser.length :=
  size_moof_indep ss q b off q b off'

/-- **Reader round trip**: if the moof size + 8 fits a positive `i32` (the signed trun data
    offset), the mdat size `8 + Σ payload` fits the 32-bit box size field, and the base decode
    time fits 64 bits, then the independent reader parses the segment, sees sequence number
    `q mod 2^32`, base decode time `b`, and — locating the run through the trun data offset
    relative to the start of the moof (default-base-is-moof) — reads back exactly the submitted
    payloads, in order.
    NOTE the hypothesis `h2`: per-sample `data.length < 2^32` alone is NOT enough, the mdat size
    field `(8 + Σ payload) as u32` wraps when the total reaches 2^32 − 8 (see `C10_mdat_overflow`). -/
theorem C10_bytes (ss : List FSample) (q b : Nat)
    (h1 : (fMoof ss q b 0).ser.length + 8 < 2^31)
    (h2 : 8 + (ss.map (·.data.length)).sum < 2^32) (hb : b < 2^64) :
    ∃ seg, parseSegment (buildSegment ss q b) = some seg ∧ seg.seq = q % 2^32 ∧ seg.tfdt = b ∧
      seg.dataOffset = some (((fMoof ss q b 0).ser.length + 8 : Nat) : Int) ∧
      seg.rows.length = ss.length ∧
      seg.sampleBytes (buildSegment ss q b) = some (ss.map (·.data)) := by
  rw [fMoof_ser_length] at h1
  have h1' : 96 + 16 * ss.length < 2^31 := by omega
  have hp := parseSegment_buildSegment ss q b h1' h2 hb
  have hs := sampleBytes_buildSegment ss q b h1' h2 hb
  rw [hp, Option.bind_some] at hs
  refine ⟨_, hp, rfl, rfl, ?_, ?_, hs⟩
  · rw [fMoof_ser_length]
    have : 88 + 16 * ss.length + 8 = 96 + 16 * ss.length := by omega
    rw [this]
  · simp

/-- the hypotheses of `C10_bytes` are satisfiable (two samples, second with an empty payload) -/
example : ∃ seg, parseSegment (buildSegment [⟨10, 0, [1, 2, 3], true⟩, ⟨5, 5, [], false⟩] 7 0) = some seg ∧
    seg.sampleBytes (buildSegment [⟨10, 0, [1, 2, 3], true⟩, ⟨5, 5, [], false⟩] 7 0) = some [[1, 2, 3], []] := by
  obtain ⟨seg, h, _, _, _, _, hs⟩ := C10_bytes [⟨10, 0, [1, 2, 3], true⟩, ⟨5, 5, [], false⟩] 7 0
    (by rw [fMoof_ser_length]; decide) (by decide) (by decide)
  exact ⟨seg, h, hs⟩

/-- run level: every segment emitted in a run (within the size bounds) is read back as its own
    samples, with sequence number k+1 and base decode time = its first sample's dts -/
theorem C10_run_bytes (c : FragConfig) (ops : List FOp) (k : Nat) (ss : List FSample)
    (h : (emitted (start c) ops)[k]? = some ss) (hk : k + 1 < 2^32)
    (h1 : 96 + 16 * ss.length < 2^31) (h2 : 8 + (ss.map (·.data.length)).sum < 2^32)
    (hb : firstDts ss < 2^64) :
    ∃ bytes seg, (segments (start c) ops)[k]? = some bytes ∧ parseSegment bytes = some seg ∧
      seg.seq = k + 1 ∧ seg.tfdt = firstDts ss ∧ seg.sampleBytes bytes = some (ss.map (·.data)) := by
  obtain ⟨_, hseg⟩ := C10_seq c ops k ss h hk
  obtain ⟨seg, hp, hq, ht, _, _, hs⟩ := C10_bytes ss (k + 1) (firstDts ss)
    (by rw [fMoof_ser_length]; omega) h2 hb
  exact ⟨_, seg, hseg, hp, by rw [hq]; omega, ht, hs⟩

/-- **Finding**: the bound `h2` of `C10_bytes` is necessary in some form. When the queued payload
    reaches 2^32 − 8 bytes the hand-written mdat header `(8 + Σ payload) as u32` wraps; if it wraps to
    a value below 8 the emitted segment is not a well-formed box sequence and the reader rejects it. -/
theorem C10_mdat_overflow (ss : List FSample) (q b : Nat) (h1 : 88 + 16 * ss.length < 2^32)
    (h2 : (8 + (ss.map (·.data.length)).sum) % 2^32 < 8) :
    parseSegment (buildSegment ss q b) = none :=
  parseSegment_mdat_overflow ss q b h1 h2

/-- the hypotheses of `C10_mdat_overflow` hold for one sample of 2^32 − 8 bytes (each sample size
    still fits its own 32-bit trun field) -/
example : ∃ ss : List FSample, 88 + 16 * ss.length < 2^32 ∧ (8 + (ss.map (·.data.length)).sum) % 2^32 < 8 ∧
    ∀ s ∈ ss, s.data.length < 2^32 := by
  refine ⟨[⟨0, 0, List.replicate (2^32 - 8) 0, true⟩], ?_, ?_, ?_⟩
  · simp only [List.length_cons, List.length_nil]; omega
  · simp only [List.map_cons, List.map_nil, List.sum_cons, List.sum_nil, List.length_replicate]; omega
  · intro s hs
    simp only [List.mem_singleton] at hs
    subst hs
    simp only [List.length_replicate]
    omega

/-- a concrete run (empty flush, a rejected write, interleaved queries and init requests):
    two segments numbered 1 and 2, three accepted writes -/
example (c : FragConfig) :
    let ops : List FOp := [.flush, .write 0 0 [1] true, .init, .write 7 5 [2, 3] false, .write 4 4 [9] true,
      .ready, .flush, .flush, .init, .write 9 9 [] true, .dur, .flush]
    emitted (start c) ops = [[⟨0, 0, [1], true⟩, ⟨7, 5, [2, 3], false⟩], [⟨9, 9, [], true⟩]] ∧
    accepted (start c) ops = [⟨0, 0, [1], true⟩, ⟨7, 5, [2, 3], false⟩, ⟨9, 9, [], true⟩] ∧
    segments (start c) ops = [buildSegment [⟨0, 0, [1], true⟩, ⟨7, 5, [2, 3], false⟩] 1 0,
      buildSegment [⟨9, 9, [], true⟩] 2 9] :=
  ⟨rfl, rfl, rfl⟩

end Muxide.Props.C10
