import Muxide.Lemmas.Records
import Muxide.Lemmas.Fields
import Muxide.Lemmas.LayoutAV
import Muxide.Props.C03
/-
  C16 — every fixed-width numeric field the muxer writes holds the exact mathematical value implied
  by the input; a value that does not fit its field makes the producing operation fail instead of
  being written wrapped or clipped.
  1. the integer encodings read back as the value modulo the field width — exact iff in range;
  2. the sample tables decode (Muxide.Spec.Reader) to exactly the tables handed to the builders
     when the entries are in range;
  3. guards: in every reachable writer state on which `finalize` succeeds, every value handed to a
     32-bit / signed 32-bit / 16-bit field is in range; out-of-range inputs are rejected with an
     error and leave the writer unchanged.
  Property theorems only; helper lemmas live in Muxide/Lemmas/Records.lean and Fields.lean.
  (Recorded exceptions, proved elsewhere: the AAC sample entry's 16.16 rate wraps for rates
  ≥ 65536 — `C07_audio_rate_counterexample`.)
-/
namespace Muxide.Props.C16
open Muxide Muxide.Spec Box

/-! ## 1. field exactness -/

/-- a 32-bit field reads back as the value modulo 2^32, for every value -/
theorem C16_u32_field (n : Nat) (r : Bytes) : readU32 (u32be n ++ r) = some (n % 2^32, r) := by
  rw [u32be_mod]; exact readU32_u32be _ (by omega) r

/-- … so the field is exact precisely when the value is below 2^32 -/
theorem C16_u32_exact_iff (n : Nat) (r : Bytes) : readU32 (u32be n ++ r) = some (n, r) ↔ n < 2^32 := by
  rw [C16_u32_field]
  simp only [Option.some.injEq, Prod.mk.injEq, and_true]
  omega

theorem C16_u16_field (n : Nat) (r : Bytes) : readU16 (u16be n ++ r) = some (n % 2^16, r) := by
  rw [u16be_mod]; exact readU16_u16be _ (by omega) r

theorem C16_u16_exact_iff (n : Nat) (r : Bytes) : readU16 (u16be n ++ r) = some (n, r) ↔ n < 2^16 := by
  rw [C16_u16_field]
  simp only [Option.some.injEq, Prod.mk.injEq, and_true]
  omega

theorem C16_u64_field (n : Nat) (r : Bytes) : readU64 (u64be n ++ r) = some (n % 2^64, r) := by
  simp only [readU64, u64be, List.append_assoc]
  rw [C16_u32_field]
  simp only []
  rw [C16_u32_field]
  simp only [Option.some.injEq, Prod.mk.injEq, and_true]
  omega

theorem C16_u64_exact_iff (n : Nat) (r : Bytes) : readU64 (u64be n ++ r) = some (n, r) ↔ n < 2^64 := by
  rw [C16_u64_field]
  simp only [Option.some.injEq, Prod.mk.injEq, and_true]
  omega

/-- a signed 32-bit field reads back as the value wrapped into [-2^31, 2^31) -/
theorem C16_i32_field (z : Int) (r : Bytes) :
    (readU32 (i32be z ++ r)).map (fun (x, r) => (toI32 x, r)) = some ((z + 2^31) % 2^32 - 2^31, r) := by
  rw [i32be, readU32_u32be _ (i32_pattern_lt z)]
  simp only [Option.map_some, toI32_wrap]

theorem C16_i32_exact_iff (z : Int) (r : Bytes) :
    (readU32 (i32be z ++ r)).map (fun (x, r) => (toI32 x, r)) = some (z, r) ↔ -(2^31 : Int) ≤ z ∧ z < 2^31 := by
  rw [C16_i32_field]
  simp only [Option.some.injEq, Prod.mk.injEq, and_true]
  omega

/-- one byte -/
theorem C16_u8_field (n : Nat) : (u8 n).toNat = n % 256 := by simp [u8, UInt8.toNat_ofNat']

/-! ## 2. table exactness -/

/-- chunk offsets -/
theorem C16_stco (offs : List Nat) (h : ∀ o ∈ offs, o < 2^32) (hl : offs.length < 2^32) :
    decodeU32Table (bStco offs).pre = some offs := by
  have h3 := readU32s_flatMap offs [] h
  simp only [List.append_nil] at h3
  refine decodeU32Table_of _ _ _ 0 _ _ ?_ (readU32_u32be offs.length hl (offs.flatMap u32be)) h3
  simp only [bStco, leaf, Box.pre, List.append_assoc]
  exact readU32_u32be 0 (by omega) _

/-- sync-sample numbers (same layout) -/
theorem C16_stss (keys : List Nat) (h : ∀ k ∈ keys, k < 2^32) (hl : keys.length < 2^32) :
    decodeU32Table (bStss keys).pre = some keys := by
  have h3 := readU32s_flatMap keys [] h
  simp only [List.append_nil] at h3
  refine decodeU32Table_of _ _ _ 0 _ _ ?_ (readU32_u32be keys.length hl (keys.flatMap u32be)) h3
  simp only [bStss, leaf, Box.pre, List.append_assoc]
  exact readU32_u32be 0 (by omega) _

/-- sample sizes (per-sample form: uniform size 0) -/
theorem C16_stsz (sizes : List Nat) (h : ∀ s ∈ sizes, s < 2^32) (hl : sizes.length < 2^32) :
    decodeStsz (bStsz sizes).pre = some sizes := by
  have h3 := readU32s_flatMap sizes [] h
  simp only [List.append_nil] at h3
  refine decodeStsz_of _ _ _ _ 0 _ _ ?_ (readU32_u32be 0 (by omega) _)
    (readU32_u32be sizes.length hl (sizes.flatMap u32be)) h3
  simp only [bStsz, leaf, Box.pre, List.append_assoc]
  exact readU32_u32be 0 (by omega) _

/-- decode-time runs: the decoded table is the run-length table of the durations -/
theorem C16_stts (ds : List Nat) (h : ∀ d ∈ ds, d < 2^32) (hl : ds.length < 2^32) :
    decodeStts (bStts ds).pre = some (rle ds) := by
  have hlen : (rle ds).length < 2^32 := Nat.lt_of_le_of_lt (rle_length_le ds) hl
  have hes : ∀ e ∈ rle ds, e.1 < 2^32 ∧ e.2 < 2^32 := fun e he =>
    ⟨Nat.lt_of_le_of_lt (rle_count_le ds e he) hl, h _ (rle_value_mem ds e he)⟩
  have h3 := readPairs_flatMap (rle ds) [] hes
  simp only [List.append_nil] at h3
  refine decodeStts_of _ _ _ 0 _ _ ?_ (readU32_u32be _ hlen _) h3
  simp only [bStts, leaf, Box.pre, List.append_assoc]
  exact readU32_u32be 0 (by omega) _

/-- … and expanding its runs gives back the per-sample durations -/
theorem C16_stts_expand (ds : List Nat) (h : ∀ d ∈ ds, d < 2^32) (hl : ds.length < 2^32) :
    (decodeStts (bStts ds).pre).map expandRuns = some ds := by
  rw [C16_stts ds h hl, Option.map_some, expandRuns_rle]

/-- composition offsets: version 1 (signed); the decoded table is the run-length table of the
    offsets when each fits an `i32` -/
theorem C16_ctts (os : List Int) (h : ∀ o ∈ os, -(2^31 : Int) ≤ o ∧ o < 2^31) (hl : os.length < 2^32) :
    decodeCtts (bCtts os).pre = some (rle os) := by
  have hlen : (rle os).length < 2^32 := Nat.lt_of_le_of_lt (rle_length_le os) hl
  have hes : ∀ e ∈ rle os, e.1 < 2^32 := fun e he => Nat.lt_of_le_of_lt (rle_count_le os e he) hl
  have h3 := readPairs_flatMap_i32 (rle os) [] hes
  simp only [List.append_nil] at h3
  have h1 : readU32 (bCtts os).pre = some (0x01000000,
      u32be (rle os).length ++ (rle os).flatMap fun (c, o) => u32be c ++ i32be o) := by
    simp only [bCtts, leaf, Box.pre, List.append_assoc]
    exact readU32_u32be 0x01000000 (by omega) _
  rw [decodeCtts_of _ _ _ _ _ _ h1 (readU32_u32be _ hlen _) h3, List.map_map]
  congr 1
  conv => rhs; rw [← List.map_id (rle os)]
  apply List.map_congr_left
  intro e he
  obtain ⟨c, o⟩ := e
  have ho := h o (rle_value_mem os _ he)
  simp only [Function.comp, id, Prod.mk.injEq, true_and]
  rw [if_neg (by decide)]
  exact toI32_i32 o ho.1 ho.2

/-- sample-to-chunk: empty when there is no chunk (or no sample per chunk), else the single run
    (first chunk 1, `spc` samples per chunk, description index 1) -/
theorem C16_stsc (spc n : Nat) (h : spc < 2^32) :
    decodeStsc (bStsc spc n).pre = some (if n % 2^32 = 0 ∨ spc = 0 then [] else [(1, spc, 1)]) := by
  unfold bStsc
  split
  · exact decodeStsc_of _ _ _ 0 0 [] (readU32_u32be 0 (by omega) _) (by decide) rfl
  · refine decodeStsc_of _ (u32be 1 ++ (u32be 1 ++ (u32be spc ++ u32be 1))) (u32be 1 ++ (u32be spc ++ u32be 1))
      0 1 _ ?_ (readU32_u32be 1 (by omega) _) ?_
    · simp only [leaf, Box.pre, List.append_assoc]
      exact readU32_u32be 0 (by omega) _
    · rw [readTriples, readU32_u32be 1 (by omega)]
      simp only []
      rw [readU32_u32be spc h]
      simp only []
      have := readU32_u32be 1 (by omega) []
      simp only [List.append_nil] at this
      rw [this]
      simp [readTriples]

/-! ## 3. guards: the values handed to the fields are in range -/

/-- In every reachable writer state on which `finalize` succeeds, every value written to a
    fixed-width field of the sample tables and headers is in range: the stts deltas and the mdhd
    durations of both tracks (C03_durations_u32, C03_finalize_ok), the sample sizes, the entry
    counts, every composition offset (as a signed 32-bit value), and the dimensions (16 bits). -/
theorem C16_finalize_values (w : Writer) (hr : w.Reachable) (width height : Nat) (md : Option Metadata)
    (fast : Bool) (h : (w.finalize width height md fast).2.res = .ok) :
    (∀ d ∈ durationsOf w.vsRev.reverse w.vLastDelta, d < 2^32) ∧
    (∀ d ∈ durationsOf w.asRev.reverse w.aLastDelta, d < 2^32) ∧
    (durationsOf w.vsRev.reverse w.vLastDelta).sum < 2^32 ∧
    (durationsOf w.asRev.reverse w.aLastDelta).sum < 2^32 ∧
    (∀ n ∈ w.vsRev.reverse.map (·.data.length), n < 2^32) ∧
    (∀ n ∈ w.asRev.reverse.map (·.data.length), n < 2^32) ∧
    w.vsRev.length < 2^32 ∧ (w.audio.isSome → w.asRev.length < 2^32) ∧
    (∀ s ∈ w.vsRev, -(2^31 : Int) ≤ (s.pts : Int) - s.dts ∧ (s.pts : Int) - s.dts < 2^31) ∧
    width < 2^16 ∧ height < 2^16 := by
  obtain ⟨hv, ha⟩ := hr.timing
  obtain ⟨d1, d2⟩ := C03.C03_durations_u32 w hv ha
  obtain ⟨-, s1, s2⟩ := C03.C03_finalize_ok w width height md fast h
  obtain ⟨z1, z2⟩ := hr.sizesOk
  obtain ⟨c1, c2⟩ := finalize_ok_count w width height md fast h
  obtain ⟨w1, w2⟩ := finalize_ok_dims w width height md fast h
  simp only [u32Max] at d1 d2 z1 z2
  refine ⟨fun d hd => by have := d1 d hd; omega, fun d hd => by have := d2 d hd; omega, by omega, by omega,
    ?_, ?_, c1, c2, ?_, by omega, by omega⟩
  · intro n hn
    have := z1 n (by simpa using hn); omega
  · intro n hn
    have := z2 n (by simpa using hn); omega
  · intro s hs
    have := hv.cts s hs; omega

/-- consequently the tables of the video track of a finished file decode to exactly the values
    computed from the input: run-length durations, sizes, and — for u64 timestamps — the
    composition offsets `pts - dts` (C03_ctts) -/
theorem C16_finalize_video_tables (w : Writer) (hr : w.Reachable) (width height : Nat) (md : Option Metadata)
    (fast : Bool) (h : (w.finalize width height md fast).2.res = .ok)
    (h64 : ∀ s ∈ w.vsRev, s.pts < 2^64 ∧ s.dts < 2^64) (offs : List Nat) (spc : Nat) :
    let t := Tables.ofSamples w.vsRev.reverse offs spc w.vLastDelta
    decodeStts (bStts t.durations).pre = some (rle (durationsOf w.vsRev.reverse w.vLastDelta)) ∧
    decodeStsz (bStsz t.sizes).pre = some (w.vsRev.reverse.map (·.data.length)) ∧
    decodeCtts (bCtts t.ctsOffsets).pre = some (rle (w.vsRev.reverse.map fun s => (s.pts : Int) - s.dts)) := by
  obtain ⟨d1, -, -, -, z1, -, c1, -, o1, -, -⟩ := C16_finalize_values w hr width height md fast h
  obtain ⟨hv, -⟩ := hr.timing
  obtain ⟨-, -, -⟩ := C03.C03_finalize_ok w width height md fast h
  have hcts := (C03.C03_ctts w offs spc hv h64 (C03.C03_finalize_ok w width height md fast h).1).1
  intro t
  refine ⟨?_, ?_, ?_⟩
  · show decodeStts (bStts (durationsOf w.vsRev.reverse w.vLastDelta)).pre = _
    exact C16_stts _ d1 (by rw [durationsOf_length]; simpa using c1)
  · show decodeStsz (bStsz (w.vsRev.reverse.map (·.data.length))).pre = _
    exact C16_stsz _ z1 (by simpa using c1)
  · show decodeCtts (bCtts (Tables.ofSamples w.vsRev.reverse offs spc w.vLastDelta).ctsOffsets).pre = _
    rw [hcts]
    apply C16_ctts
    · intro o ho
      simp only [List.mem_map, List.mem_reverse] at ho
      obtain ⟨s, hs, rfl⟩ := ho
      exact o1 s hs
    · simpa using c1

/-- the same for the audio track (when the writer has one) -/
theorem C16_finalize_audio_tables (w : Writer) (hr : w.Reachable) (width height : Nat) (md : Option Metadata)
    (fast : Bool) (h : (w.finalize width height md fast).2.res = .ok) (hau : w.audio.isSome)
    (offs : List Nat) (spc : Nat) :
    let t := Tables.ofSamples w.asRev.reverse offs spc w.aLastDelta
    decodeStts (bStts t.durations).pre = some (rle (durationsOf w.asRev.reverse w.aLastDelta)) ∧
    decodeStsz (bStsz t.sizes).pre = some (w.asRev.reverse.map (·.data.length)) := by
  obtain ⟨-, d2, -, -, -, z2, -, c2, -, -, -⟩ := C16_finalize_values w hr width height md fast h
  have c2 := c2 hau
  intro t
  refine ⟨?_, ?_⟩
  · show decodeStts (bStts (durationsOf w.asRev.reverse w.aLastDelta)).pre = _
    exact C16_stts _ d2 (by rw [durationsOf_length]; simpa using c2)
  · show decodeStsz (bStsz (w.asRev.reverse.map (·.data.length))).pre = _
    exact C16_stsz _ z2 (by simpa using c2)

/-- … and both mdhd duration fields read back as the exact sums (C03_mdhd_finished) -/
theorem C16_finalize_mdhd (w : Writer) (width height : Nat) (md : Option Metadata) (fast : Bool)
    (lang : Option (List Nat)) (h : (w.finalize width height md fast).2.res = .ok) :
    (∃ rest, readU32 ((bMdhd 90000 (durationsOf w.vsRev.reverse w.vLastDelta).sum lang).pre.drop 16) =
      some ((durationsOf w.vsRev.reverse w.vLastDelta).sum, rest)) ∧
    (∃ rest, readU32 ((bMdhd 90000 (durationsOf w.asRev.reverse w.aLastDelta).sum lang).pre.drop 16) =
      some ((durationsOf w.asRev.reverse w.aLastDelta).sum, rest)) :=
  C03.C03_mdhd_finished w width height md fast lang h

/-! ### chunk offsets -/

/-- fast-start layout with audio: every chunk offset written fits 32 bits (the writer checks the
    largest cursor value it pushes) -/
theorem C16_stco_faststart_av (w : Writer) (width height : Nat) (md : Option Metadata) (vc : VideoConfig)
    (tr : AudioTrack) (ha : w.audio = some tr)
    (hok : (finalizeFastStart w width height md vc).res = .ok) :
    let vs := w.vsRev.reverse
    let aus := w.asRev.reverse
    let ph := assignOffsets (fun _ => 1) (schedule vs aus) 0
    let placeholder := bMoov width height (Tables.ofSamples vs ph.1 1 w.vLastDelta)
      (some (tr, Tables.ofSamples aus ph.2 1 w.aLastDelta)) vc md
    let o := assignOffsets (entSize vs aus) (schedule vs aus) (ftypLen + placeholder.ser.length + 8)
    (∀ x ∈ o.1, x < 2^32) ∧ (∀ x ∈ o.2, x < 2^32) := by
  intro vs aus ph placeholder o
  obtain ⟨-, hm, -⟩ := finalizeFastStart_av_ok w width height md vc tr ha hok
  have hb := assignOffsets_le_maxPushed (entSize vs aus) (schedule vs aus) (ftypLen + placeholder.ser.length + 8)
  have hm' : maxPushed (entSize vs aus) (schedule vs aus) (ftypLen + placeholder.ser.length + 8) < 2^32 :=
    Nat.lt_succ_of_le hm
  exact ⟨fun x hx => Nat.lt_of_le_of_lt (hb.1 x hx) hm', fun x hx => Nat.lt_of_le_of_lt (hb.2 x hx) hm'⟩

/-- fast-start layout, video only: the single chunk offset fits 32 bits -/
theorem C16_stco_faststart_video (w : Writer) (width height : Nat) (md : Option Metadata) (vc : VideoConfig)
    (ha : w.audio = none) (hne : w.vsRev.reverse ≠ [])
    (hok : (finalizeFastStart w width height md vc).res = .ok) :
    let vs := w.vsRev.reverse
    let spc := if vs ≠ [] then vs.length else 0
    let placeholder := bMoov width height (Tables.ofSamples vs (if vs ≠ [] then [0] else []) spc w.vLastDelta) none vc md
    ftypLen + placeholder.ser.length + 8 < 2^32 := by
  intro vs spc placeholder
  obtain ⟨-, hs, -⟩ := finalizeFastStart_video_ok w width height md vc ha hok
  exact Nat.lt_succ_of_le (hs hne)

/-- standard layout, video only: the single chunk offset is 32 -/
theorem C16_stco_standard_video (w : Writer) (width height : Nat) (md : Option Metadata) (vc : VideoConfig)
    (ha : w.audio = none) (hok : (finalizeStandard w width height md vc).res = .ok) :
    let vs := w.vsRev.reverse
    (finalizeStandard w width height md vc).chunks =
      [bFtyp.ser] ++ (if vs ≠ [] then mdatHeader (vs.map (·.data.length)).sum ++ vs.map (·.data) else []) ++
      [(bMoov width height (Tables.ofSamples vs (if vs ≠ [] then [32] else [])
          (if vs ≠ [] then vs.length else 0) w.vLastDelta) none vc md).ser] :=
  (finalizeStandard_video_ok w width height md vc ha hok).2

/-- standard layout with audio (`_partial`: extra hypothesis `32 + payload ≤ 2^32 - 1`): the
    offsets start at 32, so they fit when the payload is at least 24 bytes smaller than the
    mdat-size bound `8 + payload ≤ 2^32 - 1`. Since `finalizeStandard` now also checks
    `ftypLen + 8 + payload ≤ 2^32 - 1` ("MP4 chunk offset exceeds u32::MAX"), the extra hypothesis
    follows from `hok`; the full-strength theorem is `C16_stco_standard_av` below. -/
theorem C16_stco_standard_av_partial (w : Writer) (width height : Nat) (md : Option Metadata) (vc : VideoConfig)
    (tr : AudioTrack) (ha : w.audio = some tr) (hok : (finalizeStandard w width height md vc).res = .ok)
    (hsmall : ftypLen + 8 + ((w.vsRev.reverse.map (·.data.length)).sum +
      (w.asRev.reverse.map (·.data.length)).sum) ≤ u32Max) :
    let vs := w.vsRev.reverse
    let aus := w.asRev.reverse
    let payload := (vs.map (·.data.length)).sum + (aus.map (·.data.length)).sum
    let o := assignOffsets (entSize vs aus) (schedule vs aus) (ftypLen + 8)
    (∀ x ∈ o.1, x < 2^32) ∧ (∀ x ∈ o.2, x < 2^32) ∧
    (finalizeStandard w width height md vc).chunks =
      [bFtyp.ser] ++ mdatHeader payload ++ (schedule vs aus).map (entData vs aus) ++
      [(bMoov width height (Tables.ofSamples vs o.1 1 w.vLastDelta)
          (some (tr, Tables.ofSamples aus o.2 1 w.aLastDelta)) vc md).ser] := by
  intro vs aus payload o
  have hb := assignOffsets_le_sum (entSize vs aus) (schedule vs aus) (ftypLen + 8)
  rw [schedule_size_sum] at hb
  have hs : ftypLen + 8 + ((vs.map (·.data.length)).sum + (aus.map (·.data.length)).sum) < 2^32 :=
    Nat.lt_succ_of_le hsmall
  exact ⟨fun x hx => Nat.lt_of_le_of_lt (hb.1 x hx) hs, fun x hx => Nat.lt_of_le_of_lt (hb.2 x hx) hs,
    (finalizeStandard_av_ok w width height md vc tr ha hok).2⟩

/-- standard layout with audio, full strength: whenever `finalizeStandard` succeeds, every chunk
    offset handed to the two `stco` boxes fits 32 bits (the chunk-offset guard of the layout
    implies the hypothesis of the `_partial` form) -/
theorem C16_stco_standard_av (w : Writer) (width height : Nat) (md : Option Metadata) (vc : VideoConfig)
    (tr : AudioTrack) (ha : w.audio = some tr) (hok : (finalizeStandard w width height md vc).res = .ok) :
    let vs := w.vsRev.reverse
    let aus := w.asRev.reverse
    let payload := (vs.map (·.data.length)).sum + (aus.map (·.data.length)).sum
    let o := assignOffsets (entSize vs aus) (schedule vs aus) (ftypLen + 8)
    (∀ x ∈ o.1, x < 2^32) ∧ (∀ x ∈ o.2, x < 2^32) ∧
    (finalizeStandard w width height md vc).chunks =
      [bFtyp.ser] ++ mdatHeader payload ++ (schedule vs aus).map (entData vs aus) ++
      [(bMoov width height (Tables.ofSamples vs o.1 1 w.vLastDelta)
          (some (tr, Tables.ofSamples aus o.2 1 w.aLastDelta)) vc md).ser] :=
  C16_stco_standard_av_partial w width height md vc tr ha hok
    (finalizeStandard_av_ok_offset w width height md vc tr ha hok)

/-- Counterexample to the cursor walk WITHOUT the chunk-offset guard (the former defect; this case
    is now excluded by `finalizeStandard`, see `C16_stco_standard_av_counterexample_guarded` and
    `C16_stco_standard_av`): one video sample of 2^32 - 10 bytes followed by one audio sample of
    1 byte pass the mdat-size check alone (8 + payload = 2^32 - 1), and `assignOffsets` gives the
    audio chunk the offset 2^32 + 22 — it does not fit the 32-bit stco field (`u32be` would write it
    modulo 2^32, i.e. 22). Stated on the cursor walk with the two sizes; it shows that the mdat-size
    check by itself does not bound the offsets, i.e. the extra guard is necessary. -/
theorem C16_stco_standard_av_counterexample :
    let step : Ent → Nat := fun e => if e.kind = 0 then 2^32 - 10 else 1
    let sched : List Ent := [⟨0, 0, 0⟩, ⟨0, 1, 0⟩]
    8 + (sched.map step).sum ≤ u32Max ∧
    assignOffsets step sched (ftypLen + 8) = ([32], [2^32 + 22]) ∧
    ¬ (2^32 + 22 < 2^32) ∧ u32be (2^32 + 22) = u32be 22 := by
  refine ⟨by decide, by decide, by decide, by decide⟩

/-- … and on exactly these sizes the chunk-offset guard of `finalizeStandard` fires -/
theorem C16_stco_standard_av_counterexample_guarded :
    let step : Ent → Nat := fun e => if e.kind = 0 then 2^32 - 10 else 1
    let sched : List Ent := [⟨0, 0, 0⟩, ⟨0, 1, 0⟩]
    ftypLen + 8 + (sched.map step).sum > u32Max := by
  decide

/-- the standard A/V layout refuses (and writes only `ftyp`) when the mdat size fits but the last
    chunk offset could exceed 32 bits -/
theorem C16_finalizeStandard_rejects_offset (w : Writer) (width height : Nat) (md : Option Metadata)
    (vc : VideoConfig) (tr : AudioTrack) (ha : w.audio = some tr)
    (h1 : 8 + ((w.vsRev.reverse.map (·.data.length)).sum + (w.asRev.reverse.map (·.data.length)).sum) ≤ u32Max)
    (h2 : ftypLen + 8 + ((w.vsRev.reverse.map (·.data.length)).sum +
      (w.asRev.reverse.map (·.data.length)).sum) > u32Max) :
    finalizeStandard w width height md vc = ⟨[bFtyp.ser], .ioErr "MP4 chunk offset exceeds u32::MAX"⟩ := by
  unfold finalizeStandard
  simp only [ha]
  rw [if_neg (Nat.not_lt.mpr h1), if_pos h2]

/-! ## 4. rejections -/

/-- a video decode-time gap above 2^32 - 1 ticks is rejected with `durationOverflow` and the
    writer is unchanged: nothing is written wrapped -/
theorem C16_writeVideo_rejects_gap (w : Writer) (pts dts prev : Nat) (data : Bytes) (key : Bool)
    (hf : w.finalized = false) (hp : w.vPrev = some prev) (h1 : prev < dts) (h2 : dts - prev > 2^32 - 1) :
    w.writeVideo pts dts data key = (w, .err .durationOverflow) :=
  writeVideo_gap_rejected w pts dts prev data key hf hp h1 (by simpa [u32Max] using h2)

theorem C16_writeAudio_rejects_gap (w : Writer) (pts prev : Nat) (data : Bytes) (tr : AudioTrack)
    (hf : w.finalized = false) (ha : w.audio = some tr) (hp : w.aPrev = some prev) (h1 : prev ≤ pts)
    (h2 : pts - prev > 2^32 - 1) :
    w.writeAudio pts data = (w, .err .durationOverflow) :=
  writeAudio_gap_rejected w pts prev data tr hf ha hp h1 (by simpa [u32Max] using h2)

/-- a frame whose composition offset `pts - dts` does not fit an `i32` is never accepted, in any
    writer state, and leaves the writer unchanged -/
theorem C16_writeVideo_rejects_cts (w : Writer) (pts dts : Nat) (data : Bytes) (key : Bool)
    (h : (pts : Int) - dts ≥ 2^31 ∨ (pts : Int) - dts < -(2^31)) :
    (w.writeVideo pts dts data key).2 ≠ .ok ∧ (w.writeVideo pts dts data key).1 = w :=
  writeVideo_cts_not_ok w pts dts data key (by omega)

/-- … with error `durationOverflow` once the earlier checks (order, gap, payload size) pass -/
theorem C16_writeVideo_rejects_cts_err (w : Writer) (pts dts prev : Nat) (data : Bytes) (key : Bool)
    (hf : w.finalized = false) (hp : w.vPrev = some prev) (h1 : prev < dts) (h2 : dts - prev ≤ 2^32 - 1)
    (h3 : (convertPayload w.codec data).length ≤ 2^32 - 1)
    (h : (pts : Int) - dts ≥ 2^31 ∨ (pts : Int) - dts < -(2^31)) :
    w.writeVideo pts dts data key = (w, .err .durationOverflow) :=
  writeVideo_cts_rejected w pts dts prev data key hf hp h1 (by simpa [u32Max] using h2)
    (by simpa [u32Max] using h3) (by omega)

theorem C16_writeVideo_rejects_cts_err_first (w : Writer) (pts dts : Nat) (data : Bytes) (c : VideoConfig)
    (hf : w.finalized = false) (hp : w.vPrev = none) (hc : extractConfig w.codec data = .some c)
    (h3 : (convertPayload w.codec data).length ≤ 2^32 - 1)
    (h : (pts : Int) - dts ≥ 2^31 ∨ (pts : Int) - dts < -(2^31)) :
    w.writeVideo pts dts data true = (w, .err .durationOverflow) :=
  writeVideo_cts_rejected_first w pts dts data c hf hp hc (by simpa [u32Max] using h3) (by omega)

/-- `finalize` refuses a track whose total duration exceeds 2^32 - 1 media ticks … -/
theorem C16_finalize_rejects_duration (w : Writer) (width height : Nat) (md : Option Metadata) (fast : Bool)
    (hf : w.finalized = false)
    (h : (durationsOf w.vsRev.reverse w.vLastDelta).sum > 2^32 - 1 ∨
         (durationsOf w.asRev.reverse w.aLastDelta).sum > 2^32 - 1) :
    (w.finalize width height md fast).2 = ⟨[], .ioErr "MP4 track duration exceeds u32::MAX media ticks"⟩ :=
  finalize_duration_rejected w width height md fast hf (by simpa [u32Max] using h)

/-- … and dimensions above 65535; in both cases nothing is written -/
theorem C16_finalize_rejects_dims (w : Writer) (width height : Nat) (md : Option Metadata) (fast : Bool)
    (hf : w.finalized = false)
    (hd : (durationsOf w.vsRev.reverse w.vLastDelta).sum ≤ 2^32 - 1 ∧
          (durationsOf w.asRev.reverse w.aLastDelta).sum ≤ 2^32 - 1)
    (h : width > 65535 ∨ height > 65535) :
    (w.finalize width height md fast).2 = ⟨[], .ioErr "video width and height must fit in 16 bits"⟩ :=
  finalize_dims_rejected w width height md fast hf (by simpa [u32Max] using hd) h

/-! ## non-vacuity -/
example : decodeStts (bStts [3000, 3000, 3000, 1]).pre = some [(3, 3000), (1, 1)] := by decide
example : decodeCtts (bCtts [3000, -3000, 0]).pre = some [(1, 3000), (1, -3000), (1, 0)] := by decide
example : decodeStsz (bStsz [10, 20]).pre = some [10, 20] := by decide

end Muxide.Props.C16
