import Muxide.Props.C01E2E
import Muxide.Props.C14
import Muxide.Lemmas.Api
/-
  C01 (history form) — C01_e2e speaks about a reachable writer *state*: what is read back from the file is
  what sits in the writer's queues.  This file closes the remaining step to the property's own words:
  "every frame the muxer ACCEPTED, in submission order, resolves to exactly the bytes SUBMITTED (after the
  re-framing of C14)".  For every sequence of write calls on a fresh writer, the samples read back from the
  finished file by the independent reader are, one for one and in order,
    * video: (re-framed submitted bytes, submitted key flag) of the calls answered `ok`,
    * audio: the raw payload of the submitted frame (ADTS header stripped / Opus packet as is) of the calls
      answered `ok`,
  and nothing else.  The re-framing is `convertPayload`, whose content C14 characterises
  (`C14_frame_roundtrip`: it parses back to the units of the submitted access unit).
-/
namespace Muxide.Props.C01History
open Muxide Muxide.Spec Muxide.Props.C01E2E

/-- a frame-writing call on the writer, with what was submitted -/
inductive WCall where
  | video (pts dts : Nat) (data : Bytes) (key : Bool)
  | audio (pts : Nat) (data : Bytes)
deriving Repr, DecidableEq

def wstep (w : Writer) : WCall → Writer × WRes
  | .video pts dts data key => w.writeVideo pts dts data key
  | .audio pts data => w.writeAudio pts data

/-- run a history; the replies are returned in call order -/
def wrun (w : Writer) : List WCall → Writer × List WRes
  | [] => (w, [])
  | c :: cs =>
    let (w1, r) := wstep w c
    let (w2, rs) := wrun w1 cs
    (w2, r :: rs)

/-- what an accepted audio frame is stored as: the ADTS payload, or the Opus packet itself -/
def audioPayload (tr : AudioTrack) (data : Bytes) : Option Bytes :=
  match tr.codec with
  | .aac _ => match adtsToRaw data with
              | .ok r => some r
              | .error _ => none
  | .opus => if isValidOpus data then some data else none
  | .none => none

/-- (pts, dts, stored bytes, key flag) of the accepted video calls of a history, in call order -/
def acceptedVideo (codec : VCodec) : List WCall → List WRes → List (Nat × Nat × Bytes × Bool)
  | .video pts dts data key :: cs, .ok :: rs => (pts, dts, convertPayload codec data, key) :: acceptedVideo codec cs rs
  | _ :: cs, _ :: rs => acceptedVideo codec cs rs
  | _, _ => []

/-- (pts, stored bytes) of the accepted audio calls of a history, in call order -/
def acceptedAudio (tr : Option AudioTrack) : List WCall → List WRes → List (Nat × Bytes)
  | .audio pts data :: cs, .ok :: rs =>
    (pts, match tr with
     | some t => (audioPayload t data).getD []
     | none => []) :: acceptedAudio tr cs rs
  | _ :: cs, _ :: rs => acceptedAudio tr cs rs
  | _, _ => []

/-! ### one call -/

/-- what is read back of a queued video sample / audio sample -/
def vproj (s : Sample) : Nat × Nat × Bytes × Bool := (s.pts, s.dts, s.data, s.key)
def aproj (s : Sample) : Nat × Bytes := (s.pts, s.data)

theorem setLastDur_map_dk (rev : List Sample) (d : Nat) : (setLastDur rev d).map vproj = rev.map vproj := by
  cases rev <;> simp [setLastDur, vproj]

theorem setLastDur_map_data (rev : List Sample) (d : Nat) : (setLastDur rev d).map aproj = rev.map aproj := by
  cases rev <;> simp [setLastDur, aproj]

/-- an accepted video call pushes (re-framed bytes, flag) and touches nothing else that is read back -/
theorem writeVideo_ok (w : Writer) (pts dts : Nat) (data : Bytes) (key : Bool)
    (h : (w.writeVideo pts dts data key).2 = .ok) :
    let w' := (w.writeVideo pts dts data key).1
    w'.vsRev.map vproj = (pts, dts, convertPayload w.codec data, key) :: w.vsRev.map vproj ∧
    w'.asRev = w.asRev ∧ w'.codec = w.codec ∧ w'.audio = w.audio := by
  by_cases hf : w.finalized = true
  · simp [Writer.writeVideo, hf] at h
  cases hp : w.vPrev with
  | some prev =>
    by_cases h1 : dts ≤ prev
    · simp [Writer.writeVideo, hf, hp, h1] at h
    by_cases h2 : dts - prev > u32Max
    · simp [Writer.writeVideo, hf, hp, h1, h2] at h
    by_cases h3 : (convertPayload w.codec data).length > u32Max
    · simp [Writer.writeVideo, hf, hp, h1, h2, h3] at h
    by_cases h4 : (pts : Int) - (dts : Int) > 2^31 - 1 ∨ (pts : Int) - (dts : Int) < -(2^31)
    · simp only [Writer.writeVideo, hf, hp, h1, h2, h3, h4, Bool.false_eq_true, ↓reduceIte] at h
      cases h
    simp only [Writer.writeVideo, hf, hp, h1, h2, h3, h4, Bool.false_eq_true, ↓reduceIte]
    simp [setLastDur_map_dk, vproj]
  | none =>
    by_cases hk : key = true
    · cases hc : extractConfig w.codec data with
      | none => simp [Writer.writeVideo, hf, hp, hk, hc] at h
      | some c =>
        by_cases h3 : (convertPayload w.codec data).length > u32Max
        · simp [Writer.writeVideo, hf, hp, hk, hc, h3] at h
        by_cases h4 : (pts : Int) - (dts : Int) > 2^31 - 1 ∨ (pts : Int) - (dts : Int) < -(2^31)
        · simp only [Writer.writeVideo, hf, hp, hk, hc, h3, h4, not_true_eq_false, Bool.false_eq_true, ↓reduceIte] at h
          cases h
        simp only [Writer.writeVideo, hf, hp, hk, hc, h3, h4, not_true_eq_false, Bool.false_eq_true, ↓reduceIte]
        simp [vproj]
    · simp [Writer.writeVideo, hf, hp, hk] at h

/-- an accepted audio call pushes the raw payload of the submitted frame -/
theorem writeAudio_ok (w : Writer) (pts : Nat) (data : Bytes) (h : (w.writeAudio pts data).2 = .ok) :
    let w' := (w.writeAudio pts data).1
    ∃ tr sd, w.audio = some tr ∧ audioPayload tr data = some sd ∧
      w'.asRev.map aproj = (pts, sd) :: w.asRev.map aproj ∧
      w'.vsRev = w.vsRev ∧ w'.codec = w.codec ∧ w'.audio = w.audio := by
  by_cases hf : w.finalized = true
  · simp [Writer.writeAudio, hf] at h
  cases ha : w.audio with
  | none => simp [Writer.writeAudio, hf, ha] at h
  | some tr =>
    unfold audioPayload
    cases hp : w.aPrev with
    | some prev =>
      by_cases h1 : pts < prev
      · simp [Writer.writeAudio, hf, ha, hp, h1] at h
      by_cases h2 : pts - prev > u32Max
      · simp [Writer.writeAudio, hf, ha, hp, h1, h2] at h
      cases hcod : tr.codec with
      | none => simp [Writer.writeAudio, hf, ha, hp, h1, h2, hcod] at h
      | aac p =>
        cases hr : adtsToRaw data with
        | error k => simp [Writer.writeAudio, hf, ha, hp, h1, h2, hcod, hr] at h
        | ok r =>
          by_cases h3 : r.length > u32Max
          · simp [Writer.writeAudio, hf, ha, hp, h1, h2, hcod, hr, h3] at h
          · exact ⟨tr, r, rfl, by simp [hcod], by simp [Writer.writeAudio, hf, ha, hp, h1, h2, hcod, hr, h3, setLastDur_map_data, aproj]⟩
      | opus =>
        by_cases hv : isValidOpus data = true
        · by_cases h3 : data.length > u32Max
          · simp [Writer.writeAudio, hf, ha, hp, h1, h2, hcod, hv, h3] at h
          · exact ⟨tr, data, rfl, by simp [hcod, hv], by simp [Writer.writeAudio, hf, ha, hp, h1, h2, hcod, hv, h3, setLastDur_map_data, aproj]⟩
        · simp [Writer.writeAudio, hf, ha, hp, h1, h2, hcod, hv] at h
    | none =>
      cases hcod : tr.codec with
      | none => simp [Writer.writeAudio, hf, ha, hp, hcod] at h
      | aac p =>
        cases hr : adtsToRaw data with
        | error k => simp [Writer.writeAudio, hf, ha, hp, hcod, hr] at h
        | ok r =>
          by_cases h3 : r.length > u32Max
          · simp [Writer.writeAudio, hf, ha, hp, hcod, hr, h3] at h
          · exact ⟨tr, r, rfl, by simp [hcod], by simp [Writer.writeAudio, hf, ha, hp, hcod, hr, h3, aproj]⟩
      | opus =>
        by_cases hv : isValidOpus data = true
        · by_cases h3 : data.length > u32Max
          · simp [Writer.writeAudio, hf, ha, hp, hcod, hv, h3] at h
          · exact ⟨tr, data, rfl, by simp [hcod, hv], by simp [Writer.writeAudio, hf, ha, hp, hcod, hv, h3, aproj]⟩
        · simp [Writer.writeAudio, hf, ha, hp, hcod, hv] at h

/-! ### a history -/

/-- what a history leaves in the queues: the stored forms of the accepted calls, appended in call order -/
theorem wrun_queues (cs : List WCall) : ∀ (w : Writer),
    let r := wrun w cs
    r.1.vsRev.reverse.map vproj = w.vsRev.reverse.map vproj ++ acceptedVideo w.codec cs r.2 ∧
    r.1.asRev.reverse.map aproj = w.asRev.reverse.map aproj ++ acceptedAudio w.audio cs r.2 ∧
    r.1.codec = w.codec ∧ r.1.audio = w.audio := by
  induction cs with
  | nil => intro w; simp [wrun, acceptedVideo, acceptedAudio]
  | cons c cs ih =>
    intro w
    cases c with
    | video pts dts data key =>
      simp only [wrun, wstep]
      have ih' := ih (w.writeVideo pts dts data key).1
      by_cases hok : (w.writeVideo pts dts data key).2 = .ok
      · obtain ⟨hv, ha, hc, hau⟩ := writeVideo_ok w pts dts data key hok
        obtain ⟨i1, i2, i3, i4⟩ := ih'
        refine ⟨?_, ?_, i3.trans hc, i4.trans hau⟩
        · rw [i1, hok, hc]
          simp only [acceptedVideo]
          rw [List.map_reverse, hv]
          simp
        · rw [i2, hok, ha, hau]
          simp only [acceptedAudio]
      · have hw := Writer.writeVideo_not_ok w pts dts data key hok
        rw [hw] at ih' ⊢
        obtain ⟨i1, i2, i3, i4⟩ := ih'
        refine ⟨?_, ?_, i3, i4⟩
        · rw [i1]
          cases hr : (w.writeVideo pts dts data key).2 with
          | ok => exact absurd hr hok
          | err e => simp only [acceptedVideo]
          | panic => simp only [acceptedVideo]
        · rw [i2]
          cases hr : (w.writeVideo pts dts data key).2 <;> simp only [acceptedAudio]
    | audio pts data =>
      simp only [wrun, wstep]
      have ih' := ih (w.writeAudio pts data).1
      by_cases hok : (w.writeAudio pts data).2 = .ok
      · obtain ⟨tr, sd, htr, hsd, hda, hv, hc, hau⟩ := writeAudio_ok w pts data hok
        obtain ⟨i1, i2, i3, i4⟩ := ih'
        refine ⟨?_, ?_, i3.trans hc, i4.trans hau⟩
        · rw [i1, hok, hv, hc]
          simp only [acceptedVideo]
        · rw [i2, hok, hau]
          simp only [acceptedAudio, htr, hsd, Option.getD_some]
          rw [List.map_reverse, hda]
          simp
      · have hw := Writer.writeAudio_not_ok w pts data hok
        rw [hw] at ih' ⊢
        obtain ⟨i1, i2, i3, i4⟩ := ih'
        refine ⟨?_, ?_, i3, i4⟩
        · rw [i1]
          cases hr : (w.writeAudio pts data).2 <;> simp only [acceptedVideo]
        · rw [i2]
          cases hr : (w.writeAudio pts data).2 with
          | ok => exact absurd hr hok
          | err e => simp only [acceptedAudio]
          | panic => simp only [acceptedAudio]

theorem wrun_reachable (cs : List WCall) : ∀ (w : Writer), w.Reachable → (wrun w cs).1.Reachable := by
  induction cs with
  | nil => intro w h; exact h
  | cons c cs ih =>
    intro w h
    cases c with
    | video pts dts data key => exact ih _ (Writer.Reachable.video pts dts data key h)
    | audio pts data => exact ih _ (Writer.Reachable.audio pts data h)

/-! ### the property, for every history -/

/-- the queues of the writer a history leads to, in terms of what was submitted -/
theorem wrun_fresh (codec : VCodec) (a : Option AudioTrack) (cs : List WCall) :
    let r := wrun { codec := codec, audio := a } cs
    r.1.vsRev.reverse.map vproj = acceptedVideo codec cs r.2 ∧
    r.1.asRev.reverse.map aproj = acceptedAudio a cs r.2 ∧ r.1.audio = a ∧ r.1.Reachable := by
  obtain ⟨q1, q2, -, q4⟩ := wrun_queues cs { codec := codec, audio := a }
  refine ⟨?_, ?_, q4, wrun_reachable cs _ (Writer.Reachable.init codec a)⟩
  · simpa using q1
  · simpa using q2

/-- **C01 for every history.** Take a fresh writer (any codec, with or without an audio track), any sequence
    of write calls, then a successful `finalize` in either layout.  The independent reader finds a movie in
    the bytes handed to the sink whose first track yields, in order, exactly (re-framed submitted bytes,
    submitted key flag) of the accepted video calls, and whose second track (when audio is configured) yields
    exactly the raw payloads of the accepted audio calls — no frame lost, duplicated, reordered or altered. -/
theorem C01_history (codec : VCodec) (a : Option AudioTrack) (cs : List WCall)
    (width height : Nat) (md : Option Metadata) (fast : Bool) :
    let w0 : Writer := { codec := codec, audio := a }
    let r := wrun w0 cs
    (r.1.finalize width height md fast).2.res = .ok →
    MoovFits r.1 width height md fast →
    let file := (r.1.finalize width height md fast).2.chunks.flatten
    ∃ mv vt, parseMovie file = some mv ∧ mv.tracks.length = (if a.isSome then 2 else 1) ∧
      mv.tracks[0]? = some vt ∧
      (vt.samples file).map (fun s => (s.1, s.2.1)) = (acceptedVideo codec cs r.2).map (fun p => (p.2.2.1, p.2.2.2)) ∧
      (∀ tr, a = some tr → ∃ at_, mv.tracks[1]? = some at_ ∧
        (at_.samples file).map (·.1) = (acceptedAudio a cs r.2).map (·.2)) := by
  intro w0 r hok hfit file
  obtain ⟨q1, q2, q4, hreach⟩ := wrun_fresh codec a cs
  obtain ⟨mv, vt, hmv, hcount, hvt, hvs, haud⟩ := C01_e2e r.1 hreach width height md fast hok hfit
  have q4' : r.1.audio = a := q4
  refine ⟨mv, vt, hmv, by rw [← q4']; exact hcount, hvt, ?_, ?_⟩
  · rw [hvs]
    have : acceptedVideo codec cs r.2 = r.1.vsRev.reverse.map vproj := q1.symm
    rw [this, List.map_map]
    rfl
  · intro tr htr
    obtain ⟨at_, hat, hsamp⟩ := haud tr (by rw [q4']; exact htr)
    refine ⟨at_, hat, ?_⟩
    rw [hsamp]
    have : acceptedAudio a cs r.2 = r.1.asRev.reverse.map aproj := q2.symm
    rw [this, List.map_map]
    rfl

/-- the video half in the words of C14: each stored H.264/H.265 sample parses, as 4-byte length-prefixed
    units, to the units of the submitted access unit -/
theorem C01_history_units (data : Bytes) (h : ∀ u ∈ Muxide.Props.C14.modelUnits data, u.length < 2^32) :
    parseLengthPrefixed (convertPayload .h264 data) = some (Muxide.Props.C14.modelUnits data) ∧
    parseLengthPrefixed (convertPayload .h265 data) = some (Muxide.Props.C14.modelUnits data) ∧
    convertPayload .av1 data = data ∧ convertPayload .vp9 data = data :=
  ⟨Muxide.Props.C14.C14_frame_roundtrip data h, Muxide.Props.C14.C14_frame_roundtrip data h, rfl, rfl⟩

/-- non-vacuity: a two-frame VP9 history with a refused call in between (audio without an audio track) is
    accepted as stated, and the accepted frames are the two submitted ones -/
example :
    let k : Bytes := [73, 131, 66, 0, 128, 100, 100, 18, 146, 255, 255, 99, 25, 255]
    let cs := [WCall.video 0 0 k true, .audio 0 [1], .video 3000 3000 [73, 131, 66, 16, 128] false]
    ((wrun { codec := .vp9 } cs).2.map (fun r => decide (r = .ok))) = [true, false, true] ∧
    acceptedVideo .vp9 cs (wrun { codec := .vp9 } cs).2 = [(0, 0, k, true), (3000, 3000, [73, 131, 66, 16, 128], false)] := by
  decide +kernel

end Muxide.Props.C01History
