import Muxide.Lemmas.Schedule
import Muxide.Lemmas.WriterInv
/-
  C15 — In a file with both tracks, each track's samples are stored in the media data in sample
  order, and the overall storage order is the merge of the two tracks by timestamp with video
  first on equal timestamps.
  The storage order *is* the schedule: the media data is `(schedule vs aus).map (entData vs aus)`
  concatenated (`finalizeStandard` / `finalizeFastStart`).
  Property theorems only; helper lemmas live in Muxide/Lemmas/Schedule.lean.
-/
namespace Muxide.Props.C15
open Muxide

/-- the explicit lexicographic order (timestamp, video before audio, sample index) -/
def Before (a b : Ent) : Prop :=
  a.ts < b.ts ∨ (a.ts = b.ts ∧ (a.kind < b.kind ∨ (a.kind = b.kind ∧ a.idx ≤ b.idx)))

/-- 1. The schedule contains exactly the entries of both tracks (each once) and is sorted. -/
theorem C15_perm (vs aus : List Sample) :
    (schedule vs aus).Perm (entsOf 0 vs ++ entsOf 1 aus) ∧
    (schedule vs aus).Pairwise (fun a b => Ent.le a b = true) :=
  ⟨schedule_perm vs aus, schedule_sorted vs aus⟩

/-- 2. Each track's samples appear in the schedule (= storage order) in sample order: the video
    entries of the schedule are entries 0,1,2,… of the video track in that order, likewise audio. -/
theorem C15_track_order (vs aus : List Sample) :
    (vs.Pairwise (fun a b => a.dts < b.dts) →
      (schedule vs aus).filter (fun e => e.kind = 0) = entsOf 0 vs) ∧
    (aus.Pairwise (fun a b => a.dts ≤ b.dts) →
      (schedule vs aus).filter (fun e => e.kind = 1) = entsOf 1 aus) :=
  ⟨fun hv => schedule_filter_video vs aus (pairwise_lt_le hv), fun ha => schedule_filter_audio vs aus ha⟩

/-- 2'. (stronger form for video: non-decreasing dts suffices) -/
theorem C15_track_order_video_le (vs aus : List Sample) (hv : vs.Pairwise (fun a b => a.dts ≤ b.dts)) :
    (schedule vs aus).filter (fun e => e.kind = 0) = entsOf 0 vs :=
  schedule_filter_video vs aus hv

/-- 3a. Any entry stored before another one is `Before` it: smaller timestamp, or equal timestamps
    and video before audio, or same track and smaller index. -/
theorem C15_merge (vs aus : List Sample) : (schedule vs aus).Pairwise Before := by
  refine (schedule_sorted vs aus).imp ?_
  intro a b h
  exact (Ent.le_iff a b).mp h

/-- 3a'. in index form -/
theorem C15_merge_getElem (vs aus : List Sample) (i j : Nat) (hij : i < j)
    (hj : j < (schedule vs aus).length) :
    Before ((schedule vs aus)[i]) ((schedule vs aus)[j]) :=
  (List.pairwise_iff_getElem.mp (C15_merge vs aus)) i j (by omega) hj hij

/-- 1'. The schedule is the only sorted arrangement of the entries. -/
theorem C15_unique (vs aus : List Sample) (l : List Ent)
    (hp : l.Perm (entsOf 0 vs ++ entsOf 1 aus)) (hs : l.Pairwise (fun a b => Ent.le a b = true)) :
    schedule vs aus = l := schedule_unique vs aus l hp hs

/-- the sort key is determined by the order (the sorted permutation is unique): two mutually
    `Before` entries are equal -/
theorem Before_antisymm (a b : Ent) (h1 : Before a b) (h2 : Before b a) : a = b :=
  Ent.le_antisymm a b ((Ent.le_iff a b).mpr h1) ((Ent.le_iff b a).mpr h2)

/-- presentation timestamp of the sample an entry refers to -/
def entPts (vs aus : List Sample) (e : Ent) : Nat :=
  if e.kind = 0 then (vs[e.idx]?.map (·.pts)).getD 0 else (aus[e.idx]?.map (·.pts)).getD 0

/-- 3b. Without frame reordering (pts = dts on every sample; the writer stores dts = pts for
    audio) the sort key of every schedule entry is the presentation timestamp of its sample. -/
theorem C15_key_is_pts (vs aus : List Sample)
    (hv : ∀ s ∈ vs, s.pts = s.dts) (ha : ∀ s ∈ aus, s.pts = s.dts) :
    ∀ e ∈ schedule vs aus, e.ts = entPts vs aus e := by
  intro e he
  rcases mem_schedule he with ⟨hk, hi, hts⟩ | ⟨hk, hi, hts⟩
  · simp [entPts, hk, hi, hts, hv _ (List.getElem_mem hi)]
  · simp [entPts, hk, hi, hts, ha _ (List.getElem_mem hi)]

/-- 3c. Hence, without frame reordering, no sample is stored after a sample with a later
    presentation timestamp, and on equal presentation timestamps video is stored before audio. -/
theorem C15_merge_pts (vs aus : List Sample)
    (hv : ∀ s ∈ vs, s.pts = s.dts) (ha : ∀ s ∈ aus, s.pts = s.dts)
    (i j : Nat) (hij : i < j) (hj : j < (schedule vs aus).length) :
    let a := (schedule vs aus)[i]
    let b := (schedule vs aus)[j]
    entPts vs aus a ≤ entPts vs aus b ∧ (entPts vs aus a = entPts vs aus b → a.kind ≤ b.kind) := by
  intro a b
  have hB : Before a b := C15_merge_getElem vs aus i j hij hj
  have ea := C15_key_is_pts vs aus hv ha a (List.getElem_mem _)
  have eb := C15_key_is_pts vs aus hv ha b (List.getElem_mem _)
  rw [← ea, ← eb]
  unfold Before at hB
  omega

/-- non-vacuity / illustration: video at 0, 3000, 6000 and audio at 0, 3000, 4000 are stored
    V0 A0 V1 A1 A2 V2 -/
example :
    schedule [⟨0, 0, [1], true, none⟩, ⟨3000, 3000, [2], false, none⟩, ⟨6000, 6000, [3], false, none⟩]
             [⟨0, 0, [4], false, none⟩, ⟨3000, 3000, [5], false, none⟩, ⟨4000, 4000, [6], false, none⟩]
      = [⟨0, 0, 0⟩, ⟨0, 1, 0⟩, ⟨3000, 0, 1⟩, ⟨3000, 1, 1⟩, ⟨4000, 1, 2⟩, ⟨6000, 0, 2⟩] := by
  apply schedule_unique
  · decide
  · decide

/-- 2''. For every writer state the API can reach the ordering hypotheses hold, so both tracks'
    samples are stored in sample order, unconditionally. -/
theorem C15_track_order_reachable (w : Writer) (hr : w.Reachable) :
    (schedule w.vsRev.reverse w.asRev.reverse).filter (fun e => e.kind = 0) = entsOf 0 w.vsRev.reverse ∧
    (schedule w.vsRev.reverse w.asRev.reverse).filter (fun e => e.kind = 1) = entsOf 1 w.asRev.reverse := by
  obtain ⟨hv, ha, _, _⟩ := hr.inv.ordered
  exact ⟨(C15_track_order _ _).1 hv, (C15_track_order _ _).2 ha⟩

end Muxide.Props.C15
