import Muxide.Props.C01History
/-
  C08 (history form) — for every sequence of write calls on a fresh writer, the fast-start file and the standard
  file deliver, to the independent reader, the same samples in the same order with the same key flags (video)
  and the same payloads (audio): both are the accepted calls of the history (C01_history applied to each layout).
-/
namespace Muxide.Props.C08History
open Muxide Muxide.Spec Muxide.Props.C01E2E Muxide.Props.C01History

theorem C08_history (codec : VCodec) (a : Option AudioTrack) (cs : List WCall)
    (width height : Nat) (md : Option Metadata) :
    let r := wrun { codec := codec, audio := a } cs
    (r.1.finalize width height md true).2.res = .ok → (r.1.finalize width height md false).2.res = .ok →
    MoovFits r.1 width height md true → MoovFits r.1 width height md false →
    let fileF := (r.1.finalize width height md true).2.chunks.flatten
    let fileS := (r.1.finalize width height md false).2.chunks.flatten
    ∃ mvF mvS vtF vtS, parseMovie fileF = some mvF ∧ parseMovie fileS = some mvS ∧
      mvF.tracks[0]? = some vtF ∧ mvS.tracks[0]? = some vtS ∧
      (vtF.samples fileF).map (fun s => (s.1, s.2.1)) = (vtS.samples fileS).map (fun s => (s.1, s.2.1)) ∧
      (∀ tr, a = some tr → ∃ atF atS, mvF.tracks[1]? = some atF ∧ mvS.tracks[1]? = some atS ∧
        (atF.samples fileF).map (·.1) = (atS.samples fileS).map (·.1)) := by
  intro r hokF hokS hfF hfS fileF fileS
  obtain ⟨mvF, vtF, hF, -, hvF, hsF, haF⟩ := C01_history codec a cs width height md true hokF hfF
  obtain ⟨mvS, vtS, hS, -, hvS, hsS, haS⟩ := C01_history codec a cs width height md false hokS hfS
  refine ⟨mvF, mvS, vtF, vtS, hF, hS, hvF, hvS, hsF.trans hsS.symm, ?_⟩
  intro tr htr
  obtain ⟨atF, h1, h2⟩ := haF tr htr
  obtain ⟨atS, h3, h4⟩ := haS tr htr
  exact ⟨atF, atS, h1, h3, h2.trans h4.symm⟩

end Muxide.Props.C08History
