import Muxide.Lemmas.Records
import Muxide.Props.C14
/-
  C07 — decoder configuration: the configuration record contains byte-for-byte the parameter sets
  taken from the first keyframe (or supplied to the builder), and the audio sample description
  carries the configured channel count and sample rate with a consistent decoder configuration.
  The strict decoders of Muxide.Spec.Strict (ISO/IEC 14496-15, AV1 / VP9 / Opus ISO-BMFF bindings,
  ISO/IEC 14496-1 and 14496-3 for esds / AudioSpecificConfig) are run on the builders' output.
  Property theorems only; helper lemmas live in Muxide/Lemmas/Records.lean.
-/
namespace Muxide.Props.C07
open Muxide Muxide.Spec Box

/-! ## 1. avcC -/

/-- profile / compatibility / level of the progressive writer's avcC: SPS bytes 1..3 when the SPS
    has at least 4 bytes, otherwise Baseline 3.0 -/
def avcHdr (sps : Bytes) : Nat × Nat × Nat :=
  if sps.length ≥ 4 then ((sps.getD 1 0).toNat, (sps.getD 2 0).toNat, (sps.getD 3 0).toNat) else (0x42, 0, 0x1e)

/-- a strict avcC reader recovers exactly one SPS and one PPS, byte for byte -/
theorem C07_avcC (c : AvcConfig) (hs : c.sps.length < 2^16) (hp : c.pps.length < 2^16) :
    strictAvcC (bAvcC c).pre =
      some ⟨(avcHdr c.sps).1, (avcHdr c.sps).2.1, (avcHdr c.sps).2.2, [c.sps], [c.pps]⟩ := by
  by_cases h : c.sps.length ≥ 4
  · simp only [bAvcC, avcHdr, h, if_true, leaf, Box.pre]
    rw [avcC_core _ _ _ _ _ hs hp]
  · simp only [bAvcC, avcHdr, h, if_false, leaf, Box.pre]
    rw [avcC_core _ _ _ _ _ hs hp]
    rfl

/-- fragmented muxer: the header bytes are SPS bytes 1, 2, 3 where present (defaults 0x42, 0, 0x1e
    per byte) -/
theorem C07_favcC (c : FragConfig) (hs : c.sps.length < 2^16) (hp : c.pps.length < 2^16) :
    strictAvcC (fAvcC c).pre =
      some ⟨(c.sps.getD 1 0x42).toNat, (c.sps.getD 2 0).toNat, (c.sps.getD 3 0x1e).toNat, [c.sps], [c.pps]⟩ := by
  simp only [fAvcC, leaf, Box.pre]
  rw [avcC_core _ _ _ _ _ hs hp]

/-! ## 2. hvcC -/

/-- a strict hvcC reader recovers three arrays — VPS (32), SPS (33), PPS (34) — of one unit each,
    byte for byte, with 4-byte NAL lengths; profile space / tier / idc from SPS byte 3, level from
    SPS byte 14 (default 93) -/
theorem C07_hvcC (c : HevcConfig) (hv : c.vps.length < 2^16) (hs : c.sps.length < 2^16)
    (hp : c.pps.length < 2^16) :
    ∃ r, strictHvcC (bHvcC c).pre = some r ∧
      r.arrays = [(32, [c.vps]), (33, [c.sps]), (34, [c.pps])] ∧ r.lengthSizeMinusOne = 3 ∧
      r.profileSpace = hevcProfileByte c.sps / 64 ∧ r.tier = hevcProfileByte c.sps / 32 % 2 ∧
      r.profileIdc = hevcProfileByte c.sps % 32 ∧ r.level = ((c.sps[14]?).map (·.toNat)).getD 93 := by
  have h3 := readArrays3 c.vps c.sps c.pps hv hs hp
  obtain ⟨b1, lvl, hb1, hlvl, e⟩ : ∃ b1 lvl : UInt8, b1.toNat = hevcProfileByte c.sps ∧
      lvl.toNat = ((c.sps[14]?).map (·.toNat)).getD 93 ∧
      (bHvcC c).pre = 1 :: b1 :: 0x60 :: 0 :: 0 :: 0 :: 0x90 :: 0 :: 0 :: 0 :: 0 :: 0 ::
      lvl :: 0xf0 :: 0 :: 0xfc :: 0xfd :: 0xf8 :: 0xf8 :: 0 :: 0 :: 3 :: 3 ::
      (0xA0 :: (u16be 1 ++ (u16be c.vps.length ++ (c.vps ++ (0xA1 :: (u16be 1 ++ (u16be c.sps.length ++ (c.sps ++
      (0xA2 :: (u16be 1 ++ (u16be c.pps.length ++ (c.pps ++ [])))))))))))) := by
    refine ⟨_, _, hevc_byte1 c, hevc_level c, ?_⟩
    simp only [bHvcC, leaf, Box.pre, List.append_assoc, List.cons_append, List.nil_append, List.append_nil]
    rfl
  rw [e, hvcC_core]
  have : (3 : UInt8).toNat = 3 := rfl
  rw [this, h3]
  exact ⟨_, rfl, rfl, rfl, by simp only [hb1], by simp only [hb1], by simp only [hb1], hlvl⟩

/-- fragmented muxer with a VPS: the same three arrays -/
theorem C07_fhvcC (c : FragConfig) (v : Bytes) (hvps : c.vps = some v) (hv : v.length < 2^16)
    (hs : c.sps.length < 2^16) (hp : c.pps.length < 2^16) :
    ∃ r, strictHvcC (fHvcC c).pre = some r ∧
      r.arrays = [(32, [v]), (33, [c.sps]), (34, [c.pps])] ∧ r.lengthSizeMinusOne = 3 ∧
      r.profileSpace = (c.sps.getD 3 1).toNat / 64 ∧ r.tier = (c.sps.getD 3 1).toNat / 32 % 2 ∧
      r.profileIdc = (c.sps.getD 3 1).toNat % 32 ∧ r.level = (c.sps.getD 14 93).toNat := by
  have h3 := readArrays3 v c.sps c.pps hv hs hp
  have e : (fHvcC c).pre = 1 :: c.sps.getD 3 1 :: 0x60 :: 0 :: 0 :: 0 :: 0x90 :: 0 :: 0 :: 0 :: 0 :: 0 ::
      c.sps.getD 14 93 :: 0xf0 :: 0 :: 0xfc :: 0xfd :: 0xf8 :: 0xf8 :: 0 :: 0 :: 7 :: 3 ::
      (0xA0 :: (u16be 1 ++ (u16be v.length ++ (v ++ (0xA1 :: (u16be 1 ++ (u16be c.sps.length ++ (c.sps ++
      (0xA2 :: (u16be 1 ++ (u16be c.pps.length ++ (c.pps ++ [])))))))))))) := by
    simp [fHvcC, leaf, Box.pre, hvps]
  rw [e, hvcC_core]
  have : (3 : UInt8).toNat = 3 := rfl
  rw [this, h3]
  exact ⟨_, rfl, rfl, rfl, rfl, rfl, rfl, rfl⟩

/-- fragmented muxer without a VPS (the sample entry is then `avc1`, see `fSampleEntry`; the hvcC
    builder would write two arrays) -/
theorem C07_fhvcC_novps (c : FragConfig) (hvps : c.vps = none)
    (hs : c.sps.length < 2^16) (hp : c.pps.length < 2^16) :
    ∃ r, strictHvcC (fHvcC c).pre = some r ∧
      r.arrays = [(33, [c.sps]), (34, [c.pps])] ∧ r.lengthSizeMinusOne = 3 := by
  have h2 := readArrays2 c.sps c.pps hs hp
  have e : (fHvcC c).pre = 1 :: c.sps.getD 3 1 :: 0x60 :: 0 :: 0 :: 0 :: 0x90 :: 0 :: 0 :: 0 :: 0 :: 0 ::
      c.sps.getD 14 93 :: 0xf0 :: 0 :: 0xfc :: 0xfd :: 0xf8 :: 0xf8 :: 0 :: 0 :: 7 :: 2 ::
      (0xA1 :: (u16be 1 ++ (u16be c.sps.length ++ (c.sps ++
      (0xA2 :: (u16be 1 ++ (u16be c.pps.length ++ (c.pps ++ [])))))))) := by
    simp [fHvcC, leaf, Box.pre, hvps]
  rw [e, hvcC_core]
  have : (2 : UInt8).toNat = 2 := rfl
  rw [this, h2]
  exact ⟨_, rfl, rfl, rfl⟩

/-! ## 3. av1C, vpcC -/

/-- the av1C record is a 4-byte header whose fields are the parsed sequence-header values
    (reduced to their field widths) followed by the sequence-header OBU bytes unchanged -/
theorem C07_av1C (c : Av1Config) :
    strictAv1C (av1CRecord c) = some ⟨c.seqProfile % 8, c.seqLevelIdx % 32, c.seqTier % 2, c.highBitdepth,
      c.twelveBit, c.monochrome, c.subX, c.subY, c.csp % 4, c.sequenceHeader⟩ := by
  obtain ⟨sh, p, l, t, hb, tw, mo, sx, sy, csp⟩ := c
  simp only [av1CRecord]
  cases hb <;> cases tw <;> cases mo <;> cases sx <;> cases sy <;>
    simp [strictAv1C, be, u8, UInt8.toNat_ofNat'] <;> omega

theorem C07_av1C_box (c : Av1Config) : (bAv1C c).pre = av1CRecord c := rfl

/-- the fragmented muxer stores the supplied sequence-header bytes unchanged, whatever the parse gives -/
theorem C07_fav1C (c : FragConfig) :
    ∃ r, strictAv1C (fAv1C c).pre = some r ∧ r.obus = c.av1.getD [] := by
  simp only [fAv1C, leaf, Box.pre]
  exact ⟨_, C07_av1C _, rfl⟩

/-- vpcC: version 1, flags 0, the configured profile / level / bit depth / colour fields, chroma
    subsampling 1 (4:2:0 colocated), codecInitializationDataSize 0 -/
theorem C07_vpcC (c : Vp9Config) (h1 : c.profile < 256) (h2 : c.level < 256) (h3 : c.bitDepth < 16)
    (h4 : c.fullRange ≤ 1) (h5 : c.colorSpace < 256) (h6 : c.transfer < 256) (h7 : c.matrix < 256) :
    strictVpcC (vpcCRecord c) =
      some ⟨c.profile, c.level, c.bitDepth, 1, c.fullRange, c.colorSpace, c.transfer, c.matrix⟩ := by
  simp [vpcCRecord, strictVpcC, be, u32be, u16be, u8, UInt8.toNat_ofNat']
  omega

/-- in general the fields hold the values reduced to their widths -/
theorem C07_vpcC_wrap (c : Vp9Config) :
    strictVpcC (vpcCRecord c) =
      some ⟨c.profile % 256, c.level % 256, c.bitDepth % 16, 1, c.fullRange % 2, c.colorSpace % 256,
        c.transfer % 256, c.matrix % 256⟩ := by
  simp [vpcCRecord, strictVpcC, be, u32be, u16be, u8, UInt8.toNat_ofNat']
  omega

theorem C07_vpcC_box (c : Vp9Config) (f : FragConfig) (hf : f.vp9 = some c) :
    (bVpcC c).pre = vpcCRecord c ∧ (fVpcC f).pre = vpcCRecord c := by
  simp [bVpcC, fVpcC, leaf, Box.pre, hf]

/-! ## 4. the first parameter sets are the ones extracted -/

/-- `extract_avc_config` returns the FIRST non-empty unit of type 7 and the first of type 8 of the
    Annex B split of the frame, in whatever order they come; later (repeated or different)
    parameter sets are ignored -/
theorem C07_extract_avc (d s p : Bytes) :
    extractAvc d = some ⟨s, p⟩ ↔
      d ≠ [] ∧
      ((splitAnnexB d).filter (· ≠ [])).find? (fun n => h264NalType n = 7) = some s ∧
      ((splitAnnexB d).filter (· ≠ [])).find? (fun n => h264NalType n = 8) = some p := by
  rw [← C14.C14_split]
  unfold extractAvc
  rw [avcScan_eq]
  simp only [Option.none_or]
  change _ ↔ d ≠ [] ∧ firstOfType h264NalType 7 (nals d) = some s ∧ firstOfType h264NalType 8 (nals d) = some p
  by_cases hd : d = []
  · simp [hd]
  · simp only [hd, if_false, ne_eq, not_false_eq_true, true_and]
    cases firstOfType h264NalType 7 (nals d) <;> cases firstOfType h264NalType 8 (nals d) <;> simp

/-- likewise for HEVC with unit types 32 (VPS), 33 (SPS), 34 (PPS) -/
theorem C07_extract_hevc (d v s p : Bytes) :
    extractHevc d = some ⟨v, s, p⟩ ↔
      d ≠ [] ∧
      ((splitAnnexB d).filter (· ≠ [])).find? (fun n => hevcNalType n = 32) = some v ∧
      ((splitAnnexB d).filter (· ≠ [])).find? (fun n => hevcNalType n = 33) = some s ∧
      ((splitAnnexB d).filter (· ≠ [])).find? (fun n => hevcNalType n = 34) = some p := by
  rw [← C14.C14_split]
  unfold extractHevc
  rw [hevcScan_eq]
  simp only [Option.none_or]
  change _ ↔ d ≠ [] ∧ firstOfType hevcNalType 32 (nals d) = some v ∧
    firstOfType hevcNalType 33 (nals d) = some s ∧ firstOfType hevcNalType 34 (nals d) = some p
  by_cases hd : d = []
  · simp [hd]
  · simp only [hd, if_false, ne_eq, not_false_eq_true, true_and]
    cases firstOfType hevcNalType 32 (nals d) <;> cases firstOfType hevcNalType 33 (nals d) <;>
      cases firstOfType hevcNalType 34 (nals d) <;> simp

/-- the configuration the writer stores on the first accepted frame is `extractConfig` of that
    frame's bytes, and the stored configuration is what `bVideoEntry` wraps -/
theorem C07_entry_record (w h : Nat) (c : AvcConfig) (k : HevcConfig) :
    (bVideoEntry w h (.avc c)).kids = [bAvcC c] ∧ (bVideoEntry w h (.hevc k)).kids = [bHvcC k] := ⟨rfl, rfl⟩

/-! ## 5. audio -/

/-- AudioSpecificConfig: AAC-LC (object type 2), the index of the configured rate in the
    sampling-frequency table, the channel configuration -/
theorem C07_asc_gen (rate ch : Nat) (hr : rate ∈ ascRates) (hc : ch ≤ 15) :
    decodeAsc (ascBytes rate ch) = some (2, ascRates.idxOf rate, ch) := by
  have hm : min ch 15 % 16 = ch := by omega
  simp only [ascRates, List.mem_cons, List.not_mem_nil, or_false] at hr
  rcases hr with rfl | rfl | rfl | rfl | rfl | rfl | rfl | rfl | rfl | rfl | rfl | rfl | rfl <;>
    simp [ascBytes, sfiOf, decodeAsc, be, u8, UInt8.toNat_ofNat', hm, ascRates, List.idxOf, List.findIdx,
      List.findIdx.go] <;> omega

theorem C07_asc (rate ch : Nat) (hr : rate ∈ ascRates) (h1 : 1 ≤ ch) (h7 : ch ≤ 7) :
    decodeAsc (ascBytes rate ch) = some (2, ascRates.idxOf rate, ch) :=
  C07_asc_gen rate ch hr (by omega)

/-- esds: object type 0x40 (MPEG-4 audio), stream type byte 0x15 (audio stream), and the
    AudioSpecificConfig bytes as DecoderSpecificInfo, inside correctly sized descriptors -/
theorem C07_esds (a : AudioTrack) :
    strictEsds (bEsds a).pre = some ⟨0x40, 0x15, ascBytes a.sampleRate a.channels⟩ := by
  simp [bEsds, ascBytes, leaf, Box.pre, strictEsds, be, u32be, u16be, u8]

/-- dOps: version 0, the configured channel count, pre-skip 312, input rate 48 000, gain 0;
    mapping family 0 for mono / stereo, family 1 with a channel mapping of `channels` entries
    otherwise -/
theorem C07_dOps (a : AudioTrack) (h : a.channels ≤ 255) :
    strictDOps (bDops a).pre = some ⟨a.channels, 312, 48000, 0, if a.channels > 2 then 1 else 0,
      if a.channels > 2 then a.channels else 0⟩ := by
  have hm : a.channels % 256 = a.channels := by omega
  by_cases h2 : a.channels > 2
  · simp [bDops, leaf, Box.pre, strictDOps, be, u32be, u16be, u8, UInt8.toNat_ofNat', hm, h2]
    omega
  · simp [bDops, leaf, Box.pre, strictDOps, be, u32be, u16be, u8, UInt8.toNat_ofNat', hm, h2]

/-- the AAC sample entry: channel count, 16-bit samples and the 16.16 sample rate, exact when the
    rate fits 16 bits; its only child is the esds of the same track -/
theorem C07_mp4a_entry (a : AudioTrack) (hc : a.channels < 2^16) (hr : a.sampleRate < 2^16) :
    bMp4a a = node "mp4a" (audioEntryPrefix a.channels (a.sampleRate * 2^16)) [bEsds a] ∧
    strictAudioEntry (bMp4a a).pre = some ⟨a.channels, 16, a.sampleRate * 65536⟩ := by
  refine ⟨rfl, ?_⟩
  simp [bMp4a, node, Box.pre, audioEntryPrefix, u32be, u16be, zeros, List.replicate, strictAudioEntry, be,
    allZero, u8, UInt8.toNat_ofNat']
  omega

/-- the Opus sample entry: channel count, 16-bit samples, 48 kHz; its only child is the dOps -/
theorem C07_opus_entry (a : AudioTrack) (hc : a.channels < 2^16) :
    bOpus a = node "Opus" (audioEntryPrefix a.channels (48000 * 2^16)) [bDops a] ∧
    strictAudioEntry (bOpus a).pre = some ⟨a.channels, 16, 48000 * 65536⟩ := by
  refine ⟨rfl, ?_⟩
  simp [bOpus, node, Box.pre, audioEntryPrefix, u32be, u16be, zeros, List.replicate, strictAudioEntry, be,
    allZero, u8, UInt8.toNat_ofNat']
  omega

/-- in general the 16.16 rate field holds `sampleRate mod 65536` in its integer part -/
theorem C07_mp4a_entry_wrap (a : AudioTrack) (hc : a.channels < 2^16) :
    strictAudioEntry (bMp4a a).pre = some ⟨a.channels, 16, a.sampleRate % 65536 * 65536⟩ := by
  simp [bMp4a, node, Box.pre, audioEntryPrefix, u32be, u16be, zeros, List.replicate, strictAudioEntry, be,
    allZero, u8, UInt8.toNat_ofNat']
  omega

/-- FINDING: for a 96 kHz AAC track (a rate of the AudioSpecificConfig table, accepted by the
    muxer) the sample entry's rate field wraps: it reads 30 464 Hz, while the esds of the same
    entry says 96 000 Hz (index 0) -/
theorem C07_audio_rate_counterexample (ch : Nat) (p : AacProfile) (hc : ch < 2^16) :
    strictAudioEntry (bMp4a ⟨96000, ch, .aac p⟩).pre = some ⟨ch, 16, 30464 * 65536⟩ ∧
    (30464 : Nat) * 65536 ≠ 96000 * 65536 ∧
    (1 ≤ ch → ch ≤ 7 → decodeAsc (ascBytes 96000 ch) = some (2, 0, ch)) := by
  refine ⟨?_, by decide, ?_⟩
  · have h := C07_mp4a_entry_wrap ⟨96000, ch, .aac p⟩ hc
    have e : (96000 : Nat) % 65536 * 65536 = 30464 * 65536 := by decide
    simp only [e] at h
    exact h
  · intro h1 h7
    exact C07_asc 96000 ch (by simp [ascRates]) h1 h7

/-! ## non-vacuity -/
example : strictAvcC (bAvcC defaultAvc).pre = some ⟨0x42, 0, 0x1e, [defaultSps], [defaultPps]⟩ :=
  C07_avcC defaultAvc (by decide) (by decide)
example : decodeAsc (ascBytes 44100 2) = some (2, 4, 2) := by decide
example : strictDOps (bDops ⟨48000, 6, .opus⟩).pre = some ⟨6, 312, 48000, 0, 1, 6⟩ :=
  C07_dOps ⟨48000, 6, .opus⟩ (by decide)

end Muxide.Props.C07
