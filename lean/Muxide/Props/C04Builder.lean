import Muxide.Props.C17Builder
/-
  C04 — "at any point in any sequence of builder and muxer calls": the builder half.  `build` succeeds
  exactly when the call sequence configures video (by any of its calls, the last one deciding) and does
  not leave an Opus track with more than 255 channels; the error names which of the two it was.
-/
namespace Muxide
open Spec

/-- C04 for `build`: it succeeds exactly when video was configured and the audio track (if any) is not
    Opus with more than 255 channels -/
theorem C04_build_iff (ops : List BOp) :
    (∃ m, (Builder.run ops).build = .ok m) ↔ buildAccepts ops = true := by
  rw [C17_builder_build]
  unfold buildAccepts buildChecked
  cases h : effectiveConfig ops with
  | none => simp
  | some c =>
    cases ha : c.audio with
    | none => simp [ha]
    | some a =>
      by_cases hc : a.codec = .opus ∧ a.channels > 255
      · simp [ha, hc]
      · simp only [ha, hc, ↓reduceIte]
        constructor
        · intro _
          simp only [not_and, gt_iff_lt, Nat.not_lt] at hc
          by_cases h1 : a.codec = .opus
          · have := hc h1; simp [h1]; omega
          · simp [h1]
        · intro _; exact ⟨_, rfl⟩

/-- the error `build` reports names the violated precondition -/
theorem C04_build_err (ops : List BOp) :
    ((Builder.run ops).build = .missingVideoConfig ↔ lastSome videoOf ops = none) := by
  rw [C17_builder_build]
  unfold effectiveConfig
  cases h : lastSome videoOf ops with
  | none => simp
  | some v =>
    simp only [Option.map_some]
    split <;> simp

/-- non-vacuity: both refusals and an acceptance occur -/
example : buildAccepts [.audio ⟨48000, 2, .opus⟩] = false ∧
    buildAccepts [.video .h264 640 480, .audio ⟨48000, 256, .opus⟩] = false ∧
    buildAccepts [.video .h264 640 480, .audio ⟨48000, 256, .opus⟩, .setAudioTrack ⟨48000, 255, .opus⟩] = true := by decide

end Muxide
