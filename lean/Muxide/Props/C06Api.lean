import Muxide.Props.C01Api
/-
  C06 (API form) — the statistics returned by `finish_with_stats`, in terms of the calls of the public API: for
  every sequence of frame-writing API calls on a freshly built muxer, a successful finish reports as video frame
  count the number of video calls answered `ok`, as audio frame count the number of audio calls answered `ok`,
  and as byte count the length of the file it delivered.
-/
namespace Muxide.Props.C06Api
open Muxide Muxide.Props.C05 Muxide.Props.C01History Muxide.Props.C01Api

/-- the reply of a successful `finish_in_place_with_stats`, spelled out -/
theorem finishStats_reply (m : Muxer) (st : Stats) (h : (m.finishStats deliverAll).2.2 = .stats st) :
    st.video = m.w.vsRev.length ∧ st.audio = m.w.asRev.length ∧
    st.bytes = min (m.w.bytesWritten + ((m.w.finalize m.width m.height m.md m.fast).2.chunks.map (·.length)).sum) u64Max := by
  unfold Muxer.finishStats at h
  by_cases hf : m.finished = true
  · simp [hf] at h
  · simp only [hf, Bool.false_eq_true, if_false, deliverAll] at h
    cases hr : (m.w.finalize m.width m.height m.md m.fast).2.res with
    | ok =>
      simp only [hr] at h
      have hfin : (m.w.finalize m.width m.height m.md m.fast).1.vsRev = m.w.vsRev ∧
          (m.w.finalize m.width m.height m.md m.fast).1.asRev = m.w.asRev ∧
          (m.w.finalize m.width m.height m.md m.fast).1.bytesWritten = m.w.bytesWritten := by
        unfold Writer.finalize
        split
        · exact ⟨rfl, rfl, rfl⟩
        · split
          · exact ⟨rfl, rfl, rfl⟩
          · split <;> exact ⟨rfl, rfl, rfl⟩
      injection h with h
      subst h
      simp only [hfin.1, hfin.2.1, hfin.2.2]
      exact ⟨trivial, trivial, trivial⟩
    | ioErr e => simp [hr] at h
    | panic => simp [hr] at h

theorem writeVideo_bytes (w : Writer) (pts dts : Nat) (data : Bytes) (key : Bool) :
    (w.writeVideo pts dts data key).1.bytesWritten = w.bytesWritten := by
  rcases writeVideo_shape w pts dts data key with h | ⟨vs', ld, cfg, -, -, h⟩ <;> rw [h]

theorem writeAudio_bytes (w : Writer) (pts : Nat) (data : Bytes) :
    (w.writeAudio pts data).1.bytesWritten = w.bytesWritten := by
  rcases writeAudio_shape w pts data with h | ⟨tr, as', ld, sd, -, -, -, -, h⟩ <;> rw [h]

/-- write calls hand nothing to the sink -/
theorem wrun_bytes (cs : List WCall) : ∀ (w : Writer), w.bytesWritten = 0 → (wrun w cs).1.bytesWritten = 0 := by
  induction cs with
  | nil => intro w h; exact h
  | cons c cs ih =>
    intro w h
    cases c with
    | video pts dts data key =>
      show (wrun (w.writeVideo pts dts data key).1 cs).1.bytesWritten = 0
      exact ih _ ((writeVideo_bytes w pts dts data key).trans h)
    | audio pts data =>
      show (wrun (w.writeAudio pts data).1 cs).1.bytesWritten = 0
      exact ih _ ((writeAudio_bytes w pts data).trans h)

theorem C06_api_counts (c : Config) (cs : List Call) (hall : ∀ x ∈ cs, x.isWrite = true) (st : Stats) :
    let m0 := build c
    let m := (run m0 cs).1
    (m.finishStats deliverAll).2.2 = .stats st →
    st.video = ((apiAccepted m0 cs).filterMap (vrec c.codec)).length ∧
    st.audio = ((apiAccepted m0 cs).filterMap (arec m0.w.audio)).length ∧
    st.bytes = min ((m.finishStats deliverAll).2.1.chunks.flatten.length) u64Max := by
  intro m0 m hst
  obtain ⟨s1, s2, s3⟩ := finishStats_reply m st hst
  obtain ⟨hout, -⟩ := finishStats_stats m st hst
  obtain ⟨hw, hv, ha⟩ := run_w cs hall m0 c.codec m0.w.audio
  have hw' : m.w = (wrun m0.w (wcalls m0 cs)).1 := hw
  obtain ⟨q1, q2, -, -⟩ := wrun_queues (wcalls m0 cs) m0.w
  have e0 : m0.w.vsRev = [] ∧ m0.w.asRev = [] ∧ m0.w.codec = c.codec ∧ m0.w.bytesWritten = 0 := ⟨rfl, rfl, rfl, rfl⟩
  refine ⟨?_, ?_, ?_⟩
  · rw [s1, hw', ← hv]
    have := congrArg List.length q1
    simp only [e0.1, e0.2.2.1, List.reverse_nil, List.map_nil, List.nil_append, List.length_map, List.length_reverse] at this
    exact this
  · rw [s2, hw', ← ha]
    have := congrArg List.length q2
    simp only [e0.2.1, List.reverse_nil, List.map_nil, List.nil_append, List.length_map, List.length_reverse] at this
    exact this
  · rw [s3, hout]
    have hb : m.w.bytesWritten = 0 := by
      rw [hw']
      exact wrun_bytes (wcalls m0 cs) m0.w e0.2.2.2
    rw [hb, Nat.zero_add, List.length_flatten]

end Muxide.Props.C06Api
