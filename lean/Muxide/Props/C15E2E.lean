import Muxide.Props.C01History
import Muxide.Props.C15
/-
  C15 (end to end) — C15_perm / C15_merge are about the interleave *schedule*; C01 shows that the chunk offsets
  follow the schedule.  This file states the property on the finished file: the chunk-offset tables of the two
  tracks, as the independent reader decodes them from the bytes handed to the sink, can be merged into one list
  (entry, file offset) that
    * lists every sample of both tracks exactly once, video sample i as (dts_i, video, i), audio sample k as
      (pts_k, audio, k), the i-th video / k-th audio offset being the i-th / k-th entry of its track's table,
    * is in timestamp order with video first on equal timestamps (`Before`), and
    * has the samples lying one after the other in the file: each sample ends (offset + size) at or before the
      start of every later one.
  So no sample is stored after a sample with a later timestamp, in both layouts, for every reachable writer.
-/
namespace Muxide.Props.C15E2E
open Muxide Muxide.Spec Muxide.Props.C01E2E Muxide.Props.C08 Muxide.Props.C15 Muxide.Props.C01History

theorem cursors_ge {α} (step : α → Nat) (l : List α) : ∀ s, ∀ c ∈ cursors step l s, s ≤ c := by
  induction l with
  | nil => intro s c hc; simp [cursors] at hc
  | cons x xs ih =>
    intro s c hc
    simp only [cursors, List.mem_cons] at hc
    rcases hc with rfl | hc
    · exact Nat.le_refl _
    · have := ih (s + step x) c hc; omega

/-- pairing a list with its cursor values: later elements start where earlier ones have ended, and any relation
    that holds pairwise on the list holds on the first components -/
theorem zip_cursors_pairwise {α} (R : α → α → Prop) (step : α → Nat) (l : List α) (hR : l.Pairwise R) : ∀ s,
    (l.zip (cursors step l s)).Pairwise (fun p q => R p.1 q.1 ∧ p.2 + step p.1 ≤ q.2) := by
  induction l with
  | nil => intro s; simp [cursors]
  | cons x xs ih =>
    intro s
    simp only [cursors, List.zip_cons_cons, List.pairwise_cons]
    obtain ⟨hx, hxs⟩ := List.pairwise_cons.mp hR
    refine ⟨?_, ih hxs (s + step x)⟩
    intro q hq
    have h1 : q.1 ∈ xs := (List.of_mem_zip hq).1
    have h2 : q.2 ∈ cursors step xs (s + step x) := (List.of_mem_zip hq).2
    exact ⟨hx q.1 h1, cursors_ge step xs _ _ h2⟩

/-- **C15 on the file.** -/
theorem C15_e2e (w : Writer) (hr : w.Reachable) (tr : AudioTrack) (hau : w.audio = some tr)
    (width height : Nat) (md : Option Metadata) (fast : Bool)
    (hok : (w.finalize width height md fast).2.res = .ok) (hfit : MoovFits w width height md fast) :
    let file := (w.finalize width height md fast).2.chunks.flatten
    let vs := w.vsRev.reverse
    let aus := w.asRev.reverse
    ∀ mv, parseMovie file = some mv → ∀ vt at_, mv.tracks[0]? = some vt → mv.tracks[1]? = some at_ →
      ∃ tagged : List (Ent × Nat),
        tagged.map (·.1) = schedule vs aus ∧
        tagged.Pairwise (fun p q => Before p.1 q.1 ∧ p.2 + entSize vs aus p.1 ≤ q.2) ∧
        (tagged.filter (fun p => p.1.kind = 0)).map (·.1) = entsOf 0 vs ∧
        (tagged.filter (fun p => !decide (p.1.kind = 0))).map (·.1) = entsOf 1 aus ∧
        vt.stco = (tagged.filter (fun p => p.1.kind = 0)).map (·.2) ∧
        at_.stco = (tagged.filter (fun p => !decide (p.1.kind = 0))).map (·.2) := by
  intro file vs aus mv hmv vt at_ hvt hat
  obtain ⟨hv, ha⟩ := C01_e2e_sizes_and_count w hr width height md fast hok hfit mv hmv
  obtain ⟨-, -, hvstco, -, -, -⟩ := hv vt hvt
  obtain ⟨-, -, hastco, -, -, -⟩ := ha tr hau at_ hat
  let start := mediaStart w width height md fast
  let sched := schedule vs aus
  let tagged := sched.zip (cursors (entSize vs aus) sched start)
  have hoff : offsetsAt w start = assignOffsets (entSize vs aus) sched start := by
    unfold offsetsAt; rw [hau]
  have hlen : sched.length = (cursors (entSize vs aus) sched start).length := by simp
  obtain ⟨ov, oa⟩ := C15_track_order_reachable w hr
  refine ⟨tagged, ?_, ?_, ?_, ?_, ?_, ?_⟩
  · exact List.map_fst_zip (by simp)
  · exact zip_cursors_pairwise Before (entSize vs aus) sched (C15_merge vs aus) start
  · rw [filter_zip_map_fst (fun e => decide (e.kind = 0)) sched _ hlen]; exact ov
  · rw [filter_zip_map_fst (fun e => !decide (e.kind = 0)) sched _ hlen]
    have : sched.filter (fun e => !decide (e.kind = 0)) = sched.filter (fun e => decide (e.kind = 1)) := by
      apply List.filter_congr
      intro e he
      have hk : e.kind = 0 ∨ e.kind = 1 := by
        have hp := (C15_perm vs aus).1.mem_iff.mp he
        rcases List.mem_append.mp hp with h | h
        · left
          simp only [entsOf, List.mem_map] at h
          obtain ⟨x, -, rfl⟩ := h; rfl
        · right
          simp only [entsOf, List.mem_map] at h
          obtain ⟨x, -, rfl⟩ := h; rfl
      rcases hk with h | h <;> simp [h]
    rw [this]; exact oa
  · rw [hvstco, hoff, assignOffsets_eq]
  · rw [hastco, hoff, assignOffsets_eq]

/-- the schedule entries of a track are determined by the decode times of its samples -/
def entsOfTimes (kind : Nat) (ts : List Nat) : List Ent :=
  (List.zip (List.range ts.length) ts).map fun (i, t) => ⟨t, kind, i⟩

theorem entsOf_eq_times (kind : Nat) (l : List Sample) : entsOf kind l = entsOfTimes kind (l.map (·.dts)) := by
  unfold entsOf entsOfTimes
  rw [List.length_map]
  apply List.ext_getElem
  · simp
  · intro i h1 h2
    simp

/-- **C15 for every history of write calls.** The merged list of the statement above carries, for the video
    track, the decode times *submitted* with the accepted video calls (in call order) and, for the audio track,
    the times submitted with the accepted audio calls: storage order is the order of the submitted timestamps. -/
theorem C15_history (codec : VCodec) (tr : AudioTrack) (cs : List WCall)
    (width height : Nat) (md : Option Metadata) (fast : Bool) :
    let r := wrun { codec := codec, audio := some tr } cs
    (r.1.finalize width height md fast).2.res = .ok →
    MoovFits r.1 width height md fast →
    let file := (r.1.finalize width height md fast).2.chunks.flatten
    let vtimes := (acceptedVideo codec cs r.2).map (·.2.1)
    let atimes := (acceptedAudio (some tr) cs r.2).map (·.1)
    ∀ mv, parseMovie file = some mv → ∀ vt at_, mv.tracks[0]? = some vt → mv.tracks[1]? = some at_ →
      ∃ tagged : List (Ent × Nat),
        tagged.Pairwise (fun p q => Before p.1 q.1 ∧ p.2 ≤ q.2) ∧
        (tagged.filter (fun p => p.1.kind = 0)).map (·.1) = entsOfTimes 0 vtimes ∧
        (tagged.filter (fun p => !decide (p.1.kind = 0))).map (·.1) = entsOfTimes 1 atimes ∧
        vt.stco = (tagged.filter (fun p => p.1.kind = 0)).map (·.2) ∧
        at_.stco = (tagged.filter (fun p => !decide (p.1.kind = 0))).map (·.2) := by
  intro r hok hfit file vtimes atimes mv hmv vt at_ hvt hat
  obtain ⟨q1, q2, q4, hreach⟩ := wrun_fresh codec (some tr) cs
  obtain ⟨tagged, -, hp, hv, ha, hvs, has⟩ := C15_e2e r.1 hreach tr q4 width height md fast hok hfit mv hmv vt at_ hvt hat
  refine ⟨tagged, hp.imp (fun h => ⟨h.1, by omega⟩), ?_, ?_, hvs, has⟩
  · rw [hv, entsOf_eq_times]
    have : r.1.vsRev.reverse.map (·.dts) = vtimes := by
      show _ = (acceptedVideo codec cs r.2).map (·.2.1)
      rw [← q1, List.map_map]; rfl
    rw [this]
  · rw [ha, entsOf_eq_times]
    have hadts : r.1.asRev.reverse.map (·.dts) = r.1.asRev.reverse.map (·.pts) := by
      obtain ⟨-, -, h3, -⟩ := hreach.inv.ordered
      apply List.map_congr_left
      intro s hs
      exact (h3 s hs).symm
    have : r.1.asRev.reverse.map (·.pts) = atimes := by
      show _ = (acceptedAudio (some tr) cs r.2).map (·.1)
      rw [← q2, List.map_map]; rfl
    rw [hadts, this]

end Muxide.Props.C15E2E
