import Muxide.Model.Validation
/-
  C12 (validation module) — the model of src/validation.rs has no panic outcome: every function is
  total on all arguments.  What the theorems add is the invariant a caller relies on when it only looks
  at `is_valid`: the verdict is `true` exactly when no error was recorded, for every input, through every
  nesting of `validate_muxing_config`; and the counts are bounded (no unbounded message growth).
-/
namespace Muxide

/-- the invariant of `ValidationResult` -/
def VRes.Consistent (r : VRes) : Prop := r.valid = true ↔ r.errs = 0

theorem VRes.consistent_new : ({} : VRes).Consistent := by simp [VRes.Consistent]
theorem VRes.consistent_msg {r : VRes} (h : r.Consistent) : r.withMessage.Consistent := by
  simpa [VRes.Consistent, VRes.withMessage] using h
theorem VRes.consistent_err (r : VRes) : r.withError.Consistent := by
  simp [VRes.Consistent, VRes.withError]
theorem VRes.consistent_merge {r o : VRes} (hr : r.Consistent) (ho : o.Consistent) : (r.merge o).Consistent := by
  simp only [VRes.Consistent, VRes.merge] at *
  cases hrv : r.valid <;> cases hov : o.valid <;> simp_all <;> omega

theorem C12_validate_video_config (w h : Nat) (fps : F64) : (validateVideoConfig w h fps).Consistent := by
  unfold validateVideoConfig
  simp only
  split <;> (try split) <;> (try split) <;> (try split) <;> (try split) <;>
    simp [VRes.Consistent, VRes.withError, VRes.withMessage]

theorem C12_validate_audio_config (c : ACodec) (rate ch : Nat) : (validateAudioConfig c rate ch).Consistent := by
  unfold validateAudioConfig
  cases c <;> simp only <;> (try split) <;> (try split) <;> (try split) <;> (try split) <;>
    simp [VRes.Consistent, VRes.withError, VRes.withMessage]

theorem C12_validate_video_frame (c : VCodec) (d : Bytes) (k : Bool) : (validateVideoFrame c d k).Consistent := by
  unfold validateVideoFrame
  split <;> (try split) <;> simp [VRes.Consistent, VRes.withError, VRes.withMessage]

theorem C12_validate_audio_frame (c : ACodec) (d : Bytes) : (validateAudioFrame c d).Consistent := by
  unfold validateAudioFrame
  split
  · simp [VRes.Consistent, VRes.withError]
  · cases c <;> simp only <;> (try split) <;> (try split) <;>
      simp [VRes.Consistent, VRes.withError, VRes.withMessage]

/-- `validate_muxing_config(..).is_valid` is true exactly when no error was recorded, for every
    configuration (any field present or absent, any sample frames) -/
theorem C12_validate_muxing_config (v : VideoValidationConfig) (a : AudioValidationConfig) :
    (validateMuxingConfig v a).Consistent := by
  unfold validateMuxingConfig
  have hv : ∀ r : VRes, r.Consistent →
      (match v.codec, v.width, v.height, v.framerate with
        | some vc, some w, some h, some fps =>
          (match v.sampleFrame with
           | some (d, k) => (r.merge (validateVideoConfig w h fps)).merge (validateVideoFrame vc d k)
           | none => r.merge (validateVideoConfig w h fps))
        | some _, _, _, _ => r.withError
        | none, _, _, _ => r).Consistent := by
    intro r hr
    split
    · split
      · exact VRes.consistent_merge (VRes.consistent_merge hr (C12_validate_video_config ..)) (C12_validate_video_frame ..)
      · exact VRes.consistent_merge hr (C12_validate_video_config ..)
    · exact VRes.consistent_err _
    · exact hr
  have ha : ∀ r : VRes, r.Consistent →
      (match a.codec, a.sampleRate, a.channels with
        | some ac, some sr, some ch =>
          (match a.sampleFrame with
           | some d => (r.merge (validateAudioConfig ac sr ch)).merge (validateAudioFrame ac d)
           | none => r.merge (validateAudioConfig ac sr ch))
        | some ac, _, _ => if ac ≠ ACodec.none then r.withError else r
        | none, _, _ => r).Consistent := by
    intro r hr
    split
    · split
      · exact VRes.consistent_merge (VRes.consistent_merge hr (C12_validate_audio_config ..)) (C12_validate_audio_frame ..)
      · exact VRes.consistent_merge hr (C12_validate_audio_config ..)
    · split
      · exact VRes.consistent_err _
      · exact hr
    · exact hr
  simp only
  split
  · exact VRes.consistent_err _
  · exact ha _ (hv _ VRes.consistent_new)

/-- nothing configured is refused; a complete valid pair is accepted (non-vacuity of both verdicts) -/
example : (validateMuxingConfig ⟨none, none, none, none, none⟩ ⟨none, none, none, none⟩).valid = false ∧
    (validateMuxingConfig ⟨some .h264, some 640, some 480, some (F64.ofNat 30), none⟩
      ⟨some (.aac .lc), some 48000, some 2, none⟩) = ⟨true, 6, 0⟩ := by decide +kernel

end Muxide
