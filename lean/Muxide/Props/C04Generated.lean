import Muxide.Generated.Guards
import Muxide.Props.C01Api
/-
  C04 (mechanical tie) — Muxide.Generated.Guards is produced by tools/rs2lean_guards.py from the Rust source
  of `Muxer::write_video`, `write_video_with_dts` and `write_audio` (src/api.rs) on every check run: the
  sequence of early returns at the head of each call, as "the first failing guard".  Each theorem states that
  the hand-written model makes the same decision for all muxer states and arguments: when the translated
  prefix names an error the model's call replies that error variant and leaves the muxer untouched, and when it
  names none the model's call goes on to the writer with the tick values of the submitted times
  (`C01Api.wvCall` …).  The contract theorems of Props/C04.lean are about the model; through these equalities
  the API-level part of the contract is about the translated source.
-/
namespace Muxide.Props.C04Generated
open Muxide Muxide.Generated.Guards Muxide.Props.C01Api Muxide.Props.C01History

/-- `write_video`: refused by the translated guards ⇒ the model replies that variant, state untouched -/
theorem C04_gen_write_video_refuses (m : Muxer) (pts : F64) (d : Bytes) (k : Bool) (e : MErr)
    (h : write_video m pts d = some e) : ∃ i, m.writeVideo pts d k = (m, .err e i) := by
  unfold write_video at h
  unfold Muxer.writeVideo
  by_cases h1 : d = []
  · simp [firstSome, h1] at h; subst h; exact ⟨_, by simp [h1] <;> rfl⟩
  by_cases h2 : pts.isFinite
  · by_cases h3 : pts.isNeg
    · have h3' : F64.lt pts F64.zero = true := h3
      simp [firstSome, h1, h2, h3'] at h; subst h; exact ⟨_, by simp [h1, h2, h3] <;> rfl⟩
    have h3' : ¬ F64.lt pts F64.zero = true := h3
    by_cases h4 : ticksRepresentable pts
    · cases hl : m.lastVideoPts with
      | none => simp [firstSome, h1, h2, h3', h4, hl] at h
      | some prev =>
        by_cases h5 : F64.le pts prev = true
        · simp [firstSome, h1, h2, h3', h4, hl, h5] at h; subst h; exact ⟨_, by simp [h1, h2, h3, h4, hl, h5] <;> rfl⟩
        · simp [firstSome, h1, h2, h3', h4, hl, h5] at h
    · simp [firstSome, h1, h2, h3', h4] at h; subst h; exact ⟨_, by simp [h1, h2, h3, h4] <;> rfl⟩
  · simp [firstSome, h1, h2] at h; subst h; exact ⟨_, by simp [h1, h2] <;> rfl⟩

/-- `write_video`: the translated guards pass exactly when the model's call reaches the writer -/
theorem C04_gen_write_video_passes (m : Muxer) (pts : F64) (d : Bytes) (k : Bool) :
    write_video m pts d = none ↔ wvCall m pts d k = some (.video pts.ticks pts.ticks d k) := by
  unfold write_video wvCall
  by_cases h1 : d = []
  · simp [firstSome, h1]
  by_cases h2 : pts.isFinite
  · by_cases h3 : pts.isNeg
    · have h3' : F64.lt pts F64.zero = true := h3
      simp [firstSome, h1, h2, h3, h3']
    have h3' : ¬ F64.lt pts F64.zero = true := h3
    by_cases h4 : ticksRepresentable pts
    · cases hl : m.lastVideoPts with
      | none => simp [firstSome, h1, h2, h3, h3', h4]
      | some prev => by_cases h5 : F64.le pts prev = true <;> simp [firstSome, h1, h2, h3, h3', h4, h5]
    · simp [firstSome, h1, h2, h3, h3', h4]
  · simp [firstSome, h1, h2]

theorem C04_gen_write_video_dts_refuses (m : Muxer) (pts dts : F64) (d : Bytes) (k : Bool) (e : MErr)
    (h : write_video_with_dts m pts dts d = some e) : ∃ i, m.writeVideoDts pts dts d k = (m, .err e i) := by
  unfold write_video_with_dts at h
  unfold Muxer.writeVideoDts
  by_cases h0 : m.finished = true
  · simp [firstSome, h0] at h; subst h; exact ⟨_, by simp [h0] <;> rfl⟩
  by_cases h1 : d = []
  · simp [firstSome, h0, h1] at h; subst h; exact ⟨_, by simp [h0, h1] <;> rfl⟩
  by_cases h2 : pts.isFinite
  · by_cases h3 : pts.isNeg
    · have h3' : F64.lt pts F64.zero = true := h3
      simp [firstSome, h0, h1, h2, h3'] at h; subst h; exact ⟨_, by simp [h0, h1, h2, h3] <;> rfl⟩
    have h3' : ¬ F64.lt pts F64.zero = true := h3
    by_cases h4 : ticksRepresentable pts
    · by_cases g2 : dts.isFinite
      · by_cases g3 : dts.isNeg
        · have g3' : F64.lt dts F64.zero = true := g3
          simp [firstSome, h0, h1, h2, h3', h4, g2, g3'] at h; subst h; exact ⟨_, by simp [h0, h1, h2, h3, h4, g2, g3] <;> rfl⟩
        have g3' : ¬ F64.lt dts F64.zero = true := g3
        by_cases g4 : ticksRepresentable dts
        · cases hl : m.lastVideoDts with
          | none => simp [firstSome, h0, h1, h2, h3', h4, g2, g3', g4, hl] at h
          | some prev =>
            by_cases h5 : F64.le dts prev = true
            · simp [firstSome, h0, h1, h2, h3', h4, g2, g3', g4, hl, h5] at h; subst h
              exact ⟨_, by simp [h0, h1, h2, h3, h4, g2, g3, g4, hl, h5] <;> rfl⟩
            · simp [firstSome, h0, h1, h2, h3', h4, g2, g3', g4, hl, h5] at h
        · simp [firstSome, h0, h1, h2, h3', h4, g2, g3', g4] at h; subst h
          exact ⟨_, by simp [h0, h1, h2, h3, h4, g2, g3, g4] <;> rfl⟩
      · simp [firstSome, h0, h1, h2, h3', h4, g2] at h; subst h; exact ⟨_, by simp [h0, h1, h2, h3, h4, g2] <;> rfl⟩
    · simp [firstSome, h0, h1, h2, h3', h4] at h; subst h; exact ⟨_, by simp [h0, h1, h2, h3, h4] <;> rfl⟩
  · simp [firstSome, h0, h1, h2] at h; subst h; exact ⟨_, by simp [h0, h1, h2] <;> rfl⟩

theorem C04_gen_write_video_dts_passes (m : Muxer) (pts dts : F64) (d : Bytes) (k : Bool) :
    write_video_with_dts m pts dts d = none ↔ wvdCall m pts dts d k = some (.video pts.ticks dts.ticks d k) := by
  unfold write_video_with_dts wvdCall
  by_cases h0 : m.finished = true
  · simp [firstSome, h0]
  by_cases h1 : d = []
  · simp [firstSome, h0, h1]
  by_cases h2 : pts.isFinite
  · by_cases h3 : pts.isNeg
    · have h3' : F64.lt pts F64.zero = true := h3
      simp [firstSome, h0, h1, h2, h3, h3']
    have h3' : ¬ F64.lt pts F64.zero = true := h3
    by_cases h4 : ticksRepresentable pts
    · by_cases g2 : dts.isFinite
      · by_cases g3 : dts.isNeg
        · have g3' : F64.lt dts F64.zero = true := g3
          simp [firstSome, h0, h1, h2, h3, h3', h4, g2, g3, g3']
        have g3' : ¬ F64.lt dts F64.zero = true := g3
        by_cases g4 : ticksRepresentable dts
        · cases hl : m.lastVideoDts with
          | none => simp [firstSome, h0, h1, h2, h3, h3', h4, g2, g3, g3', g4]
          | some prev => by_cases h5 : F64.le dts prev = true <;> simp [firstSome, h0, h1, h2, h3, h3', h4, g2, g3, g3', g4, h5]
        · simp [firstSome, h0, h1, h2, h3, h3', h4, g2, g3, g3', g4]
      · simp [firstSome, h0, h1, h2, h3, h3', h4, g2]
    · simp [firstSome, h0, h1, h2, h3, h3', h4]
  · simp [firstSome, h0, h1, h2]

theorem C04_gen_write_audio_refuses (m : Muxer) (pts : F64) (d : Bytes) (e : MErr)
    (h : write_audio m pts d = some e) : ∃ i, m.writeAudio pts d = (m, .err e i) := by
  unfold write_audio at h
  unfold Muxer.writeAudio
  by_cases h0 : m.finished = true
  · simp [firstSome, h0] at h; subst h; exact ⟨_, by simp [h0] <;> rfl⟩
  by_cases ha : m.audioTrack.isNone = true
  · simp [firstSome, h0, ha] at h; subst h; exact ⟨_, by simp [h0, ha] <;> rfl⟩
  by_cases h2 : pts.isFinite
  · by_cases h3 : pts.isNeg
    · have h3' : F64.lt pts F64.zero = true := h3
      simp [firstSome, h0, ha, h2, h3'] at h; subst h; exact ⟨_, by simp [h0, ha, h2, h3] <;> rfl⟩
    have h3' : ¬ F64.lt pts F64.zero = true := h3
    by_cases h4 : ticksRepresentable pts
    · by_cases h1 : d = []
      · simp [firstSome, h0, ha, h2, h3', h4, h1] at h; subst h; exact ⟨_, by simp [h0, ha, h2, h3, h4, h1] <;> rfl⟩
      cases hl : m.lastAudioPts with
      | none =>
        cases hf : m.firstVideoPts with
        | none =>
          simp [firstSome, h0, ha, h2, h3', h4, h1, hf, hl] at h; subst h
          exact ⟨_, by simp [h0, ha, h2, h3, h4, h1, hf, hl] <;> rfl⟩
        | some fv =>
          by_cases h6 : F64.lt pts fv = true
          · simp [firstSome, h0, ha, h2, h3', h4, h1, hf, h6, hl] at h; subst h
            exact ⟨_, by simp [h0, ha, h2, h3, h4, h1, hf, h6, hl] <;> rfl⟩
          · simp [firstSome, h0, ha, h2, h3', h4, h1, hf, h6, hl] at h
      | some prev =>
        by_cases h5 : F64.lt pts prev = true
        · simp [firstSome, h0, ha, h2, h3', h4, h1, hl, h5] at h; subst h
          exact ⟨_, by simp [h0, ha, h2, h3, h4, h1, hl, h5] <;> rfl⟩
        · cases hf : m.firstVideoPts with
          | none =>
            simp [firstSome, h0, ha, h2, h3', h4, h1, hf, hl, h5] at h; subst h
            exact ⟨_, by simp [h0, ha, h2, h3, h4, h1, hf, hl, h5] <;> rfl⟩
          | some fv =>
            by_cases h6 : F64.lt pts fv = true
            · simp [firstSome, h0, ha, h2, h3', h4, h1, hf, h6, hl, h5] at h; subst h
              exact ⟨_, by simp [h0, ha, h2, h3, h4, h1, hf, h6, hl, h5] <;> rfl⟩
            · simp [firstSome, h0, ha, h2, h3', h4, h1, hf, h6, hl, h5] at h
    · simp [firstSome, h0, ha, h2, h3', h4] at h; subst h; exact ⟨_, by simp [h0, ha, h2, h3, h4] <;> rfl⟩
  · simp [firstSome, h0, ha, h2] at h; subst h; exact ⟨_, by simp [h0, ha, h2] <;> rfl⟩

theorem C04_gen_write_audio_passes (m : Muxer) (pts : F64) (d : Bytes) :
    write_audio m pts d = none ↔ waCall m pts d = some (.audio pts.ticks d) := by
  unfold write_audio waCall
  by_cases h0 : m.finished = true
  · simp [firstSome, h0]
  by_cases ha : m.audioTrack.isNone = true
  · simp [firstSome, h0, ha]
  by_cases h2 : pts.isFinite
  · by_cases h3 : pts.isNeg
    · have h3' : F64.lt pts F64.zero = true := h3
      simp [firstSome, h0, ha, h2, h3, h3']
    have h3' : ¬ F64.lt pts F64.zero = true := h3
    by_cases h4 : ticksRepresentable pts
    · by_cases h1 : d = []
      · simp [firstSome, h0, ha, h2, h3, h3', h4, h1]
      cases hl : m.lastAudioPts with
      | none =>
        cases hf : m.firstVideoPts with
        | none => simp [firstSome, h0, ha, h2, h3, h3', h4, h1]
        | some fv => by_cases h6 : F64.lt pts fv = true <;> simp [firstSome, h0, ha, h2, h3, h3', h4, h1, h6]
      | some prev =>
        by_cases h5 : F64.lt pts prev = true
        · simp [firstSome, h0, ha, h2, h3, h3', h4, h1, h5]
        · cases hf : m.firstVideoPts with
          | none => simp [firstSome, h0, ha, h2, h3, h3', h4, h1, h5]
          | some fv => by_cases h6 : F64.lt pts fv = true <;> simp [firstSome, h0, ha, h2, h3, h3', h4, h1, h5, h6]
    · simp [firstSome, h0, ha, h2, h3, h3', h4]
  · simp [firstSome, h0, ha, h2]

/-- `convert_mp4_error`: the translated table of "which API error a writer error becomes (and whether the frame
    index is reported)" is the model's `convertErr`, for every writer error and index — the "errors name the
    violation" half of C04 for refusals that come from the writer -/
theorem C04_gen_convert_error (e : WErr) (idx : Nat) : convert_mp4_error e idx = convertErr e idx := by
  cases e <;> rfl

/-- `encode_video`: the clock value as time stamp, the detected key flag, `write_video`, and the clock advanced by
    `duration_ms / 1000` only when the frame was accepted — the model's `Muxer.encodeVideo` for every state -/
theorem C04_gen_encode_video (m : Muxer) (d : Bytes) (ms : Nat) : encode_video m d ms = m.encodeVideo d ms := by
  unfold encode_video Muxer.encodeVideo
  dsimp only
  generalize m.writeVideo m.curV d (m.isKeyframe d) = x
  obtain ⟨m', r⟩ := x
  cases r <;> rfl

/-- `encode_audio`: refused without an audio track, else `write_audio` at the audio clock, which advances by
    `samples / sample_rate` only when the frame was accepted -/
theorem C04_gen_encode_audio (m : Muxer) (d : Bytes) (n : Nat) : encode_audio m d n = m.encodeAudio d n := by
  unfold encode_audio Muxer.encodeAudio
  cases ha : m.audioTrack with
  | none => simp
  | some a =>
    simp only [Option.isNone_some, Bool.false_eq_true, if_false, Option.map_some, Option.getD_some]
    generalize m.writeAudio m.curA d = x
    obtain ⟨m', r⟩ := x
    cases r <;> rfl

/-! ### the calls after their guards: tick conversion, writer call with error conversion, bookkeeping of an accepted frame -/

theorem tail_reply (r : WRes) (idx : Nat) (hr : r ≠ .ok) :
    (match r with | .err e => convert_mp4_error e idx | .panic => Reply.panic | .ok => Reply.ok) = wresReply r idx := by
  cases r with
  | ok => exact absurd rfl hr
  | err e => simp only [wresReply]; exact C04_gen_convert_error e idx
  | panic => rfl

/-- `write_video`: when the translated guards name no error, the model's call is the translated tail -/
theorem C04_gen_write_video_tail (m : Muxer) (pts : F64) (d : Bytes) (k : Bool) (h : write_video m pts d = none) :
    m.writeVideo pts d k = write_video_tail m pts d k := by
  unfold write_video at h
  unfold Muxer.writeVideo write_video_tail
  by_cases h1 : d = []
  · simp [firstSome, h1] at h
  by_cases h2 : pts.isFinite
  · by_cases h3 : pts.isNeg
    · have h3' : F64.lt pts F64.zero = true := h3
      simp [firstSome, h1, h2, h3'] at h
    have h3' : ¬ F64.lt pts F64.zero = true := h3
    by_cases h4 : ticksRepresentable pts
    · cases hl : m.lastVideoPts with
      | none =>
        simp only [h1, h2, h3, h4, hl, if_false, not_true_eq_false, Bool.false_eq_true]
        generalize m.w.writeVideo pts.ticks pts.ticks d k = x
        obtain ⟨w', r⟩ := x
        cases r with
        | ok => cases hf : m.firstVideoPts <;> simp [hf, hl]
        | err e => simp [wresReply, C04_gen_convert_error]
        | panic => simp [wresReply]
      | some prev =>
        by_cases h5 : F64.le pts prev = true
        · simp [firstSome, h1, h2, h3', h4, hl, h5] at h
        simp only [h1, h2, h3, h4, hl, h5, if_false, not_true_eq_false, Bool.false_eq_true]
        generalize m.w.writeVideo pts.ticks pts.ticks d k = x
        obtain ⟨w', r⟩ := x
        cases r with
        | ok => cases hf : m.firstVideoPts <;> simp [hf, hl]
        | err e => simp [wresReply, C04_gen_convert_error]
        | panic => simp [wresReply]
    · simp [firstSome, h1, h2, h3', h4] at h
  · simp [firstSome, h1, h2] at h

/-- the three outcomes of the writer call, after the guards (video) -/
macro "video_tail_cases" m:ident x:term : tactic => `(tactic| (
  generalize $x = y
  obtain ⟨w', r⟩ := y
  cases r with
  | ok => cases hf : ($m).firstVideoPts <;> simp [hf]
  | err e => simp [wresReply, C04_gen_convert_error]
  | panic => simp [wresReply]))

/-- `write_video_with_dts`: when the translated guards name no error, the model's call is the translated tail -/
theorem C04_gen_write_video_dts_tail (m : Muxer) (pts dts : F64) (d : Bytes) (k : Bool)
    (h : write_video_with_dts m pts dts d = none) : m.writeVideoDts pts dts d k = write_video_with_dts_tail m pts dts d k := by
  unfold write_video_with_dts at h
  unfold Muxer.writeVideoDts write_video_with_dts_tail
  by_cases h0 : m.finished = true
  · simp [firstSome, h0] at h
  by_cases h1 : d = []
  · simp [firstSome, h0, h1] at h
  by_cases h2 : pts.isFinite
  · by_cases h3 : pts.isNeg
    · have h3' : F64.lt pts F64.zero = true := h3
      simp [firstSome, h0, h1, h2, h3'] at h
    have h3' : ¬ F64.lt pts F64.zero = true := h3
    by_cases h4 : ticksRepresentable pts
    · by_cases g2 : dts.isFinite
      · by_cases g3 : dts.isNeg
        · have g3' : F64.lt dts F64.zero = true := g3
          simp [firstSome, h0, h1, h2, h3', h4, g2, g3'] at h
        have g3' : ¬ F64.lt dts F64.zero = true := g3
        by_cases g4 : ticksRepresentable dts
        · cases hl : m.lastVideoDts with
          | none =>
            simp only [h0, h1, h2, h3, h4, g2, g3, g4, hl, if_false, not_true_eq_false, Bool.false_eq_true]
            video_tail_cases m (m.w.writeVideo pts.ticks dts.ticks d k)
          | some prev =>
            by_cases h5 : F64.le dts prev = true
            · simp [firstSome, h0, h1, h2, h3', h4, g2, g3', g4, hl, h5] at h
            simp only [h0, h1, h2, h3, h4, g2, g3, g4, hl, h5, if_false, not_true_eq_false, Bool.false_eq_true]
            video_tail_cases m (m.w.writeVideo pts.ticks dts.ticks d k)
        · simp [firstSome, h0, h1, h2, h3', h4, g2, g3', g4] at h
      · simp [firstSome, h0, h1, h2, h3', h4, g2] at h
    · simp [firstSome, h0, h1, h2, h3', h4] at h
  · simp [firstSome, h0, h1, h2] at h

/-- the three outcomes of the writer call, after the guards (audio) -/
macro "audio_tail_cases" x:term : tactic => `(tactic| (
  generalize $x = y
  obtain ⟨w', r⟩ := y
  cases r with
  | ok => simp
  | err e => simp [wresReply, C04_gen_convert_error]
  | panic => simp [wresReply]))

/-- `write_audio`: when the translated guards name no error, the model's call is the translated tail -/
theorem C04_gen_write_audio_tail (m : Muxer) (pts : F64) (d : Bytes) (h : write_audio m pts d = none) :
    m.writeAudio pts d = write_audio_tail m pts d := by
  unfold write_audio at h
  unfold Muxer.writeAudio write_audio_tail
  by_cases h0 : m.finished = true
  · simp [firstSome, h0] at h
  by_cases ha : m.audioTrack.isNone = true
  · simp [firstSome, h0, ha] at h
  by_cases h2 : pts.isFinite
  · by_cases h3 : pts.isNeg
    · have h3' : F64.lt pts F64.zero = true := h3
      simp [firstSome, h0, ha, h2, h3'] at h
    have h3' : ¬ F64.lt pts F64.zero = true := h3
    by_cases h4 : ticksRepresentable pts
    · by_cases h1 : d = []
      · simp [firstSome, h0, ha, h2, h3', h4, h1] at h
      cases hf : m.firstVideoPts with
      | none => cases hl : m.lastAudioPts with
        | none => simp [firstSome, h0, ha, h2, h3', h4, h1, hf, hl] at h
        | some prev => by_cases h5 : F64.lt pts prev = true <;> simp [firstSome, h0, ha, h2, h3', h4, h1, hf, hl, h5] at h
      | some fv =>
        by_cases h6 : F64.lt pts fv = true
        · cases hl : m.lastAudioPts with
          | none => simp [firstSome, h0, ha, h2, h3', h4, h1, hf, hl, h6] at h
          | some prev => by_cases h5 : F64.lt pts prev = true <;> simp [firstSome, h0, ha, h2, h3', h4, h1, hf, hl, h5, h6] at h
        cases hl : m.lastAudioPts with
        | none =>
          simp only [h0, ha, h1, h2, h3, h4, hl, hf, h6, if_false, not_true_eq_false, Bool.false_eq_true]
          audio_tail_cases (m.w.writeAudio pts.ticks d)
        | some prev =>
          by_cases h5 : F64.lt pts prev = true
          · simp [firstSome, h0, ha, h2, h3', h4, h1, hf, hl, h5] at h
          simp only [h0, ha, h1, h2, h3, h4, hl, hf, h5, h6, if_false, not_true_eq_false, Bool.false_eq_true]
          audio_tail_cases (m.w.writeAudio pts.ticks d)
    · simp [firstSome, h0, ha, h2, h3', h4] at h
  · simp [firstSome, h0, ha, h2] at h

end Muxide.Props.C04Generated
