import Muxide.Props.C10Generated
/-
  C11 (mechanical tie) — the base decode time of a segment and the moment the sequence counter advances are
  decided in `FragmentedMuxer::flush_segment`, the rejection floor in `write_video`; both are translated from the
  Rust source on every run (tools/rs2lean_frag.py) and equal to the model's (Props/C10Generated.lean).  Restated
  here so that C11's check regenerates and re-proves them: `C11_tfdt`, `C11_duration` and `C11_init` are about
  these model functions.
-/
namespace Muxide.Props.C11Generated
open Muxide Muxide.Generated.FragMethods

theorem C11_gen_flush_segment (f : Frag) : flush_segment f = f.flush := Muxide.Props.C10Generated.C10_gen_flush_segment f

theorem C11_gen_write_video (f : Frag) (pts dts : Nat) (d : Bytes) (k : Bool) :
    write_video f pts dts d k = f.write pts dts d k := Muxide.Props.C10Generated.C10_gen_write_video f pts dts d k

/-- what `flush_segment` does to a non-empty queue, read off the translated source: base = first decode time,
    sequence number as it stands, counter advanced by one (mod 2^32), queue emptied -/
theorem C11_gen_flush_effect (f : Frag) (s : FSample) (r : List FSample) (h : f.samples = s :: r) :
    flush_segment f = ({ f with samples := [], seq := (f.seq + 1) % 2 ^ 32, base := s.dts },
                       .seg (buildSegment f.samples f.seq s.dts)) := by
  rw [C11_gen_flush_segment]
  unfold Frag.flush
  simp [h]

/-- `build_trun` = the model's trun box (proved in Props/C10Generated.lean; restated for C11, whose theorems
    `C11_duration`, `C11_flags`, `C11_cts_exact` read this box) -/
theorem C11_gen_trun (samples : List FSample) (off : Nat) : build_trun samples off = (fTrun samples off).ser :=
  Muxide.Props.C10Generated.C10_gen_trun samples off

/-- `build_moof_with_offset` = the model's moof -/
theorem C11_gen_moof (samples : List FSample) (seq base off : Nat) :
    build_moof_with_offset samples seq base off = (fMoof samples seq base off).ser :=
  Muxide.Props.C10Generated.C10_gen_moof samples seq base off

end Muxide.Props.C11Generated
