import Muxide.Props.C10Generated
import Muxide.Props.C19Generated
/-
  C11 (mechanical tie) — the base decode time of a segment and the moment the sequence counter advances are
  decided in `FragmentedMuxer::flush_segment`, the rejection floor in `write_video`; both are translated from the
  Rust source on every run (tools/rs2lean_frag.py) and equal to the model's (Props/C10Generated.lean).  Restated
  here so that C11's check regenerates and re-proves them: `C11_tfdt`, `C11_duration` and `C11_init` are about
  these model functions.
-/
namespace Muxide.Props.C11Generated
open Muxide Muxide.Generated.FragMethods

theorem C11_gen_flush_segment (f : Frag) : flush_segment f = f.flush := Muxide.Props.C10Generated.C10_gen_flush_segment f

theorem C11_gen_write_video (f : Frag) (pts dts : Nat) (d : Bytes) (k : Bool) :
    write_video f pts dts d k = f.write pts dts d k := Muxide.Props.C10Generated.C10_gen_write_video f pts dts d k

/-- what `flush_segment` does to a non-empty queue, read off the translated source: base = first decode time,
    sequence number as it stands, counter advanced by one (mod 2^32), queue emptied -/
theorem C11_gen_flush_effect (f : Frag) (s : FSample) (r : List FSample) (h : f.samples = s :: r) :
    flush_segment f = ({ f with samples := [], seq := (f.seq + 1) % 2 ^ 32, base := s.dts },
                       .seg (buildSegment f.samples f.seq s.dts)) := by
  rw [C11_gen_flush_segment]
  unfold Frag.flush
  simp [h]

/-! ### `build_trun`: the per-sample rows -/

theorem mem_zip_range {α} (l : List α) (i : Nat) (x : α) (h : (i, x) ∈ List.zip (List.range l.length) l) :
    l[i]? = some x := by
  obtain ⟨k, hk, hkx⟩ := List.mem_iff_getElem.mp h
  simp only [List.getElem_zip, List.getElem_range, Prod.mk.injEq] at hkx
  obtain ⟨rfl, rfl⟩ := hkx
  have : k < l.length := by simpa using hk
  simp [this]

theorem flatMap_congr_mem {α} (l : List α) (f g : α → Bytes) (h : ∀ x ∈ l, f x = g x) : l.flatMap f = l.flatMap g := by
  induction l with
  | nil => rfl
  | cons a r ih =>
    simp only [List.flatMap_cons]
    rw [h a (by simp), ih (fun x hx => h x (by simp [hx]))]

theorem trun_flag_word : (16777216 ||| (1 ||| 256 ||| 512 ||| 1024 ||| 2048)) = 0x01000000 + 0xF01 := by decide

/-- `build_trun(samples, data_offset)` is the serialisation of the model's trun box: version 1 with the four
    per-sample fields present, the sample count, the data offset, then per sample its duration (gap to the next
    sample; for the last sample the previous gap; 3000 for a lone sample), size, sync/non-sync flags word and
    signed composition offset — for every list of samples -/
theorem C11_gen_trun (samples : List FSample) (off : Nat) : build_trun samples off = (fTrun samples off).ser := by
  rw [fTrun, Muxide.Props.C19Generated.ser_leaf]
  unfold build_trun
  dsimp only
  rw [flatMap_congr_mem (g := fun (x : Nat × FSample) => match x with | (i, s) => trunRow samples i s)]
  · simp only [List.nil_append, List.append_assoc, Muxide.Props.C19Generated.u32be_mod, trun_flag_word]
    rfl
  · intro p hp
    obtain ⟨i, sm⟩ := p
    have hi := mem_zip_range samples i sm hp
    simp only [trunRow, trunDuration, hi, Option.map_some, Option.getD_some, List.nil_append, List.append_assoc,
      Muxide.Props.C19Generated.u32be_mod]
    split
    · rw [Muxide.Props.C19Generated.u32be_mod]
    · split
      · rw [Muxide.Props.C19Generated.u32be_mod]
      · rfl

end Muxide.Props.C11Generated
