import Muxide.Props.C10
/-
  C11 — Fragment timing: per-sample durations, composition offsets and sync flags inside a media
  segment are the submitted ones; base decode times never move backwards and are never earlier than
  the previous segment's last sample; the init segment is always the same bytes.
  Property theorems only; helper lemmas live in Muxide/Lemmas/Frag.lean and FragRead.lean.
-/
namespace Muxide.Props.C11
open Muxide Muxide.Spec Muxide.Props.C10

/-! ### g. the rows of the trun -/

/-- layout of the trun payload the model writes: flags 0x000F01 (data offset, duration, size,
    flags, composition offset present), version 1 (signed offsets), count, data offset, then one
    16-byte row per sample -/
theorem C11_trun_layout (ss : List FSample) (off : Nat) :
    (fTrun ss off).pre = u32be 0x01000F01 ++ u32be ss.length ++ u32be off ++
      (List.zip (List.range ss.length) ss).flatMap fun (i, s) =>
        u32be (trunDuration ss i) ++ u32be s.data.length ++
        u32be (if s.sync then 0x02000000 else 0x01010000) ++ i32be (ctsWrap s.pts s.dts) := rfl

/-- `ctsWrap` (the model of `(pts as i64).wrapping_sub(dts as i64) as i32`) is the exact difference
    whenever it fits a signed 32-bit field -/
theorem C11_cts_exact (pts dts : Nat) (h1 : -2^31 ≤ (pts : Int) - dts) (h2 : (pts : Int) - dts < 2^31) :
    ctsWrap pts dts = (pts : Int) - dts :=
  ctsWrap_exact pts dts h1 h2

/-- the sample-flags word has its non-sync bit (bit 16) set exactly when the sample is not sync -/
theorem C11_flags (sync : Bool) : nonSync (if sync then 0x02000000 else 0x01010000) = !sync :=
  nonSync_flags sync

/-- the duration the model writes for every sample but the last is the (truncated) difference of
    consecutive submitted decode times -/
theorem C11_duration (ss : List FSample) (i : Nat) (h : i + 1 < ss.length) :
    trunDuration ss i = ss[i + 1].dts - ss[i].dts := by
  rw [trunDuration_succ ss i h]
  simp [dtsAt, h, (by omega : i < ss.length)]

/-- **Rows as read back**: under the size bounds of `C10_bytes`, the independent reader finds one
    trun row per sample, and row i carries
    * size = the sample's byte length,
    * composition offset = `ctsWrap pts dts` (= pts − dts when that fits an i32, `C11_cts_exact`),
    * a flags word whose non-sync bit is the negation of the submitted sync flag,
    * for i + 1 < n and non-decreasing decode times (guaranteed for accepted writes,
      `C10_accepted_sorted`) with a difference below 2^32: duration = dts_{i+1} − dts_i. -/
theorem C11_rows (ss : List FSample) (q b : Nat)
    (h1 : (fMoof ss q b 0).ser.length + 8 < 2^31)
    (h2 : 8 + (ss.map (·.data.length)).sum < 2^32) (hb : b < 2^64)
    (i : Nat) (hi : i < ss.length) :
    ∃ seg r fl, parseSegment (buildSegment ss q b) = some seg ∧ seg.rows.length = ss.length ∧
      seg.rows[i]? = some r ∧
      r.size = some ss[i].data.length ∧
      r.cto = some (ctsWrap ss[i].pts ss[i].dts) ∧
      r.flags = some fl ∧ nonSync fl = !ss[i].sync ∧
      (∀ (h : i + 1 < ss.length), ss[i].dts ≤ ss[i + 1].dts → ss[i + 1].dts - ss[i].dts < 2^32 →
        r.duration = some (ss[i + 1].dts - ss[i].dts)) := by
  rw [fMoof_ser_length] at h1
  have hp := parseSegment_buildSegment ss q b (by omega) h2 hb
  have hsz : ss[i].data.length < 2^32 := by
    have := le_sum_of_mem (ss.map (·.data.length)) ss[i].data.length
      (List.mem_map_of_mem (List.getElem_mem hi))
    omega
  refine ⟨_, specRow ss i ss[i], _, hp, by simp, rows_getElem ss i hi, ?_, rfl, rfl,
    nonSync_flags _, ?_⟩
  · simp only [specRow]; rw [Nat.mod_eq_of_lt hsz]
  · intro h _ hd
    simp only [specRow]
    rw [C11_duration ss i h, Nat.mod_eq_of_lt hd]

/-! ### h. base decode times -/

/-- dts of the last sample of a list -/
abbrev lastDts (ss : List FSample) : Nat := lastDtsOf ss

/-- the base decode time written into the k-th segment is its first sample's submitted dts; the
    constant-interval clause ("base = first sample's dts minus one stream-wide constant") holds
    with the constant 0, for every input -/
theorem C11_tfdt_first (c : FragConfig) (ops : List FOp) :
    ∃ c0 : Nat, ∀ (k : Nat) (ss : List FSample), (emitted (start c) ops)[k]? = some ss → k + 1 < 2^32 →
      ∃ s, ss.head? = some s ∧
        (segments (start c) ops)[k]? = some (buildSegment ss (k + 1) (s.dts - c0)) := by
  refine ⟨0, fun k ss h hk => ?_⟩
  obtain ⟨hne, hs⟩ := C10_seq c ops k ss h hk
  cases ss with
  | nil => exact absurd rfl hne
  | cons s rest => exact ⟨s, rfl, by simpa [firstDts] using hs⟩

/-- all emitted samples, in emission order, have non-decreasing decode times -/
theorem emitted_sorted (c : FragConfig) (ops : List FOp) :
    (emitted (start c) ops).flatten.Pairwise (fun a b => a.dts ≤ b.dts) := by
  have h := C10_accepted_sorted c ops
  rw [← C10_conserve c ops] at h
  exact (List.pairwise_append.mp h).1

theorem firstDts_mem (ss : List FSample) (h : ss ≠ []) : ∃ s ∈ ss, firstDts ss = s.dts := by
  cases ss with
  | nil => exact absurd rfl h
  | cons s rest => exact ⟨s, by simp, by simp [firstDts]⟩

theorem lastDts_mem (ss : List FSample) (h : ss ≠ []) : ∃ s ∈ ss, lastDts ss = s.dts := by
  refine ⟨ss.getLast h, List.getLast_mem h, ?_⟩
  simp [lastDts, lastDtsOf, List.getLast?_eq_some_getLast h]

/-- **Base decode times across segments**: for segments j < k of any run (bases are the first
    samples' dts by `C11_tfdt_first` / `C10_seq`),
    (i) base_j ≤ base_k — the base never moves backwards;
    (ii) dts of the last sample of segment j ≤ base_k — never earlier than the previous segment's
    last sample; and base_j + Σ (durations of all but the last sample of segment j) is exactly
    that last sample's dts. -/
theorem C11_tfdt (c : FragConfig) (ops : List FOp) (j k : Nat) (a b : List FSample) (hjk : j < k)
    (ha : (emitted (start c) ops)[j]? = some a) (hb : (emitted (start c) ops)[k]? = some b) :
    firstDts a ≤ firstDts b ∧ lastDts a ≤ firstDts b ∧
    firstDts a + ((List.range (a.length - 1)).map (trunDuration a)).sum = lastDts a := by
  have hs := emitted_sorted c ops
  rw [List.pairwise_flatten] at hs
  obtain ⟨hin, hx⟩ := hs
  have hja := List.getElem?_eq_some_iff.mp ha
  have hkb := List.getElem?_eq_some_iff.mp hb
  obtain ⟨hj, hja⟩ := hja
  obtain ⟨hk, hkb⟩ := hkb
  have hab := (List.pairwise_iff_getElem.mp hx) j k hj hk hjk
  rw [hja, hkb] at hab
  have hane : a ≠ [] := emitted_ne_nil _ _ a (hja ▸ List.getElem_mem hj)
  have hbne : b ≠ [] := emitted_ne_nil _ _ b (hkb ▸ List.getElem_mem hk)
  obtain ⟨fa, hfa, efa⟩ := firstDts_mem a hane
  obtain ⟨la, hla, ela⟩ := lastDts_mem a hane
  obtain ⟨fb, hfb, efb⟩ := firstDts_mem b hbne
  refine ⟨?_, ?_, ?_⟩
  · rw [efa, efb]; exact hab fa hfa fb hfb
  · rw [ela, efb]; exact hab la hla fb hfb
  · exact trun_span a (hin a (hja ▸ List.getElem_mem hj)) hane

/-- as seen by the reader: the `tfdt` of the k-th segment is its first sample's submitted dts
    (under the size bounds of `C10_bytes`) -/
theorem C11_tfdt_read (c : FragConfig) (ops : List FOp) (k : Nat) (ss : List FSample)
    (h : (emitted (start c) ops)[k]? = some ss) (hk : k + 1 < 2^32)
    (h1 : 96 + 16 * ss.length < 2^31) (h2 : 8 + (ss.map (·.data.length)).sum < 2^32)
    (hb : firstDts ss < 2^64) :
    ∃ bytes seg, (segments (start c) ops)[k]? = some bytes ∧ parseSegment bytes = some seg ∧
      seg.tfdt = firstDts ss := by
  obtain ⟨bytes, seg, h1, h2, _, h4, _⟩ := C10_run_bytes c ops k ss h hk h1 h2 hb
  exact ⟨bytes, seg, h1, h2, h4⟩

/-! ### i. the init segment -/

/-- **Init segment**: in any run, every `init` request is answered with the same bytes
    `buildInit c` — no matter when or how often it is requested — and no other operation ever
    returns an init reply. -/
theorem C11_init (c : FragConfig) (ops : List FOp) (i : Nat) (op : FOp) (r : FReply)
    (hop : ops[i]? = some op) (hr : (runF (start c) ops).2[i]? = some r) :
    (op = .init → r = .init (buildInit c)) ∧ (∀ b, r = .init b → op = .init ∧ b = buildInit c) := by
  have := run_init (start c) ops (by intro b hb; simp [start] at hb) i op r hop hr
  simpa [start] using this

/-- the init bytes depend on the configuration only -/
theorem C11_init_bytes (c : FragConfig) : buildInit c = fFtyp.ser ++ (fMoov c).ser := rfl

end Muxide.Props.C11
