import Muxide.Generated.Schedule
import Muxide.Lemmas.Schedule
import Muxide.Lemmas.WriterInv
/-
  C15 (mechanical tie) — Muxide.Generated.Schedule is produced by tools/rs2lean_sched.py from the Rust source of
  `Mp4Writer::compute_interleave_schedule` on every check run: one entry per video sample keyed by its decode
  time, one per audio sample keyed by its presentation time, sorted by (time, track kind, index) with video
  before audio.  The theorem states that the translated function is the model's `schedule` whenever audio
  samples have dts = pts (which every reachable writer guarantees), so C15_perm, C15_merge, C15_unique and the
  end-to-end C15_e2e are statements about the translated source.
-/
namespace Muxide.Props.C15Generated
open Muxide Muxide.Generated.Schedule

/-- a translated entry (time, kind, index) as a model entry -/
def toEnt (x : Nat × TrackKind × Nat) : Ent :=
  ⟨x.1, (match x.2.1 with | .video => 0 | .audio => 1), x.2.2⟩

theorem le_eq (a b : Nat × TrackKind × Nat) :
    lex3le ((fun (x : Nat × TrackKind × Nat) => match x with
      | (pts, kind, idx) => (pts, (match kind with | .video => 0 | .audio => 1), idx)) a)
      ((fun (x : Nat × TrackKind × Nat) => match x with
      | (pts, kind, idx) => (pts, (match kind with | .video => 0 | .audio => 1), idx)) b) = Ent.le (toEnt a) (toEnt b) := by
  obtain ⟨t, k, i⟩ := a
  obtain ⟨t', k', i'⟩ := b
  rfl

theorem toEnt_injective : Function.Injective toEnt := by
  intro a b h
  obtain ⟨t, k, i⟩ := a
  obtain ⟨t', k', i'⟩ := b
  simp only [toEnt, Ent.mk.injEq] at h
  obtain ⟨h1, h2, h3⟩ := h
  cases k <;> cases k' <;> simp_all

/-- `compute_interleave_schedule` is the model's schedule (entry for entry) when audio decode time = pts -/
theorem C15_gen_schedule (vs aus : List Sample) (ha : ∀ s ∈ aus, s.pts = s.dts) :
    (compute_interleave_schedule vs aus).map toEnt = schedule vs aus := by
  symm
  apply schedule_unique
  · -- a permutation of the entries of both tracks
    unfold compute_interleave_schedule
    refine (List.Perm.map toEnt (List.mergeSort_perm _ _)).trans ?_
    simp only [List.nil_append, List.map_append, List.map_map]
    apply List.Perm.of_eq
    congr 1
    unfold entsOf
    apply List.map_congr_left
    intro p hp
    obtain ⟨i, sm⟩ := p
    have : sm ∈ aus := (List.of_mem_zip hp).2
    simp only [Function.comp, toEnt]
    rw [ha sm this]
  · -- sorted by the model's order
    unfold compute_interleave_schedule
    simp only [List.nil_append]
    rw [List.pairwise_map]
    have := List.pairwise_mergeSort (le := fun a b => lex3le
        ((fun (x : Nat × TrackKind × Nat) => match x with
          | (pts, kind, idx) => (pts, (match kind with | .video => 0 | .audio => 1), idx)) a)
        ((fun (x : Nat × TrackKind × Nat) => match x with
          | (pts, kind, idx) => (pts, (match kind with | .video => 0 | .audio => 1), idx)) b))
      (by intro a b c h1 h2; rw [le_eq] at *; exact Ent.le_trans _ _ _ h1 h2)
      (by intro a b; rw [le_eq, le_eq]; exact Ent.le_total _ _)
      ((List.zip (List.range vs.length) vs).map (fun (idx, sample) => (sample.dts, TrackKind.video, idx)) ++
       (List.zip (List.range aus.length) aus).map (fun (idx, sample) => (sample.pts, TrackKind.audio, idx)))
    exact this.imp (fun h => by rw [le_eq] at h; exact h)

/-- for every writer state the API can reach, the translated function computes the model's schedule -/
theorem C15_gen_schedule_reachable (w : Writer) (hr : w.Reachable) :
    (compute_interleave_schedule w.vsRev.reverse w.asRev.reverse).map toEnt =
      schedule w.vsRev.reverse w.asRev.reverse :=
  C15_gen_schedule _ _ hr.inv.ordered.2.2.1

end Muxide.Props.C15Generated
