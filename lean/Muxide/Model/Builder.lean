import Muxide.Model.Api
import Muxide.Model.Frag
/-
  Muxide.Model.Builder — `Metadata`'s and `MuxerBuilder`'s fluent calls of src/api.rs as a state
  machine: every call is a function `Builder → Builder`, `build` / `new_with_fragment` consume the
  state.  The frame rate is carried by the Rust builder but never reaches any output (C17's byte-exact
  correspondence confirms it); it is not part of the model state.
-/
namespace Muxide

/-- `Metadata::with_title / with_creation_time / with_language` (`with_current_time` reads the wall
    clock and is `with_creation_time (now)`: an input, not modelled as a call of its own) -/
inductive MdOp where
  | withTitle (t : Bytes)
  | withCreationTime (t : Nat)
  | withLanguage (l : List Nat)
deriving Repr, DecidableEq

def MdOp.apply (m : Metadata) : MdOp → Metadata
  | .withTitle t => { m with title := some t }
  | .withCreationTime t => { m with ctime := some t }
  | .withLanguage l => { m with language := some l }

/-- `Metadata::new()` followed by the given calls -/
def mkMetadata (ops : List MdOp) : Metadata := ops.foldl MdOp.apply {}

/-- the fields of `MuxerBuilder<W>` other than the writer (and the frame rate) -/
structure Builder where
  video : Option (VCodec × Nat × Nat) := none
  audio : Option AudioTrack := none
  md : Option Metadata := none
  fast : Bool := true
  sps : Option Bytes := none
  pps : Option Bytes := none
  vps : Option Bytes := none
  av1 : Option Bytes := none
  vp9 : Option Vp9Config := none
deriving Repr, DecidableEq

/-- the builder's fluent calls -/
inductive BOp where
  | video (c : VCodec) (w h : Nat)
  | setVideoTrack (c : VCodec) (w h : Nat)
  | audio (a : AudioTrack)
  | setAudioTrack (a : AudioTrack)
  | withMetadata (m : Metadata)
  | withFastStart (b : Bool)
  | withSps (x : Bytes)
  | withPps (x : Bytes)
  | withVps (x : Bytes)
  | withAv1 (x : Bytes)
  | withVp9 (c : Vp9Config)
  | setCreateTime (t : Nat)
  | setLanguage (l : List Nat)
deriving Repr, DecidableEq

/-- `MuxerBuilder::new` -/
def Builder.new : Builder := {}

/-- one fluent call (`get_or_insert_with(Metadata::default)` for the two metadata setters) -/
def Builder.step (b : Builder) : BOp → Builder
  | .video c w h => { b with video := some (c, w, h) }
  | .setVideoTrack c w h => { b with video := some (c, w, h) }
  | .audio a => { b with audio := some a }
  | .setAudioTrack a => { b with audio := some a }
  | .withMetadata m => { b with md := some m }
  | .withFastStart f => { b with fast := f }
  | .withSps x => { b with sps := some x }
  | .withPps x => { b with pps := some x }
  | .withVps x => { b with vps := some x }
  | .withAv1 x => { b with av1 := some x }
  | .withVp9 c => { b with vp9 := some c }
  | .setCreateTime t => { b with md := some { (b.md.getD {}) with ctime := some t } }
  | .setLanguage l => { b with md := some { (b.md.getD {}) with language := some l } }

def Builder.run (ops : List BOp) : Builder := ops.foldl Builder.step Builder.new

/-- the configuration `build` reads off the builder (`none`: no video call was made) -/
def Builder.config (b : Builder) : Option Config :=
  b.video.map fun (c, w, h) => { codec := c, width := w, height := h, audio := b.audio, md := b.md, fast := b.fast }

inductive BuildRes where
  | ok (m : Muxer)
  | missingVideoConfig
  | io                 -- Opus with more than 255 channels
deriving Repr, DecidableEq

/-- `MuxerBuilder::build` -/
def Builder.build (b : Builder) : BuildRes :=
  match b.config with
  | none => .missingVideoConfig
  | some c =>
    match buildChecked c with
    | none => .io
    | some m => .ok m

inductive FragBuildRes where
  | ok (c : FragConfig)
  | missingVideoConfig
  | io                 -- a codec parameter the codec needs was not supplied
deriving Repr, DecidableEq

/-- `MuxerBuilder::new_with_fragment` (timescale 90000, 2-second fragments; parameters of other
    codecs are dropped, audio / metadata / fast-start are ignored) -/
def Builder.newWithFragment (b : Builder) : FragBuildRes :=
  match b.video with
  | none => .missingVideoConfig
  | some (codec, w, h) =>
    let mk (s p : Bytes) (v a : Option Bytes) (c : Option Vp9Config) : FragConfig :=
      ⟨w, h, 90000, 2000, s, p, v, a, c⟩
    match codec with
    | .h264 =>
      match b.sps, b.pps with
      | some s, some p => .ok (mk s p none none none)
      | _, _ => .io
    | .h265 =>
      match b.vps, b.sps, b.pps with
      | some v, some s, some p => .ok (mk s p (some v) none none)
      | _, _, _ => .io
    | .av1 =>
      match b.av1 with
      | some a => .ok (mk [] [] none (some a) none)
      | none => .io
    | .vp9 =>
      match b.vp9 with
      | some c => .ok (mk [] [] none none (some c))
      | none => .io

/-- `FragmentConfig::default()` -/
def FragConfig.default : FragConfig :=
  ⟨1920, 1080, 90000, 2000, [0x67, 0x42, 0x00, 0x1e, 0xda, 0x02, 0x80, 0x2d, 0x8b, 0x11], [0x68, 0xce, 0x38, 0x80],
   none, none, none⟩

end Muxide
