import Muxide.Model.Basic
/- Muxide.Model.Opus — src/codec/opus.rs -/
namespace Muxide

/-- `opus_frame_duration_from_toc(..).samples()` -/
def opusTocSamples (toc : Nat) : Nat :=
  let c := toc / 8 % 32
  if c ≤ 3 then 480 else if c ≤ 7 then 960 else if c ≤ 11 then 1920 else if c ≤ 15 then 2880
  else if c ≤ 19 then 480 else if c ≤ 23 then 960 else if c ≤ 27 then 120 else 240

/-- `opus_frame_count`: (count, vbr) -/
def opusFrameCount (p : Bytes) : Option (Nat × Bool) :=
  match p with
  | [] => none
  | toc :: rest =>
    match toc.toNat % 4 with
    | 0 => some (1, false)
    | 1 => some (2, false)
    | 2 => some (2, true)
    | _ =>
      match rest with
      | [] => none
      | b :: _ =>
        let count := b.toNat % 64
        if count = 0 then none else some (count, b.toNat ≥ 128)

def opusPacketSamples (p : Bytes) : Option Nat :=
  match p with
  | [] => none
  | toc :: _ =>
    match opusFrameCount p with
    | none => none
    | some (n, _) =>
      if ¬ (1 ≤ n ∧ n ≤ 63) then none else
      let s := opusTocSamples toc.toNat * n
      if s = 0 then none else some s

def isValidOpus (p : Bytes) : Bool := p ≠ [] ∧ (opusPacketSamples p).isSome

end Muxide
