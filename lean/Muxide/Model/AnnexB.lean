import Muxide.Model.Basic
/-
  Muxide.Model.AnnexB — src/codec/common.rs (find_start_code, AnnexBNalIter),
  src/codec/h264.rs (extract_avc_config, annexb_to_avcc, is_h264_keyframe),
  src/codec/h265.rs (extract_hevc_config, hevc_annexb_to_hvcc, is_hevc_keyframe, hevc_nal_type).
-/
namespace Muxide

/-- `find_start_code(data, from)` on the suffix `data[from..]`: relative (offset, length) of the
first start code, trying the 4-byte form before the 3-byte form at each position. -/
def findSC : Bytes → Option (Nat × Nat)
  | [] => none
  | b :: rest =>
    match b, rest with
    | 0, 0 :: 0 :: 1 :: _ => some (0, 4)
    | 0, 0 :: 1 :: _ => some (0, 3)
    | _, _ => (findSC rest).map fun (p, l) => (p + 1, l)

/-- the unit that begins at the head of `d`: bytes up to the next start code (or the end),
    and the remainder beginning at that start code. -/
def takeNal (d : Bytes) : Bytes × Bytes :=
  match findSC d with
  | some (p, _) => (d.take p, d.drop p)
  | none => (d, [])

/-- `AnnexBNalIter` collected into a list; `fuel` bounds the number of `next` calls. -/
def nalsAux : Nat → Bytes → List Bytes
  | 0, _ => []
  | fuel + 1, d =>
    match findSC d with
    | none => []
    | some (p, l) =>
      let (nal, rest) := takeNal (d.drop (p + l))
      nal :: nalsAux fuel rest

def nals (d : Bytes) : List Bytes := nalsAux (d.length + 1) d

/-- `annexb_to_avcc` / `hevc_annexb_to_hvcc` (identical bodies). The length prefix is `len as u32`. -/
def toAvcc (d : Bytes) : Bytes :=
  let out := ((nals d).filter (· ≠ [])).flatMap fun n => u32be n.length ++ n
  if out = [] ∧ d ≠ [] then u32be d.length ++ d else out

structure AvcConfig where
  sps : Bytes
  pps : Bytes
deriving Repr, DecidableEq

def h264NalType (nal : Bytes) : Nat := (nal.headD 0).toNat % 32

/-- loop body of `extract_avc_config` (first SPS, first PPS, early exit once both are found —
    the early exit does not change the result, since later NALs cannot overwrite). -/
def avcScan : List Bytes → Option Bytes → Option Bytes → Option Bytes × Option Bytes
  | [], s, p => (s, p)
  | n :: ns, s, p =>
    if n = [] then avcScan ns s p else
    let t := h264NalType n
    let (s', p') :=
      if t = 7 ∧ s.isNone then (some n, p)
      else if t = 8 ∧ p.isNone then (s, some n)
      else (s, p)
    if s'.isSome ∧ p'.isSome then (s', p') else avcScan ns s' p'

def extractAvc (d : Bytes) : Option AvcConfig :=
  if d = [] then none else
  match avcScan (nals d) none none with
  | (some s, some p) => some ⟨s, p⟩
  | _ => none

def defaultSps : Bytes := [0x67, 0x42, 0x00, 0x1e, 0xda, 0x02, 0x80, 0x2d, 0x8b, 0x11]
def defaultPps : Bytes := [0x68, 0xce, 0x38, 0x80]
def defaultAvc : AvcConfig := ⟨defaultSps, defaultPps⟩

def isH264Keyframe (d : Bytes) : Bool :=
  (nals d).any fun n => n ≠ [] ∧ h264NalType n = 5

structure HevcConfig where
  vps : Bytes
  sps : Bytes
  pps : Bytes
deriving Repr, DecidableEq

def hevcNalType (nal : Bytes) : Nat :=
  match nal with
  | [] => 0
  | b :: _ => b.toNat / 2 % 64

def hevcScan : List Bytes → Option Bytes → Option Bytes → Option Bytes →
    Option Bytes × Option Bytes × Option Bytes
  | [], v, s, p => (v, s, p)
  | n :: ns, v, s, p =>
    if n = [] then hevcScan ns v s p else
    let t := hevcNalType n
    let (v', s', p') :=
      if t = 32 ∧ v.isNone then (some n, s, p)
      else if t = 33 ∧ s.isNone then (v, some n, p)
      else if t = 34 ∧ p.isNone then (v, s, some n)
      else (v, s, p)
    if v'.isSome ∧ s'.isSome ∧ p'.isSome then (v', s', p') else hevcScan ns v' s' p'

def extractHevc (d : Bytes) : Option HevcConfig :=
  if d = [] then none else
  match hevcScan (nals d) none none none with
  | (some v, some s, some p) => some ⟨v, s, p⟩
  | _ => none

def isHevcKeyNalType (t : Nat) : Bool := 16 ≤ t ∧ t ≤ 21

end Muxide
