import Muxide.Model.Mp4
import Muxide.Model.F64
/-
  Muxide.Model.Validation — src/validation.rs.  A `ValidationResult` is modelled by what is observable
  without reading message texts: the verdict, the number of informational messages and the number of
  errors.  (`ValidationResult::with_error` pushes an error and clears `is_valid`; `with_message` pushes
  a message.)
-/
namespace Muxide

structure VRes where
  valid : Bool := true
  msgs : Nat := 0
  errs : Nat := 0
deriving Repr, DecidableEq

def VRes.withMessage (r : VRes) : VRes := { r with msgs := r.msgs + 1 }
def VRes.withError (r : VRes) : VRes := { r with errs := r.errs + 1, valid := false }

/-- `result.is_valid &= other.is_valid; result.messages.extend(..); result.errors.extend(..)` -/
def VRes.merge (r o : VRes) : VRes := ⟨r.valid && o.valid, r.msgs + o.msgs, r.errs + o.errs⟩

/-- `validate_video_config` (every codec of the enum is supported: one message) -/
def validateVideoConfig (w h : Nat) (fps : F64) : VRes :=
  let r : VRes := ({} : VRes).withMessage
  let r := if w = 0 ∨ h = 0 then r.withError
    else if w > 4096 ∨ h > 2160 then r.withError
    else if w < 320 ∨ h < 240 then r.withError
    else r.withMessage
  if F64.le fps F64.zero then r.withError
  else if F64.lt (F64.ofNat 120) fps then r.withError
  else r.withMessage

/-- `validate_audio_config` -/
def validateAudioConfig (c : ACodec) (rate ch : Nat) : VRes :=
  let r : VRes := ({} : VRes).withMessage
  match c with
  | .none => r
  | _ =>
    let r := if rate = 0 then r.withError else if rate > 192000 then r.withError else r.withMessage
    if ch = 0 then r.withError else if ch > 8 then r.withError else r.withMessage

/-- keyframe detection as `validate_video_frame` calls it -/
def detectKeyframe (c : VCodec) (d : Bytes) : Bool :=
  match c with
  | .h264 => isH264Keyframe d
  | .h265 => (nals d).any (fun n => n ≠ [] && isHevcKeyNalType (hevcNalType n))
  | .av1 => isAv1Keyframe d
  | .vp9 => (match isVp9Keyframe d with | .ok b => b | _ => false)

/-- `validate_video_frame` -/
def validateVideoFrame (c : VCodec) (d : Bytes) (key : Bool) : VRes :=
  if d = [] then ({} : VRes).withError else
  if key && !detectKeyframe c d then ({} : VRes).withError else ({} : VRes).withMessage

/-- `validate_audio_frame` -/
def validateAudioFrame (c : ACodec) (d : Bytes) : VRes :=
  if d = [] then ({} : VRes).withError else
  match c with
  | .aac _ =>
    if d.length < 7 then ({} : VRes).withError
    else if byteAt d 0 ≠ 0xFF ∨ byteAt d 1 / 16 ≠ 0xF then ({} : VRes).withError
    else ({} : VRes).withMessage
  | .opus => if isValidOpus d then ({} : VRes).withMessage else ({} : VRes).withError
  | .none => ({} : VRes).withError

structure VideoValidationConfig where
  codec : Option VCodec
  width : Option Nat
  height : Option Nat
  framerate : Option F64
  sampleFrame : Option (Bytes × Bool)

structure AudioValidationConfig where
  codec : Option ACodec
  sampleRate : Option Nat
  channels : Option Nat
  sampleFrame : Option Bytes

/-- `validate_muxing_config` -/
def validateMuxingConfig (v : VideoValidationConfig) (a : AudioValidationConfig) : VRes :=
  let r : VRes := {}
  let r := match v.codec, v.width, v.height, v.framerate with
    | some vc, some w, some h, some fps =>
      let r := r.merge (validateVideoConfig w h fps)
      (match v.sampleFrame with
       | some (d, k) => r.merge (validateVideoFrame vc d k)
       | none => r)
    | some _, _, _, _ => r.withError
    | none, _, _, _ => r
  let r := match a.codec, a.sampleRate, a.channels with
    | some ac, some sr, some ch =>
      let r := r.merge (validateAudioConfig ac sr ch)
      (match a.sampleFrame with
       | some d => r.merge (validateAudioFrame ac d)
       | none => r)
    | some ac, _, _ => if ac ≠ .none then r.withError else r
    | none, _, _ => r
  if v.codec.isNone ∧ (a.codec.isNone ∨ a.codec = some .none) then r.withError else r

end Muxide
