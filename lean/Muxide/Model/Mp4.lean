import Muxide.Model.Box
import Muxide.Model.AnnexB
import Muxide.Model.Adts
import Muxide.Model.Opus
import Muxide.Model.Vp9
import Muxide.Model.Av1
/-
  Muxide.Model.Mp4 — `Mp4Writer` of src/muxer/mp4.rs: sample queueing, the three finalize
  layouts, the interleave schedule and every `build_*` box builder, as Box trees.
-/
namespace Muxide

inductive VCodec where | h264 | h265 | av1 | vp9
deriving Repr, DecidableEq

inductive AacProfile where | lc | main | ssr | ltp | he | hev2
deriving Repr, DecidableEq

inductive ACodec where | aac (p : AacProfile) | opus | none
deriving Repr, DecidableEq

structure AudioTrack where
  sampleRate : Nat
  channels : Nat
  codec : ACodec
deriving Repr, DecidableEq

inductive VideoConfig where
  | avc (c : AvcConfig) | hevc (c : HevcConfig) | av1 (c : Av1Config) | vp9 (c : Vp9Config)
deriving Repr, DecidableEq

/-- `Metadata`: title as UTF-8 bytes, language as Unicode scalar values (Rust iterates `chars()`). -/
structure Metadata where
  title : Option Bytes := none
  ctime : Option Nat := none
  language : Option (List Nat) := none
deriving Repr, DecidableEq

structure Sample where
  pts : Nat
  dts : Nat
  data : Bytes
  key : Bool
  dur : Option Nat
deriving Repr, DecidableEq

inductive WErr where
  | nonIncreasingTimestamp | firstFrameMustBeKeyframe | firstFrameMissingSpsPps
  | firstFrameMissingSequenceHeader | firstFrameMissingVp9Config
  | invalidAdts (k : AdtsErr) | invalidOpusPacket | audioNotEnabled | durationOverflow
  | alreadyFinalized
deriving Repr, DecidableEq

/-- outcome of a writer call -/
inductive WRes where
  | ok | err (e : WErr) | panic
deriving Repr, DecidableEq

/-- `Mp4Writer` state. Sample vectors are stored newest-first (`vsRev.head?` is `last_mut()`). -/
structure Writer where
  codec : VCodec
  vsRev : List Sample := []
  vPrev : Option Nat := none
  vLastDelta : Option Nat := none
  vConfig : Option VideoConfig := none
  audio : Option AudioTrack := none
  asRev : List Sample := []
  aPrev : Option Nat := none
  aLastDelta : Option Nat := none
  finalized : Bool := false
  bytesWritten : Nat := 0
deriving Repr, DecidableEq

def u32Max : Nat := 2^32 - 1
def u64Max : Nat := 2^64 - 1

def setLastDur (rev : List Sample) (d : Nat) : List Sample :=
  match rev with
  | [] => []
  | s :: r => { s with dur := some d } :: r

inductive CfgRes where | none | some (c : VideoConfig)

def extractConfig (codec : VCodec) (data : Bytes) : CfgRes :=
  match codec with
  | .h264 => match extractAvc data with | some c => .some (.avc c) | none => .none
  | .h265 => match extractHevc data with | some c => .some (.hevc c) | none => .none
  | .av1 => match extractAv1 data with | .some c => .some (.av1 c) | .none => .none
  | .vp9 => match extractVp9 data with | some c => .some (.vp9 c) | none => .none

def convertPayload (codec : VCodec) (data : Bytes) : Bytes :=
  match codec with
  | .h264 | .h265 => toAvcc data
  | .av1 | .vp9 => data

/-- `write_video_sample_with_dts`: all checks first; the writer state is touched only when the
    frame is accepted (previous sample's duration, `video_last_delta`, config, push). -/
def Writer.writeVideo (w : Writer) (pts dts : Nat) (data : Bytes) (key : Bool) : Writer × WRes :=
  if w.finalized then (w, .err .alreadyFinalized) else
  let step1 : Except WRes (Option Nat × Option VideoConfig) :=
    match w.vPrev with
    | some prev =>
      if dts ≤ prev then .error (.err .nonIncreasingTimestamp) else
      let delta := dts - prev
      if delta > u32Max then .error (.err .durationOverflow) else
      .ok (some delta, none)
    | none =>
      if ¬ key then .error (.err .firstFrameMustBeKeyframe) else
      match extractConfig w.codec data with
      | .none => .error (.err (match w.codec with
          | .av1 => .firstFrameMissingSequenceHeader
          | .vp9 => .firstFrameMissingVp9Config
          | _ => .firstFrameMissingSpsPps))
      | .some c => .ok (none, some c)
  match step1 with
  | .error r => (w, r)
  | .ok (delta?, cfg?) =>
    let converted := convertPayload w.codec data
    if converted.length > u32Max then (w, .err .durationOverflow) else
    if (pts : Int) - (dts : Int) > 2^31 - 1 ∨ (pts : Int) - (dts : Int) < -(2^31) then (w, .err .durationOverflow) else
    let w1 := match delta? with
      | some d => { w with vsRev := setLastDur w.vsRev d, vLastDelta := some d }
      | none => w
    let w2 := match cfg? with
      | some c => { w1 with vConfig := some c }
      | none => w1
    ({ w2 with vsRev := ⟨pts, dts, converted, key, none⟩ :: w2.vsRev, vPrev := some dts }, .ok)

/-- `write_audio_sample`: timestamp checks, then payload validation, then the state update. -/
def Writer.writeAudio (w : Writer) (pts : Nat) (data : Bytes) : Writer × WRes :=
  if w.finalized then (w, .err .alreadyFinalized) else
  match w.audio with
  | none => (w, .err .audioNotEnabled)
  | some tr =>
    let step1 : Except WRes (Option Nat) :=
      match w.aPrev with
      | some prev =>
        if pts < prev then .error (.err .nonIncreasingTimestamp) else
        let delta := pts - prev
        if delta > u32Max then .error (.err .durationOverflow) else
        .ok (some delta)
      | none => .ok none
    match step1 with
    | .error r => (w, r)
    | .ok delta? =>
      let payload : Except WErr Bytes :=
        match tr.codec with
        | .aac _ => match adtsToRaw data with
                    | .ok r => .ok r
                    | .error k => .error (.invalidAdts k)
        | .opus => if isValidOpus data then .ok data else .error .invalidOpusPacket
        | .none => .error .audioNotEnabled
      match payload with
      | .error e => (w, .err e)
      | .ok sd =>
        if sd.length > u32Max then (w, .err .durationOverflow) else
        let w1 := match delta? with
          | some d => { w with asRev := setLastDur w.asRev d, aLastDelta := some d }
          | none => w
        ({ w1 with asRev := ⟨pts, pts, sd, false, none⟩ :: w1.asRev, aPrev := some pts }, .ok)

/-! ### sample tables -/

structure Tables where
  durations : List Nat
  sizes : List Nat
  keyframes : List Nat
  chunkOffsets : List Nat
  samplesPerChunk : Nat
  ctsOffsets : List Int
  hasBframes : Bool
deriving Repr, DecidableEq

def toI64 (n : Nat) : Int := if n < 2^63 then (n : Int) else (n : Int) - 2^64

/-- `(i128::from(pts) - i128::from(dts)) as i32`: the difference taken without overflow, then
    truncated to 32 bits. (Always `some`; the `Option` remains from the earlier i64 form, whose
    subtraction could overflow.) -/
def ctsOf (pts dts : Nat) : Option Int :=
  some (toI32 ((((pts : Int) - (dts : Int)) % (2^32 : Int)).toNat))

def durationsOf (samples : List Sample) (fallback : Option Nat) : List Nat :=
  let n := samples.length
  (List.zip (List.range n) samples).map fun (i, s) =>
    match s.dur with
    | some d => d
    | none => if i = n - 1 then fallback.getD 1 else 1

def keyframesOf (samples : List Sample) : List Nat :=
  ((List.zip (List.range samples.length) samples).filter (fun (_, s) => s.key)).map (fun (i, _) => i + 1)

def Tables.ofSamples (samples : List Sample) (offsets : List Nat) (spc : Nat) (fallback : Option Nat) : Tables :=
  let cts := samples.map fun s => (ctsOf s.pts s.dts).getD 0
  { durations := durationsOf samples fallback
    sizes := samples.map (·.data.length)
    keyframes := keyframesOf samples
    chunkOffsets := offsets
    samplesPerChunk := spc
    ctsOffsets := cts
    hasBframes := cts.any (· ≠ 0) }

def Tables.totalDuration (t : Tables) : Nat := t.durations.sum

/-! ### run-length encoding used by stts / ctts -/
def rleAux {α} [DecidableEq α] : List α → List (Nat × α) → List (Nat × α)
  | [], acc => acc.reverse
  | x :: xs, [] => rleAux xs [(1, x)]
  | x :: xs, (c, y) :: acc => if y = x then rleAux xs ((c + 1, y) :: acc) else rleAux xs ((1, x) :: (c, y) :: acc)

def rle {α} [DecidableEq α] (xs : List α) : List (Nat × α) := rleAux xs []

/-! ### box builders -/
open Box

def fullHdr0 : Bytes := u32be 0

def bFtyp : Box := leaf "ftyp" (ascii "isom" ++ u32be 0x200 ++ ascii "isommp41")

def matrixBytes : Bytes :=
  [0x00010000, 0, 0, 0, 0x00010000, 0, 0, 0, 0x40000000].flatMap u32be

def bMvhd (durationMs nextTrackId : Nat) : Box :=
  leaf "mvhd" (u32be 0 ++ u32be 0 ++ u32be 0 ++ u32be 1000 ++ u32be durationMs ++ u32be 0x00010000 ++
    u16be 0x0100 ++ u16be 0 ++ u64be 0 ++ matrixBytes ++ zeros 24 ++ u32be nextTrackId)

/-- `build_tkhd_box_with_id` (note: 88-byte payload — duration, a stray 32-bit zero, then the
    8 reserved bytes; the standard layout has no such word) -/
def bTkhd (trackId volume width height durationMs : Nat) : Box :=
  leaf "tkhd" (u32be 0 ++ u32be 0 ++ u32be 0 ++ u32be trackId ++ u32be 0 ++ u32be durationMs ++ u32be 0 ++ u64be 0 ++
    u16be 0 ++ u16be 0 ++ u16be volume ++ u16be 0 ++ matrixBytes ++
    u32be (width * 2^16) ++ u32be (height * 2^16))

/-- `encode_language_code` on the scalar values of the string -/
def langCode (cps : List Nat) : Nat :=
  let c (i : Nat) (dflt : Nat) : Nat := ((cps.take 3).getD i dflt) % 2^16
  let f (x : Nat) : Nat := (x - 0x60) % 32
  f (c 0 117) * 2^10 + f (c 1 110) * 2^5 + f (c 2 100)

def bMdhd (timescale duration : Nat) (lang : Option (List Nat)) : Box :=
  leaf "mdhd" (u32be 0 ++ u32be 0 ++ u32be 0 ++ u32be timescale ++ u32be duration ++
    u16be (langCode (lang.getD [117, 110, 100])) ++ u16be 0)

def bHdlr (handler name : String) : Box :=
  leaf "hdlr" (u32be 0 ++ u32be 0 ++ ascii handler ++ zeros 12 ++ ascii name ++ [0])

def bVmhd : Box := leaf "vmhd" (u32be 0 ++ u16be 0 ++ u16be 0 ++ u16be 0 ++ u16be 0)
def bSmhd : Box := leaf "smhd" (u32be 0 ++ u16be 0 ++ u16be 0)
def bUrl : Box := leaf "url " (u32be 1)
def bDref : Box := node "dref" (u32be 0 ++ u32be 1) [bUrl]
def bDinf : Box := node "dinf" [] [bDref]

def bStts (durations : List Nat) : Box :=
  let es := rle durations
  leaf "stts" (u32be 0 ++ u32be es.length ++ es.flatMap fun (c, d) => u32be c ++ u32be d)

def bCtts (offsets : List Int) : Box :=
  let es := rle offsets
  leaf "ctts" (u32be 0x01000000 ++ u32be es.length ++ es.flatMap fun (c, o) => u32be c ++ i32be o)

def bStsc (spc chunkCount : Nat) : Box :=
  if chunkCount % 2^32 = 0 ∨ spc = 0 then leaf "stsc" (u32be 0 ++ u32be 0)
  else leaf "stsc" (u32be 0 ++ u32be 1 ++ u32be 1 ++ u32be spc ++ u32be 1)

def bStsz (sizes : List Nat) : Box :=
  leaf "stsz" (u32be 0 ++ u32be 0 ++ u32be sizes.length ++ sizes.flatMap u32be)

def bStco (offsets : List Nat) : Box :=
  leaf "stco" (u32be 0 ++ u32be offsets.length ++ offsets.flatMap u32be)

def bStss (keys : List Nat) : Box :=
  leaf "stss" (u32be 0 ++ u32be keys.length ++ keys.flatMap u32be)

/-- the 78-byte VisualSampleEntry prefix shared by avc1 / hvc1 / av01 / vp09 -/
def visualEntryPrefix (width height : Nat) : Bytes :=
  zeros 6 ++ u16be 1 ++ u16be 0 ++ u16be 0 ++ u32be 0 ++ u32be 0 ++ u32be 0 ++
  u16be width ++ u16be height ++ u32be 0x00480000 ++ u32be 0x00480000 ++ u32be 0 ++ u16be 1 ++
  zeros 32 ++ u16be 0x0018 ++ u16be 0xffff

def bAvcC (c : AvcConfig) : Box :=
  let (pi, pc, li) : UInt8 × UInt8 × UInt8 :=
    if c.sps.length ≥ 4 then (c.sps.getD 1 0, c.sps.getD 2 0, c.sps.getD 3 0) else (0x42, 0x00, 0x1e)
  leaf "avcC" ([1, pi, pc, li, 0xff, 0xe1] ++ u16be c.sps.length ++ c.sps ++ [1] ++
    u16be c.pps.length ++ c.pps)

def bHvcC (c : HevcConfig) : Box :=
  let b3 : Option Nat := (c.sps[3]?).map (·.toNat)
  let space := match b3 with | some b => b / 64 % 4 | none => 0
  let tier : Bool := match b3 with | some b => decide (b / 32 % 2 ≠ 0) | none => false
  let idc := match b3 with | some b => b % 32 | none => 1
  let level := match c.sps[14]? with | some b => b.toNat | none => 93
  let byte1 := (space * 64) % 256 + (if tier then 0x20 else 0) + idc % 32
  leaf "hvcC" ([1, u8 byte1, 0x60, 0, 0, 0, 0x90, 0, 0, 0, 0, 0, u8 level, 0xf0, 0x00, 0xfc, 0xfd, 0xf8, 0xf8] ++
    u16be 0 ++ [0x03, 3] ++
    [0x80 + 32] ++ u16be 1 ++ u16be c.vps.length ++ c.vps ++
    [0x80 + 33] ++ u16be 1 ++ u16be c.sps.length ++ c.sps ++
    [0x80 + 34] ++ u16be 1 ++ u16be c.pps.length ++ c.pps)

def av1CRecord (c : Av1Config) : Bytes :=
  let byte1 := (c.seqProfile % 8) * 32 + c.seqLevelIdx % 32
  let byte2 := (c.seqTier % 2) * 128 + (if c.highBitdepth then 0x40 else 0) + (if c.twelveBit then 0x20 else 0) +
    (if c.monochrome then 0x10 else 0) + (if c.subX then 0x08 else 0) + (if c.subY then 0x04 else 0) + c.csp % 4
  [0x81, u8 byte1, u8 byte2, 0x00] ++ c.sequenceHeader

def bAv1C (c : Av1Config) : Box := leaf "av1C" (av1CRecord c)

/-- the VPCodecConfigurationRecord after the FullBox header -/
def vpcCRecord (c : Vp9Config) : Bytes :=
  u32be 0x01000000 ++ [u8 c.profile, u8 c.level, u8 ((c.bitDepth % 16) * 16 + 2 + c.fullRange % 2),
    u8 c.colorSpace, u8 c.transfer, u8 c.matrix] ++ u16be 0

def bVpcC (c : Vp9Config) : Box := leaf "vpcC" (vpcCRecord c)

/-- `build_avc1_box` & co. (the width/height `assert_invariant!`s are in `finalizePanics`) -/
def bVideoEntry (width height : Nat) (vc : VideoConfig) : Box :=
  match vc with
  | .avc c => node "avc1" (visualEntryPrefix width height) [bAvcC c]
  | .hevc c => node "hvc1" (visualEntryPrefix width height) [bHvcC c]
  | .av1 c => node "av01" (visualEntryPrefix width height) [bAv1C c]
  | .vp9 c => node "vp09" (visualEntryPrefix width height) [bVpcC c]

def sfiOf (rate : Nat) : Nat :=
  if rate = 96000 then 0 else if rate = 88200 then 1 else if rate = 64000 then 2 else
  if rate = 48000 then 3 else if rate = 44100 then 4 else if rate = 32000 then 5 else
  if rate = 24000 then 6 else if rate = 22050 then 7 else if rate = 16000 then 8 else
  if rate = 12000 then 9 else if rate = 11025 then 10 else if rate = 8000 then 11 else
  if rate = 7350 then 12 else 4

/-- `build_audio_specific_config` -/
def ascBytes (rate channels : Nat) : Bytes :=
  let sfi := sfiOf rate
  let chan := (min channels 15) % 16
  [u8 (2 * 8 + sfi / 2), u8 ((sfi % 2) * 128 + chan * 8)]

def bEsds (a : AudioTrack) : Box :=
  let asc := ascBytes a.sampleRate a.channels
  let decSpecific := [0x05, u8 asc.length] ++ asc
  let dcp := [0x40, 0x15, 0, 0, 0] ++ u32be 0 ++ u32be 0 ++ decSpecific
  let decConfig := [0x04, u8 dcp.length] ++ dcp
  let esPayload := u16be 1 ++ [0] ++ decConfig ++ [0x06, 0x01, 0x02]
  leaf "esds" (u32be 0 ++ [0x03, u8 esPayload.length] ++ esPayload)

def audioEntryPrefix (channels rateFixed : Nat) : Bytes :=
  zeros 6 ++ u16be 1 ++ u32be 0 ++ u32be 0 ++ u16be channels ++ u16be 16 ++ u16be 0 ++ u16be 0 ++ u32be rateFixed

def bMp4a (a : AudioTrack) : Box :=
  node "mp4a" (audioEntryPrefix a.channels (a.sampleRate * 2^16)) [bEsds a]

/-- `build_dops_box`: `OpusConfig::default().with_channels(channels as u8)` -/
def bDops (a : AudioTrack) : Box :=
  let ch := a.channels % 256
  let family := if ch > 2 then 1 else 0
  leaf "dOps" ([0, u8 ch] ++ u16be 312 ++ u32be 48000 ++ u16be 0 ++ [u8 family] ++
    (if family ≠ 0 then [1, 0] ++ (List.range ch).map u8 else []))

def bOpus (a : AudioTrack) : Box :=
  node "Opus" (audioEntryPrefix a.channels (48000 * 2^16)) [bDops a]

def bAudioEntry (a : AudioTrack) : Box :=
  match a.codec with
  | .opus => bOpus a
  | _ => bMp4a a

def bStsd (entry : Box) : Box := node "stsd" (u32be 0 ++ u32be 1) [entry]

def bVideoStbl (width height : Nat) (t : Tables) (vc : VideoConfig) : Box :=
  node "stbl" [] ([bStsd (bVideoEntry width height vc), bStts t.durations] ++
    (if t.hasBframes then [bCtts t.ctsOffsets] else []) ++
    [bStsc t.samplesPerChunk t.chunkOffsets.length, bStsz t.sizes, bStco t.chunkOffsets] ++
    (if t.keyframes ≠ [] then [bStss t.keyframes] else []))

def bAudioStbl (a : AudioTrack) (t : Tables) : Box :=
  node "stbl" [] [bStsd (bAudioEntry a), bStts t.durations,
    bStsc t.samplesPerChunk t.chunkOffsets.length, bStsz t.sizes, bStco t.chunkOffsets]

/-- media ticks → movie timescale (ms), as `(media * 1000 / 90000) as u32` -/
def toMs (media : Nat) : Nat := media * 1000 / 90000

def bVideoTrak (width height : Nat) (t : Tables) (vc : VideoConfig) (lang : Option (List Nat)) : Box :=
  node "trak" [] [bTkhd 1 0 width height (toMs t.totalDuration),
    node "mdia" [] [bMdhd 90000 t.totalDuration lang, bHdlr "vide" "VideoHandler",
      node "minf" [] [bVmhd, bDinf, bVideoStbl width height t vc]]]

def bAudioTrak (a : AudioTrack) (t : Tables) (lang : Option (List Nat)) : Box :=
  node "trak" [] [bTkhd 2 0x0100 0 0 (toMs t.totalDuration),
    node "mdia" [] [bMdhd 90000 t.totalDuration lang, bHdlr "soun" "SoundHandler",
      node "minf" [] [bSmhd, bDinf, bAudioStbl a t]]]

/-! ### metadata -/
def isLeap (y : Nat) : Bool := (y % 4 == 0 && y % 100 != 0) || y % 400 == 0
def yearLen (y : Nat) : Nat := if isLeap y then 366 else 365

/-- the `loop` of `days_to_ymd` -/
def yearLoop : Nat → Nat → Nat → Nat × Nat
  | 0, y, r => (y, r)
  | f + 1, y, r => if r < yearLen y then (y, r) else yearLoop f (y + 1) (r - yearLen y)

def monthLens (y : Nat) : List Nat :=
  if isLeap y then [31, 29, 31, 30, 31, 30, 31, 31, 30, 31, 30, 31]
  else [31, 28, 31, 30, 31, 30, 31, 31, 30, 31, 30, 31]

def monthLoop : List Nat → Nat → Nat → Nat × Nat
  | [], m, r => (m, r)
  | l :: ls, m, r => if r < l then (m, r) else monthLoop ls (m + 1) (r - l)

/-- `days_to_ymd`: whole 400-year cycles (146 097 days) are skipped first, then the year loop
    runs from `1970 + 400·cycles` on the remaining `days % 146097` days — at most 400 iterations
    (the fuel is never exhausted). The year is a `u64` in Rust: exact for every `u64` input. -/
def daysToYmd (days : Nat) : Nat × Nat × Nat :=
  let (y, r) := yearLoop 401 (1970 + 400 * (days / 146097)) (days % 146097)
  let (m, r') := monthLoop (monthLens y) 1 r
  (y, m, r' + 1)

def decDigits (n : Nat) : Bytes := (toString n).toList.map fun c => u8 c.toNat

/-- `{:0w}` formatting of a non-negative integer -/
def padNum (w n : Nat) : Bytes :=
  let d := decDigits n
  List.replicate (w - d.length) (u8 48) ++ d

/-- `format_unix_timestamp` -/
def formatTimestamp (secs : Nat) : Bytes :=
  let days := secs / 86400
  let rem := secs % 86400
  let (y, m, d) := daysToYmd days
  padNum 4 y ++ [u8 45] ++ padNum 2 m ++ [u8 45] ++ padNum 2 d ++ [u8 84] ++
  padNum 2 (rem / 3600) ++ [u8 58] ++ padNum 2 (rem % 3600 / 60) ++ [u8 58] ++ padNum 2 (rem % 60) ++ [u8 90]

def bIlstItem (typ : Bytes) (value : Bytes) : Box :=
  Box.mk typ [] [leaf "data" ([0, 0, 0, 1] ++ [0, 0, 0, 0] ++ value)]

def namType : Bytes := [0xa9, 0x6e, 0x61, 0x6d]
def dayType : Bytes := [0xa9, 0x64, 0x61, 0x79]

def bMetaHdlr : Box :=
  leaf "hdlr" (zeros 4 ++ zeros 4 ++ ascii "mdir" ++ ascii "appl" ++ zeros 4 ++ zeros 4 ++ [0])

/-- `build_udta_box`; `none` = the empty vector (no udta) -/
def bUdta (m : Metadata) : Option Box :=
  let items := (match m.title with | some t => [bIlstItem namType t] | none => []) ++
               (match m.ctime with | some c => [bIlstItem dayType (formatTimestamp c)] | none => [])
  if items.isEmpty then none
  else some (node "udta" [] [node "meta" (zeros 4) [bMetaHdlr, node "ilst" [] items]])

end Muxide

namespace Muxide
open Box

/-! ### interleave schedule (`compute_interleave_schedule`) -/
structure Ent where
  ts : Nat
  kind : Nat    -- 0 = video, 1 = audio
  idx : Nat
deriving Repr, DecidableEq

def Ent.le (a b : Ent) : Bool :=
  a.ts < b.ts || (a.ts == b.ts && (a.kind < b.kind || (a.kind == b.kind && a.idx ≤ b.idx)))

/-- schedule entries of one track: video is keyed by decode time, audio by presentation time
    (= decode time for audio) -/
def entsOf (kind : Nat) (samples : List Sample) : List Ent :=
  (List.zip (List.range samples.length) samples).map fun (i, s) => ⟨s.dts, kind, i⟩

/-- `sort_by_key` on unique keys = the unique sorted permutation; modelled by `mergeSort`. -/
def schedule (vs aus : List Sample) : List Ent :=
  (entsOf 0 vs ++ entsOf 1 aus).mergeSort Ent.le

def entSize (vs aus : List Sample) (e : Ent) : Nat :=
  if e.kind = 0 then (vs[e.idx]?.map (·.data.length)).getD 0 else (aus[e.idx]?.map (·.data.length)).getD 0

def entData (vs aus : List Sample) (e : Ent) : Bytes :=
  if e.kind = 0 then (vs[e.idx]?.map (·.data)).getD [] else (aus[e.idx]?.map (·.data)).getD []

/-- walk the schedule with a cursor; `step e` is the cursor increment. Offsets are pushed in
    schedule order to the video / audio vectors. -/
def assignOffsets (step : Ent → Nat) : List Ent → Nat → List Nat × List Nat
  | [], _ => ([], [])
  | e :: es, cur =>
    let (v, a) := assignOffsets step es (cur + step e)
    if e.kind = 0 then (cur :: v, a) else (v, cur :: a)

/-- largest cursor value that is pushed (for the fast-start `> u32::MAX` check) -/
def maxPushed (step : Ent → Nat) : List Ent → Nat → Nat
  | [], _ => 0
  | e :: es, cur => max cur (maxPushed step es (cur + step e))

inductive FinRes where
  | ok
  | ioErr (msg : String)
  | panic
deriving Repr, DecidableEq

structure FinOut where
  chunks : List Bytes
  res : FinRes
deriving Repr, DecidableEq

/-- `build_moov_box` -/
def bMoov (width height : Nat) (vt : Tables) (audio : Option (AudioTrack × Tables)) (vc : VideoConfig)
    (md : Option Metadata) : Box :=
  let durMs := max (toMs vt.totalDuration) (match audio with | some (_, at_) => toMs at_.totalDuration | none => 0)
  let lang := md.bind (·.language)
  node "moov" [] ([bMvhd durMs (if audio.isSome then 3 else 2), bVideoTrak width height vt vc lang] ++
    (match audio with | some (a, at_) => [bAudioTrak a at_ lang] | none => []) ++
    (match md.bind bUdta with | some u => [u] | none => []))

/-- panics raised while building the moov: zero-size sample in `build_stsz_box`,
    i64 overflow of `pts - dts`. (Width/height > 65535 are rejected by `finalize` itself.) -/
def moovPanics (_width _height : Nat) (vs aus : List Sample) (hasAudio : Bool) : Bool :=
  vs.any (fun s => (ctsOf s.pts s.dts).isNone) ||
  (hasAudio && aus.any (fun s => (ctsOf s.pts s.dts).isNone)) ||
  vs.any (fun s => s.data.length = 0) || (hasAudio && aus.any (fun s => s.data.length = 0))

def mdatHeader (payloadSize : Nat) : List Bytes := [u32be (8 + payloadSize), ascii "mdat"]

def ftypLen : Nat := 24

def finalizeStandard (w : Writer) (width height : Nat) (md : Option Metadata) (vc : VideoConfig) : FinOut :=
  let vs := w.vsRev.reverse
  let aus := w.asRev.reverse
  let ftyp := bFtyp.ser
  match w.audio with
  | none =>
    let payload := (vs.map (·.data.length)).sum
    if vs ≠ [] ∧ 8 + payload > u32Max then ⟨[ftyp], .ioErr "MP4 MDAT box size exceeds u32::MAX"⟩ else
    let pre := if vs ≠ [] then [ftyp] ++ mdatHeader payload ++ vs.map (·.data) else [ftyp]
    if moovPanics width height vs [] false then ⟨pre, .panic⟩ else
    let (offs, spc) := if vs ≠ [] then ([ftypLen + 8], vs.length) else ([], 0)
    let vt := Tables.ofSamples vs offs spc w.vLastDelta
    ⟨pre ++ [(bMoov width height vt none vc md).ser], .ok⟩
  | some tr =>
    let payload := (vs.map (·.data.length)).sum + (aus.map (·.data.length)).sum
    if 8 + payload > u32Max then ⟨[ftyp], .ioErr "MP4 MDAT box size exceeds u32::MAX"⟩ else
    if ftypLen + 8 + payload > u32Max then ⟨[ftyp], .ioErr "MP4 chunk offset exceeds u32::MAX"⟩ else
    let sched := schedule vs aus
    let pre := [ftyp] ++ mdatHeader payload ++ sched.map (entData vs aus)
    if moovPanics width height vs aus true then ⟨pre, .panic⟩ else
    let (vo, ao) := assignOffsets (entSize vs aus) sched (ftypLen + 8)
    let vt := Tables.ofSamples vs vo 1 w.vLastDelta
    let at_ := Tables.ofSamples aus ao 1 w.aLastDelta
    ⟨pre ++ [(bMoov width height vt (some (tr, at_)) vc md).ser], .ok⟩

def finalizeFastStart (w : Writer) (width height : Nat) (md : Option Metadata) (vc : VideoConfig) : FinOut :=
  let vs := w.vsRev.reverse
  let aus := w.asRev.reverse
  let ftyp := bFtyp.ser
  let payload := (vs.map (·.data.length)).sum + (aus.map (·.data.length)).sum
  if 8 + payload > u32Max then ⟨[], .ioErr "MP4 MDAT box size exceeds u32::MAX"⟩ else
  match w.audio with
  | some tr =>
    let sched := schedule vs aus
    if moovPanics width height vs aus true then ⟨[], .panic⟩ else
    let (pv, pa) := assignOffsets (fun _ => 1) sched 0
    let placeholder := bMoov width height (Tables.ofSamples vs pv 1 w.vLastDelta)
      (some (tr, Tables.ofSamples aus pa 1 w.aLastDelta)) vc md
    let start := ftypLen + placeholder.ser.length + 8
    if maxPushed (entSize vs aus) sched start > u32Max then ⟨[], .ioErr "MP4 chunk offset exceeds u32::MAX"⟩ else
    let (vo, ao) := assignOffsets (entSize vs aus) sched start
    let moov := bMoov width height (Tables.ofSamples vs vo 1 w.vLastDelta)
      (some (tr, Tables.ofSamples aus ao 1 w.aLastDelta)) vc md
    ⟨[ftyp, moov.ser] ++ mdatHeader payload ++ sched.map (entData vs aus), .ok⟩
  | none =>
    if moovPanics width height vs [] false then ⟨[], .panic⟩ else
    let (poffs, spc) := if vs ≠ [] then ([0], vs.length) else ([], 0)
    let placeholder := bMoov width height (Tables.ofSamples vs poffs spc w.vLastDelta) none vc md
    let start := ftypLen + placeholder.ser.length + 8
    if vs ≠ [] ∧ start > u32Max then ⟨[], .ioErr "MP4 chunk offset exceeds u32::MAX"⟩ else
    let offs := if vs ≠ [] then [start] else []
    let moov := bMoov width height (Tables.ofSamples vs offs spc w.vLastDelta) none vc md
    ⟨[ftyp, moov.ser] ++ mdatHeader payload ++ vs.map (·.data), .ok⟩

/-- `Mp4Writer::finalize` against a fault-free sink: the chunks handed to `write_counted`, in
    order, and the outcome. (`finalized` is set before anything is written.) -/
def Writer.finalize (w : Writer) (width height : Nat) (md : Option Metadata) (fast : Bool) : Writer × FinOut :=
  if w.finalized then (w, ⟨[], .ioErr "mp4 writer already finalised"⟩) else
  let w' := { w with finalized := true }
  if (durationsOf w.vsRev.reverse w.vLastDelta).sum > u32Max ∨ (durationsOf w.asRev.reverse w.aLastDelta).sum > u32Max then
    (w', ⟨[], .ioErr "MP4 track duration exceeds u32::MAX media ticks"⟩) else
  if width > 65535 ∨ height > 65535 then (w', ⟨[], .ioErr "video width and height must fit in 16 bits"⟩) else
  let vc := w.vConfig.getD (.avc defaultAvc)
  (w', if fast then finalizeFastStart w width height md vc else finalizeStandard w width height md vc)

/-- end of presentation of a track: max over samples of `pts + duration` (saturating); the
    newest sample (head of the reversed list) falls back to `last_delta`, older ones to 0 -/
def trackEnd (rev : List Sample) (ld : Option Nat) : Option Nat :=
  match rev with
  | [] => none
  | s :: older =>
    let e0 := min (s.pts + (match s.dur with | some d => d | none => ld.getD 0)) u64Max
    some (older.foldl (fun acc x => max acc (min (x.pts + x.dur.getD 0) u64Max)) e0)

/-- `max_end_pts` -/
def Writer.maxEndPts (w : Writer) : Option Nat :=
  match trackEnd w.vsRev w.vLastDelta, trackEnd w.asRev w.aLastDelta with
  | some v, some a => some (max v a)
  | some v, none => some v
  | none, some a => some a
  | none, none => none

end Muxide
