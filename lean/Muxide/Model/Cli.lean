import Muxide.Model.Api
/-
  Muxide.Model.Cli — the pure logic of src/bin/muxide.rs: hex decoding of input files, the
  `validate` verdict, the `info` top-level box walk, and the option → builder mapping of `mux`.
  clap parsing, exit codes, the file system and progress output are glue (correspondence only).
-/
namespace Muxide

/-- Unicode `White_Space` (Rust `char::is_whitespace`) -/
def isRustWhitespace (c : Nat) : Bool :=
  (9 ≤ c && c ≤ 13) || c == 32 || c == 0x85 || c == 0xA0 || c == 0x1680 || (0x2000 ≤ c && c ≤ 0x200A) ||
  c == 0x2028 || c == 0x2029 || c == 0x202F || c == 0x205F || c == 0x3000

/-- strict UTF-8 decoding (what `read_to_string` accepts): scalar values, or none -/
def utf8DecodeStrict : Nat → Bytes → Option (List Nat)
  | 0, _ => none
  | _ + 1, [] => some []
  | fuel + 1, b :: r =>
    let n := b.toNat
    let cont (x : UInt8) : Bool := x.toNat / 64 = 2
    if n < 0x80 then (utf8DecodeStrict fuel r).map (n :: ·)
    else if 0xC2 ≤ n ∧ n ≤ 0xDF then
      match r with
      | c :: r' => if cont c then (utf8DecodeStrict fuel r').map (((n % 32) * 64 + c.toNat % 64) :: ·) else none
      | _ => none
    else if 0xE0 ≤ n ∧ n ≤ 0xEF then
      match r with
      | c :: d :: r' =>
        let v := (n % 16) * 4096 + (c.toNat % 64) * 64 + d.toNat % 64
        if cont c ∧ cont d ∧ v ≥ 0x800 ∧ ¬ (0xD800 ≤ v ∧ v ≤ 0xDFFF) then (utf8DecodeStrict fuel r').map (v :: ·) else none
      | _ => none
    else if 0xF0 ≤ n ∧ n ≤ 0xF4 then
      match r with
      | c :: d :: e :: r' =>
        let v := (n % 8) * 262144 + (c.toNat % 64) * 4096 + (d.toNat % 64) * 64 + e.toNat % 64
        if cont c ∧ cont d ∧ cont e ∧ v ≥ 0x10000 ∧ v ≤ 0x10FFFF then (utf8DecodeStrict fuel r').map (v :: ·) else none
      | _ => none
    else none

def utf8Strict (b : Bytes) : Option (List Nat) := utf8DecodeStrict (b.length + 1) b

def hexVal (c : Nat) : Option Nat :=
  if 48 ≤ c ∧ c ≤ 57 then some (c - 48) else if 97 ≤ c ∧ c ≤ 102 then some (c - 87)
  else if 65 ≤ c ∧ c ≤ 70 then some (c - 55) else none

/-- one pair of `read_hex_bytes`: both characters must be ASCII hex digits (the assertion in front
    of `u8::from_str_radix(pair, 16)`, which alone would also take a leading `+`) -/
def hexPair (a b : Nat) : Option Nat :=
  match hexVal a, hexVal b with
  | some x, some y => some (x * 16 + y)
  | _, _ => none

def hexPairs : List Nat → Option Bytes
  | [] => some []
  | [_] => none
  | a :: b :: r =>
    match hexPair a b, hexPairs r with
    | some v, some rest => some (u8 v :: rest)
    | _, _ => none

/-- `read_hex_bytes` on the scalar values of the file's text: `none` = panic (odd length, a
    non-hex pair, or a non-ASCII character — byte-indexed slicing of the string) -/
def readHexBytes (chars : List Nat) : Option Bytes :=
  let hexs := chars.filter (fun c => !isRustWhitespace c)
  if hexs.any (· ≥ 128) then none else hexPairs hexs

/-- `validate_hex_file(..).is_ok()` on an existing file's bytes -/
def hexFileValid (content : Bytes) : Bool :=
  match utf8Strict content with
  | none => false
  | some chars =>
    let hexs := chars.filter (fun c => !isRustWhitespace c)
    !hexs.isEmpty && hexs.length % 2 == 0 && hexs.all (fun c => (hexVal c).isSome)

/-- the `info` top-level walk: (type bytes, size, offset) per listed box; a final entry with
    `invalid = true` when a box size exceeds the file; stops at size 0. -/
structure InfoEntry where
  typ : Bytes
  size : Nat
  offset : Nat
  invalid : Bool
deriving Repr, DecidableEq

def infoWalk : Nat → Bytes → Nat → List InfoEntry
  | 0, _, _ => []
  | fuel + 1, buf, off =>
    if off + 8 > buf.length then [] else
    match readU32 (buf.drop off) with
    | none => []
    | some (size, _) =>
      let typ := (buf.drop (off + 4)).take 4
      if size = 0 then [] else
      if off + size > buf.length then [⟨typ, size, off, true⟩] else
      ⟨typ, size, off, false⟩ :: infoWalk fuel buf (off + size)

def infoBoxes (buf : Bytes) : List InfoEntry := infoWalk (buf.length + 1) buf 0

end Muxide
