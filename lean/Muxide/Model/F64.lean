/-
  Muxide.Model.F64 — a soft model of the IEEE-754 binary64 operations the API performs on
  timestamps: classification, comparison, `* 90000.0`, `round()`, `as u64` (saturating),
  `u32/u64 as f64`, `/`, `+`. Doubles are decoded from their bit pattern into ± m·2^e and every
  arithmetic result is the round-to-nearest-even of the exact rational. Lean's opaque `Float`
  is never used. This module is *modelled, not verified* against the FPU; its agreement with the
  hardware is part of the correspondence run.
-/
namespace Muxide

inductive F64 where
  | nan
  | inf (neg : Bool)
  | fin (neg : Bool) (m : Nat) (e : Int)
deriving Repr, DecidableEq

namespace F64

def ofBits (n : Nat) : F64 :=
  let s := n / 2^63 % 2 == 1
  let ex : Nat := n / 2^52 % 2^11
  let fr : Nat := n % 2^52
  if ex == 2047 then (if fr == 0 then inf s else nan)
  else if ex == 0 then fin s fr (-1074)
  else fin s (2^52 + fr) ((ex : Int) - 1075)

def toBits : F64 → Nat
  | nan => 0x7ff8000000000000
  | inf s => (if s then 2^63 else 0) + 2047 * 2^52
  | fin s m e =>
    let sb := if s then 2^63 else 0
    if m < 2^52 then sb + m else sb + (e + 1075).toNat * 2^52 + (m - 2^52)

def zero : F64 := fin false 0 (-1074)

def isFinite : F64 → Bool
  | fin _ _ _ => true
  | _ => false

def isZero : F64 → Bool
  | fin _ 0 _ => true
  | _ => false

/-- exact value of a finite double as a fraction num/den (sign separately) -/
def frac : Nat → Int → Nat × Nat
  | m, e => if e ≥ 0 then (m * 2^e.toNat, 1) else (m, 2^(-e).toNat)

/-- signed numerator over a denominator -/
def toRat : F64 → Int × Nat
  | fin s m e => let (n, d) := frac m e; (if s then -(n : Int) else n, d)
  | _ => (0, 1)

/-- `x < y` (IEEE: false if either is NaN) -/
def lt (x y : F64) : Bool :=
  match x, y with
  | nan, _ => false
  | _, nan => false
  | inf sx, inf sy => sx && !sy
  | inf sx, fin _ _ _ => sx
  | fin _ _ _, inf sy => !sy
  | fin _ _ _, fin _ _ _ =>
    let (a, b) := toRat x
    let (c, d) := toRat y
    a * d < c * b

def eq (x y : F64) : Bool :=
  match x, y with
  | nan, _ => false
  | _, nan => false
  | inf sx, inf sy => sx == sy
  | fin _ _ _, fin _ _ _ =>
    let (a, b) := toRat x
    let (c, d) := toRat y
    a * d == c * b
  | _, _ => false

def le (x y : F64) : Bool := lt x y || eq x y

/-- `x < 0.0` -/
def isNeg (x : F64) : Bool := lt x zero

/-- round-to-nearest-even of the non-negative rational n/d (d > 0) with sign `neg` -/
def roundPos (neg : Bool) (n d : Nat) : F64 :=
  if n == 0 then fin neg 0 (-1074) else
  let ln := Nat.log2 n
  let ld := Nat.log2 d
  let e0 : Int := (ln : Int) - (ld : Int) - 52
  let scale (e : Int) : Nat × Nat := if e ≥ 0 then (n, d * 2^e.toNat) else (n * 2^(-e).toNat, d)
  let e1 := let (a, b) := scale e0; if a / b ≥ 2^53 then e0 + 1 else if a / b < 2^52 then e0 - 1 else e0
  let e := if e1 < -1074 then -1074 else e1
  let (a, b) := scale e
  let q := a / b
  let r := a % b
  let q' := if 2 * r > b then q + 1 else if 2 * r == b then (if q % 2 == 1 then q + 1 else q) else q
  let (m, e) := if q' ≥ 2^53 then (q' / 2, e + 1) else (q', e)
  if e > 971 then inf neg else fin neg m e

/-- `u32 as f64` / `u64 as f64` -/
def ofNat (n : Nat) : F64 := roundPos false n 1

def mulNat (x : F64) (k : Nat) : F64 :=
  match x with
  | fin s m e => let (n, d) := frac m e; roundPos s (n * k) d
  | o => o

def div (x y : F64) : F64 :=
  match x, y with
  | nan, _ => nan
  | _, nan => nan
  | inf _, inf _ => nan
  | inf s, fin s' _ _ => inf (s != s')
  | fin s _ _, inf s' => fin (s != s') 0 (-1074)
  | fin s m e, fin s' m' e' =>
    if m' == 0 then (if m == 0 then nan else inf (s != s')) else
    let (a, b) := frac m e
    let (c, d) := frac m' e'
    roundPos (s != s') (a * d) (b * c)

def add (x y : F64) : F64 :=
  match x, y with
  | nan, _ => nan
  | _, nan => nan
  | inf s, inf s' => if s == s' then inf s else nan
  | inf s, _ => inf s
  | _, inf s => inf s
  | fin s m e, fin s' m' e' =>
    let (a, b) := toRat (fin s m e)
    let (c, d) := toRat (fin s' m' e')
    let num : Int := a * d + c * b
    if num == 0 then fin (s && s') 0 (-1074)
    else roundPos (num < 0) num.natAbs (b * d)

/-- `f64::round` (half away from zero) followed by `as u64` (saturating, NaN → 0) -/
def roundToU64 (x : F64) : Nat :=
  match x with
  | nan => 0
  | inf s => if s then 0 else 2^64 - 1
  | fin s m e =>
    if s then 0 else
    let v := if e ≥ 0 then m * 2^e.toNat else (m * 2 + 2^(-e).toNat) / (2 * 2^(-e).toNat)
    min v (2^64 - 1)

/-- `(secs * 90000.0).round() as u64` -/
def ticks (x : F64) : Nat := roundToU64 (mulNat x 90000)

end F64
end Muxide
