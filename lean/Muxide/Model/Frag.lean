import Muxide.Model.Mp4
/-
  Muxide.Model.Frag — `FragmentedMuxer` of src/fragmented.rs: queue, flush → moof+mdat,
  sequence counter, base-decode-time estimate, cached init segment, and its box builders.
-/
namespace Muxide
open Box

structure FragConfig where
  width : Nat
  height : Nat
  timescale : Nat
  fragDurMs : Nat
  sps : Bytes
  pps : Bytes
  vps : Option Bytes
  av1 : Option Bytes
  vp9 : Option Vp9Config
deriving Repr, DecidableEq

structure FSample where
  pts : Nat
  dts : Nat
  data : Bytes
  sync : Bool
deriving Repr, DecidableEq

structure Frag where
  cfg : FragConfig
  samples : List FSample := []
  seq : Nat := 1
  base : Nat := 0
  initCache : Option Bytes := none
  lastDts : Option Nat := none
deriving Repr, DecidableEq

/-! ### init segment -/
def fFtyp : Box := leaf "ftyp" (ascii "iso5" ++ u32be 0 ++ ascii "iso5" ++ ascii "iso6" ++ ascii "mp41")

def fMvhd (timescale : Nat) : Box :=
  leaf "mvhd" (u32be 0 ++ u32be 0 ++ u32be 0 ++ u32be timescale ++ u32be 0 ++ u32be 0x00010000 ++
    u16be 0x0100 ++ zeros 10 ++ u32be 0x00010000 ++ zeros 12 ++ u32be 0x00010000 ++ zeros 12 ++
    u32be 0x40000000 ++ zeros 24 ++ u32be 2)

def fTrex : Box := leaf "trex" (u32be 0 ++ u32be 1 ++ u32be 1 ++ u32be 0 ++ u32be 0 ++ u32be 0)
def fMvex : Box := node "mvex" [] [fTrex]

def fTkhd (c : FragConfig) : Box :=
  leaf "tkhd" (u32be 3 ++ u32be 0 ++ u32be 0 ++ u32be 1 ++ u32be 0 ++ u32be 0 ++ zeros 8 ++
    u16be 0 ++ u16be 0 ++ u16be 0 ++ u16be 0 ++
    u32be 0x00010000 ++ zeros 12 ++ u32be 0x00010000 ++ zeros 12 ++ u32be 0x40000000 ++
    u32be (c.width * 2^16) ++ u32be (c.height * 2^16))

def fVmhd : Box := leaf "vmhd" (u32be 1 ++ zeros 8)
def fDinf : Box := node "dinf" [] [node "dref" (u32be 0 ++ u32be 1) [leaf "url " [0, 0, 0, 1]]]

def fEntryPrefix (c : FragConfig) : Bytes :=
  zeros 6 ++ u16be 1 ++ u16be 0 ++ u16be 0 ++ zeros 12 ++ u16be c.width ++ u16be c.height ++
  u32be 0x00480000 ++ u32be 0x00480000 ++ u32be 0 ++ u16be 1 ++ zeros 32 ++ u16be 0x0018 ++ u16be 0xffff

def fAvcC (c : FragConfig) : Box :=
  leaf "avcC" ([1, c.sps.getD 1 0x42, c.sps.getD 2 0x00, c.sps.getD 3 0x1e, 0xff, 0xe1] ++
    u16be c.sps.length ++ c.sps ++ [1] ++ u16be c.pps.length ++ c.pps)

def fHvcC (c : FragConfig) : Box :=
  let numArrays : UInt8 := if c.vps.isSome then 3 else 2
  leaf "hvcC" ([1, c.sps.getD 3 1, 0x60, 0, 0, 0, 0x90, 0, 0, 0, 0, 0, c.sps.getD 14 93, 0xf0, 0x00, 0xfc, 0xfd, 0xf8, 0xf8,
      0, 0, 0x07, numArrays] ++
    (match c.vps with
     | some v => [0xA0] ++ u16be 1 ++ u16be v.length ++ v
     | none => []) ++
    [0xA1] ++ u16be 1 ++ u16be c.sps.length ++ c.sps ++
    [0xA2] ++ u16be 1 ++ u16be c.pps.length ++ c.pps)

/-- `Av1Config::default()` with the given sequence header bytes -/
def av1Default (sh : Bytes) : Av1Config := ⟨sh, 0, 0, 0, false, false, false, true, true, 0⟩

def fAv1C (c : FragConfig) : Box :=
  let sh := c.av1.getD []
  let parsed := match extractAv1 sh with | .some k => k | .none => av1Default []
  leaf "av1C" (av1CRecord { parsed with sequenceHeader := sh })

def fVpcC (c : FragConfig) : Box :=
  leaf "vpcC" (match c.vp9 with
    | some v => vpcCRecord v
    | none => [])

def fSampleEntry (c : FragConfig) : Box :=
  if c.av1.isSome then node "av01" (fEntryPrefix c) [fAv1C c]
  else if c.vp9.isSome then node "vp09" (fEntryPrefix c) [fVpcC c]
  else if c.vps.isSome then node "hvc1" (fEntryPrefix c) [fHvcC c]
  else node "avc1" (fEntryPrefix c) [fAvcC c]

def fStbl (c : FragConfig) : Box :=
  node "stbl" [] [node "stsd" (u32be 0 ++ u32be 1) [fSampleEntry c],
    leaf "stts" (u32be 0 ++ u32be 0), leaf "stsc" (u32be 0 ++ u32be 0),
    leaf "stsz" (u32be 0 ++ u32be 0 ++ u32be 0), leaf "stco" (u32be 0 ++ u32be 0)]

def fTrak (c : FragConfig) : Box :=
  node "trak" [] [fTkhd c,
    node "mdia" [] [bMdhd c.timescale 0 none, bHdlr "vide" "VideoHandler",
      node "minf" [] [fVmhd, fDinf, fStbl c]]]

def fMoov (c : FragConfig) : Box := node "moov" [] [fMvhd c.timescale, fMvex, fTrak c]

def buildInit (c : FragConfig) : Bytes := fFtyp.ser ++ (fMoov c).ser

/-! ### media segment -/
def fMfhd (seq : Nat) : Box := leaf "mfhd" (u32be 0 ++ u32be seq)
def fTfhd : Box := leaf "tfhd" (u32be 0x00020000 ++ u32be 1)
def fTfdt (base : Nat) : Box := leaf "tfdt" (u32be 0x01000000 ++ u64be base)

/-- `(pts as i64).wrapping_sub(dts as i64) as i32` -/
def ctsWrap (pts dts : Nat) : Int := toI32 ((((pts : Int) - (dts : Int)) % (2^32 : Int)).toNat)

/-- per-sample duration of `build_trun` -/
def trunDuration (samples : List FSample) (i : Nat) : Nat :=
  let d (j : Nat) : Nat := (samples[j]?.map (·.dts)).getD 0
  if i + 1 < samples.length then d (i + 1) - d i
  else if i > 0 then d i - d (i - 1)
  else 3000

def trunRow (samples : List FSample) (i : Nat) (s : FSample) : Bytes :=
  u32be (trunDuration samples i) ++ u32be s.data.length ++
  u32be (if s.sync then 0x02000000 else 0x01010000) ++ i32be (ctsWrap s.pts s.dts)

def fTrun (samples : List FSample) (dataOffset : Nat) : Box :=
  leaf "trun" (u32be (0x01000000 + 0xF01) ++ u32be samples.length ++ u32be dataOffset ++
    (List.zip (List.range samples.length) samples).flatMap fun (i, s) => trunRow samples i s)

def fMoof (samples : List FSample) (seq base dataOffset : Nat) : Box :=
  node "moof" [] [fMfhd seq, node "traf" [] [fTfhd, fTfdt base, fTrun samples dataOffset]]

/-- `build_media_segment` -/
def buildSegment (samples : List FSample) (seq base : Nat) : Bytes :=
  let payloadSize := (samples.map (·.data.length)).sum
  let moofSize := (fMoof samples seq base 0).ser.length % 2^32
  let dataOffset := moofSize + 8
  (fMoof samples seq base dataOffset).ser ++ u32be (8 + payloadSize) ++ ascii "mdat" ++
    samples.flatMap (·.data)

inductive FReply where
  | ok | errNonMonotonic | none | seg (b : Bytes) | bool (b : Bool) | num (n : Nat) | init (b : Bytes) | panic
deriving Repr, DecidableEq

def Frag.init (f : Frag) : Frag × FReply :=
  match f.initCache with
  | some b => (f, .init b)
  | none => let b := buildInit f.cfg; ({ f with initCache := some b }, .init b)

def Frag.write (f : Frag) (pts dts : Nat) (data : Bytes) (sync : Bool) : Frag × FReply :=
  if (match f.lastDts with | some l => decide (dts < l) | none => false) then (f, .errNonMonotonic) else
  ({ f with lastDts := some dts, samples := f.samples ++ [⟨pts, dts, data, sync⟩] }, .ok)

/-- `flush_segment`: the segment's base decode time is its first sample's DTS -/
def Frag.flush (f : Frag) : Frag × FReply :=
  match f.samples with
  | [] => (f, .none)
  | first :: _ =>
    let seg := buildSegment f.samples f.seq first.dts
    ({ f with samples := [], seq := (f.seq + 1) % 2^32, base := first.dts }, .seg seg)

/-- `current_fragment_duration_ms` (128-bit product, zero timescale → 0, saturating to u64) -/
def Frag.spanMs (f : Frag) : Nat :=
  if f.samples.length < 2 then 0 else
  let first := (f.samples.head?.map (·.dts)).getD 0
  let last := (f.samples.getLast?.map (·.dts)).getD 0
  let ticks := last - first
  if f.cfg.timescale = 0 then 0 else min (ticks * 1000 / f.cfg.timescale) u64Max

def Frag.ready (f : Frag) : FReply :=
  if f.samples.length < 2 then .bool false else .bool (f.spanMs ≥ f.cfg.fragDurMs)

def Frag.durMs (f : Frag) : FReply := .num f.spanMs

end Muxide
