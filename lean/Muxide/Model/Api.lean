import Muxide.Model.Mp4
import Muxide.Model.F64
import Muxide.Model.Sink
/-
  Muxide.Model.Api — `MuxerBuilder::build` and `Muxer<W>` of src/api.rs as a state machine.
-/
namespace Muxide

inductive MErr where
  | missingVideoConfig | io | alreadyFinished
  | negativeVideoPts | negativeVideoDts | invalidVideoPts | invalidVideoDts
  | negativeAudioPts | invalidAudioPts | audioNotConfigured | emptyAudioFrame | emptyVideoFrame
  | nonIncreasingVideoPts | decreasingAudioPts | audioBeforeFirstVideo
  | firstVideoFrameMustBeKeyframe | firstVideoFrameMissingSpsPps
  | firstAv1FrameMissingSequenceHeader | firstVp9FrameMissingSequenceHeader
  | invalidAdts | invalidAdtsDetailed | invalidOpusPacket | nonIncreasingDts
deriving Repr, DecidableEq

def MErr.name : MErr → String
  | .missingVideoConfig => "MissingVideoConfig" | .io => "Io" | .alreadyFinished => "AlreadyFinished"
  | .negativeVideoPts => "NegativeVideoPts" | .negativeVideoDts => "NegativeVideoDts"
  | .invalidVideoPts => "InvalidVideoPts" | .invalidVideoDts => "InvalidVideoDts"
  | .negativeAudioPts => "NegativeAudioPts" | .invalidAudioPts => "InvalidAudioPts"
  | .audioNotConfigured => "AudioNotConfigured" | .emptyAudioFrame => "EmptyAudioFrame"
  | .emptyVideoFrame => "EmptyVideoFrame" | .nonIncreasingVideoPts => "NonIncreasingVideoPts"
  | .decreasingAudioPts => "DecreasingAudioPts" | .audioBeforeFirstVideo => "AudioBeforeFirstVideo"
  | .firstVideoFrameMustBeKeyframe => "FirstVideoFrameMustBeKeyframe"
  | .firstVideoFrameMissingSpsPps => "FirstVideoFrameMissingSpsPps"
  | .firstAv1FrameMissingSequenceHeader => "FirstAv1FrameMissingSequenceHeader"
  | .firstVp9FrameMissingSequenceHeader => "FirstVp9FrameMissingSequenceHeader"
  | .invalidAdts => "InvalidAdts" | .invalidAdtsDetailed => "InvalidAdtsDetailed"
  | .invalidOpusPacket => "InvalidOpusPacket" | .nonIncreasingDts => "NonIncreasingDts"

structure Stats where
  video : Nat
  audio : Nat
  duration : F64
  bytes : Nat
deriving Repr, DecidableEq

/-- reply of one API call -/
inductive Reply where
  | ok
  | err (e : MErr) (frameIndex : Option Nat)
  | stats (s : Stats)
  | panic
deriving Repr, DecidableEq

structure Config where
  codec : VCodec
  width : Nat
  height : Nat
  audio : Option AudioTrack     -- as passed to `.audio(..)`; codec `none` is dropped by `build`
  md : Option Metadata
  fast : Bool
deriving Repr, DecidableEq

structure Muxer where
  w : Writer
  width : Nat
  height : Nat
  audioTrack : Option AudioTrack
  md : Option Metadata
  fast : Bool
  firstVideoPts : Option F64 := none
  lastVideoPts : Option F64 := none
  lastVideoDts : Option F64 := none
  lastAudioPts : Option F64 := none
  vCount : Nat := 0
  aCount : Nat := 0
  finished : Bool := false
  curV : F64 := F64.zero
  curA : F64 := F64.zero
deriving Repr, DecidableEq

/-- `MuxerBuilder::build` (video is always configured in this model; the
    `MissingVideoConfig` branch is covered by the correspondence run only) -/
def build (c : Config) : Muxer :=
  let at_ := c.audio.bind fun a => if a.codec = .none then none else some a
  { w := { codec := c.codec, audio := at_ }, width := c.width, height := c.height,
    audioTrack := at_, md := c.md, fast := c.fast }

/-- `MuxerBuilder::build` including its only configuration check besides the missing video
    configuration: Opus with more than 255 channels cannot be described by dOps (`none` = the
    `MuxerError::Io(InvalidInput)` result) -/
def buildChecked (c : Config) : Option Muxer :=
  match c.audio with
  | some a => if a.codec = .opus ∧ a.channels > 255 then none else some (build c)
  | none => some (build c)

/-- `convert_mp4_error` -/
def convertErr (e : WErr) (idx : Nat) : Reply :=
  match e with
  | .nonIncreasingTimestamp => .err .nonIncreasingVideoPts (some idx)
  | .firstFrameMustBeKeyframe => .err .firstVideoFrameMustBeKeyframe none
  | .firstFrameMissingSpsPps => .err .firstVideoFrameMissingSpsPps none
  | .firstFrameMissingSequenceHeader => .err .firstAv1FrameMissingSequenceHeader none
  | .firstFrameMissingVp9Config => .err .firstVp9FrameMissingSequenceHeader none
  | .invalidAdts _ => .err .invalidAdtsDetailed (some idx)
  | .invalidOpusPacket => .err .invalidOpusPacket (some idx)
  | .audioNotEnabled => .err .audioNotConfigured none
  | .durationOverflow => .err .io none
  | .alreadyFinalized => .err .alreadyFinished none

def wresReply (r : WRes) (idx : Nat) : Reply :=
  match r with
  | .ok => .ok
  | .err e => convertErr e idx
  | .panic => .panic

/-- `ticks_representable`: `(secs * 90000.0).round() < u64::MAX as f64` (= 2^64) -/
def ticksRepresentable (x : F64) : Bool :=
  match F64.mulNat x 90000 with
  | .fin false m e => (if e ≥ 0 then m * 2^e.toNat else (m * 2 + 2^(-e).toNat) / (2 * 2^(-e).toNat)) < 2^64
  | .fin true _ _ => true
  | _ => false

/-- `write_video` -/
def Muxer.writeVideo (m : Muxer) (pts : F64) (data : Bytes) (key : Bool) : Muxer × Reply :=
  let idx := m.vCount
  if data = [] then (m, .err .emptyVideoFrame (some idx)) else
  if ¬ pts.isFinite then (m, .err .invalidVideoPts (some idx)) else
  if pts.isNeg then (m, .err .negativeVideoPts (some idx)) else
  if ¬ ticksRepresentable pts then (m, .err .invalidVideoPts (some idx)) else
  if (match m.lastVideoPts with | some prev => F64.le pts prev | none => false) then
    (m, .err .nonIncreasingVideoPts (some idx)) else
  let t := pts.ticks
  let (w', r) := m.w.writeVideo t t data key
  match r with
  | .ok => ({ m with w := w', firstVideoPts := some (m.firstVideoPts.getD pts), lastVideoPts := some pts, vCount := m.vCount + 1 }, .ok)
  | r => ({ m with w := w' }, wresReply r idx)

/-- `write_video_with_dts` -/
def Muxer.writeVideoDts (m : Muxer) (pts dts : F64) (data : Bytes) (key : Bool) : Muxer × Reply :=
  if m.finished then (m, .err .alreadyFinished none) else
  let idx := m.vCount
  if data = [] then (m, .err .emptyVideoFrame (some idx)) else
  if ¬ pts.isFinite then (m, .err .invalidVideoPts (some idx)) else
  if pts.isNeg then (m, .err .negativeVideoPts (some idx)) else
  if ¬ ticksRepresentable pts then (m, .err .invalidVideoPts (some idx)) else
  if ¬ dts.isFinite then (m, .err .invalidVideoDts (some idx)) else
  if dts.isNeg then (m, .err .negativeVideoDts (some idx)) else
  if ¬ ticksRepresentable dts then (m, .err .invalidVideoDts (some idx)) else
  if (match m.lastVideoDts with | some prev => F64.le dts prev | none => false) then
    (m, .err .nonIncreasingDts (some idx)) else
  let tp := pts.ticks
  let td := dts.ticks
  let (w', r) := m.w.writeVideo tp td data key
  match r with
  | .ok => ({ m with w := w', firstVideoPts := some (m.firstVideoPts.getD pts), lastVideoPts := some pts, lastVideoDts := some dts, vCount := m.vCount + 1 }, .ok)
  | r => ({ m with w := w' }, wresReply r idx)

/-- `write_audio` -/
def Muxer.writeAudio (m : Muxer) (pts : F64) (data : Bytes) : Muxer × Reply :=
  if m.finished then (m, .err .alreadyFinished none) else
  if m.audioTrack.isNone then (m, .err .audioNotConfigured none) else
  let idx := m.aCount
  if ¬ pts.isFinite then (m, .err .invalidAudioPts (some idx)) else
  if pts.isNeg then (m, .err .negativeAudioPts (some idx)) else
  if ¬ ticksRepresentable pts then (m, .err .invalidAudioPts (some idx)) else
  if data = [] then (m, .err .emptyAudioFrame (some idx)) else
  if (match m.lastAudioPts with | some prev => F64.lt pts prev | none => false) then
    (m, .err .decreasingAudioPts (some idx)) else
  match m.firstVideoPts with
  | none => (m, .err .audioBeforeFirstVideo none)
  | some fv =>
    if F64.lt pts fv then (m, .err .audioBeforeFirstVideo none) else
    let (w', r) := m.w.writeAudio pts.ticks data
    match r with
    | .ok => ({ m with w := w', lastAudioPts := some pts, aCount := m.aCount + 1 }, .ok)
    | r => ({ m with w := w' }, wresReply r idx)

/-- `Muxer::is_keyframe` (private helper of `encode_video`) -/
def Muxer.isKeyframe (m : Muxer) (data : Bytes) : Bool :=
  if data = [] then false else
  match m.w.codec with
  | .h264 => (nals data).any fun n => n ≠ [] && h264NalType n = 5
  | .h265 => (nals data).any fun n => n ≠ [] && decide (19 ≤ hevcNalType n ∧ hevcNalType n ≤ 21)
  | .av1 => m.vCount = 0
  | .vp9 => if data.length < 3 then false else (match isVp9Keyframe data with | .ok b => b | _ => false)

/-- `encode_video` -/
def Muxer.encodeVideo (m : Muxer) (data : Bytes) (durationMs : Nat) : Muxer × Reply :=
  let (m', r) := m.writeVideo m.curV data (m.isKeyframe data)
  match r with
  | .ok => ({ m' with curV := F64.add m'.curV (F64.div (F64.ofNat durationMs) (F64.ofNat 1000)) }, .ok)
  | r => (m', r)

/-- `encode_audio` -/
def Muxer.encodeAudio (m : Muxer) (data : Bytes) (samples : Nat) : Muxer × Reply :=
  match m.audioTrack with
  | none => (m, .err .audioNotConfigured none)
  | some a =>
    let (m', r) := m.writeAudio m.curA data
    match r with
    | .ok => ({ m' with curA := F64.add m'.curA (F64.div (F64.ofNat samples) (F64.ofNat a.sampleRate)) }, .ok)
    | r => (m', r)

/-- the sink interaction of one `finalize`: given the chunks handed to `write_counted` in order,
    the outcome of the `write_all` sequence and the number of bytes *counted*. -/
abbrev Deliver := List Bytes → Except IoErr Unit × Nat

/-- a sink that accepts everything -/
def deliverAll : Deliver := fun cs => (.ok (), (cs.map (·.length)).sum)

/-- `finish_in_place_with_stats` -/
def Muxer.finishStats (m : Muxer) (deliver : Deliver := deliverAll) : Muxer × FinOut × Reply :=
  if m.finished then (m, ⟨[], .ok⟩, .err .alreadyFinished none) else
  let (w', out) := m.w.finalize m.width m.height m.md m.fast
  let (wr, cnt) := deliver out.chunks
  let w'' := { w' with bytesWritten := min (w'.bytesWritten + cnt) u64Max }
  let m1 := { m with w := w'' }
  match wr with
  | .error _ => (m1, out, .err .io none)
  | .ok () =>
    match out.res with
    | .panic => (m1, out, .panic)
    | .ioErr _ => (m1, out, .err .io none)
    | .ok =>
      let m2 := { m1 with finished := true }
      (m2, out, .stats ⟨w''.vsRev.length, w''.asRev.length,
          F64.div (F64.ofNat (w''.maxEndPts.getD 0)) (F64.ofNat 90000), w''.bytesWritten⟩)

/-- `finish_in_place` -/
def Muxer.finish (m : Muxer) (deliver : Deliver := deliverAll) : Muxer × FinOut × Reply :=
  match m.finishStats deliver with
  | (m', o, .stats _) => (m', o, .ok)
  | r => r

end Muxide
