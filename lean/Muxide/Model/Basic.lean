/-
  Muxide.Model.Basic — bytes and fixed-width big-endian integer encodings.

  Every Rust `as uN` / `to_be_bytes` is modelled on `Nat` with the wrap made explicit:
  `u16be n` writes `n % 2^16`, `u32be n` writes `n % 2^32`, … so that truncation is visible
  in the model and C16 can state "the argument was already in range".
-/
namespace Muxide

abbrev Bytes := List UInt8

@[inline] def u8 (n : Nat) : UInt8 := UInt8.ofNat n

def u16be (n : Nat) : Bytes := [u8 (n / 2^8 % 256), u8 (n % 256)]

def u32be (n : Nat) : Bytes :=
  [u8 (n / 2^24 % 256), u8 (n / 2^16 % 256), u8 (n / 2^8 % 256), u8 (n % 256)]

def u64be (n : Nat) : Bytes := u32be (n / 2^32) ++ u32be n

/-- two's-complement 32-bit encoding of an integer (Rust `x as i32` then `to_be_bytes`). -/
def i32be (z : Int) : Bytes := u32be (z % (2^32 : Int)).toNat

def zeros (n : Nat) : Bytes := List.replicate n 0

/-- ASCII bytes of a string literal (used only for four-character codes and fixed names). -/
def ascii (s : String) : Bytes := s.toList.map fun c => u8 c.toNat

def readU16 : Bytes → Option (Nat × Bytes)
  | a :: b :: rest => some (a.toNat * 2^8 + b.toNat, rest)
  | _ => none

def readU32 : Bytes → Option (Nat × Bytes)
  | a :: b :: c :: e :: rest =>
      some (a.toNat * 2^24 + b.toNat * 2^16 + c.toNat * 2^8 + e.toNat, rest)
  | _ => none

def readU64 (d : Bytes) : Option (Nat × Bytes) :=
  match readU32 d with
  | none => none
  | some (hi, r) =>
    match readU32 r with
    | none => none
    | some (lo, r') => some (hi * 2^32 + lo, r')

/-- signed reading of a 32-bit field -/
def toI32 (n : Nat) : Int := if n < 2^31 then (n : Int) else (n : Int) - 2^32

@[simp] theorem u16be_length (n : Nat) : (u16be n).length = 2 := rfl
@[simp] theorem u32be_length (n : Nat) : (u32be n).length = 4 := rfl
@[simp] theorem u64be_length (n : Nat) : (u64be n).length = 8 := rfl
@[simp] theorem i32be_length (z : Int) : (i32be z).length = 4 := rfl
@[simp] theorem zeros_length (n : Nat) : (zeros n).length = n := by simp [zeros]

end Muxide
