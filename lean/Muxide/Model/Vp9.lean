import Muxide.Model.Adts
/- Muxide.Model.Vp9 — src/codec/vp9.rs -/
namespace Muxide

structure Vp9Config where
  width : Nat
  height : Nat
  profile : Nat
  bitDepth : Nat
  colorSpace : Nat
  transfer : Nat
  matrix : Nat
  level : Nat
  fullRange : Nat
deriving Repr, DecidableEq

def vp9Marker (f : Bytes) : Bool := byteAt f 0 = 0x49 ∧ byteAt f 1 = 0x83 ∧ byteAt f 2 = 0x42

inductive Vp9KeyRes where | tooShort | badMarker | ok (b : Bool)
deriving Repr, DecidableEq

def isVp9Keyframe (f : Bytes) : Vp9KeyRes :=
  if f.length < 3 then .tooShort else
  if ¬ vp9Marker f then .badMarker else
  if f.length < 4 then .tooShort else
  let b := byteAt f 3
  if b / 32 % 2 ≠ 0 then .ok false else .ok (b / 16 % 2 = 0)

/-- `parse_vp9_var_uint`: little-endian base-128, value wraps into u32 (`<< shift` on u32),
    at most 5 bytes. Returns (value, new offset). -/
def vp9VarUint (d : Bytes) : Nat → Nat → Nat → Nat → Option (Nat × Nat)
  | 0, _, _, _ => none
  | fuel + 1, off, value, shift =>
    if off ≥ d.length then none else
    let b := byteAt d off
    let value' := (value + (b % 128) * 2^shift) % 2^32
    if b < 128 then some (value', off + 1)
    else if shift + 7 ≥ 32 then none
    else vp9VarUint d fuel (off + 1) value' (shift + 7)

def vp9ColorConfig (d : Bytes) (off : Nat) : Nat × Nat × Nat × Nat × Nat :=
  if off ≥ d.length then (8, 0, 0, 0, 0) else
  let b := byteAt d off
  let bitDepth := if b % 2 ≠ 0 then 10 else 8
  let cs := b / 2 % 8
  let tf := b / 16 % 8
  let mc := b / 128 % 2
  let fr := if cs ≠ 0 then (if off + 1 ≥ d.length then 0 else byteAt d (off + 1) % 2) else 0
  (bitDepth, cs, tf, mc, fr)

def extractVp9 (k : Bytes) : Option Vp9Config :=
  if k.length < 3 then none else
  if ¬ vp9Marker k then none else
  if k.length < 6 then none else
  let b := byteAt k 3
  let profile := b / 64 % 4
  if b / 32 % 2 ≠ 0 ∨ b / 16 % 2 ≠ 0 then none else
  let off0 := 5
  if profile ≥ 2 ∧ off0 + 1 ≥ k.length then none else
  let off1 := if profile ≥ 2 then off0 + 1 else off0
  match vp9VarUint k 6 off1 0 0 with
  | none => none
  | some (w, off2) =>
  match vp9VarUint k 6 off2 0 0 with
  | none => none
  | some (h, off3) =>
    let fin (rw rh off : Nat) : Option Vp9Config :=
      let (bd, cs, tf, mc, fr) := vp9ColorConfig k off
      some ⟨rw, rh, profile, bd, cs, tf, mc, 0, fr⟩
    if off3 + 1 < k.length then
      if byteAt k off3 % 16 / 4 ≠ 0 then
        match vp9VarUint k 6 (off3 + 1) 0 0 with
        | none => none
        | some (rw, off4) =>
        match vp9VarUint k 6 off4 0 0 with
        | none => none
        | some (rh, off5) => fin rw rh off5
      else fin w h off3
    else fin w h off3

def isValidVp9Frame (f : Bytes) : Bool := f.length ≥ 3 ∧ vp9Marker f

end Muxide
