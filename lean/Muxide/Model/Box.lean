import Muxide.Model.Basic
/-
  Muxide.Model.Box — ISO-BMFF box trees and their serialisation (`build_box` of
  src/muxer/mp4.rs:2315 and src/fragmented.rs:258: 32-bit size = 8 + payload, type, payload).
  A box is (type, fixed prefix bytes, child boxes); payload = prefix ++ children.
-/
namespace Muxide

inductive Box where
  | mk (typ : Bytes) (pre : Bytes) (kids : List Box)

namespace Box
def typ : Box → Bytes | mk t _ _ => t
def pre : Box → Bytes | mk _ p _ => p
def kids : Box → List Box | mk _ _ k => k

mutual
def size : Box → Nat
  | mk _ p ks => 8 + p.length + sizes ks
def sizes : List Box → Nat
  | [] => 0
  | b :: bs => size b + sizes bs
end

mutual
/-- `build_box(typ, payload)`: the size field is `(8 + payload.len()) as u32` -/
def ser : Box → Bytes
  | mk t p ks => u32be (8 + p.length + sizes ks) ++ t ++ p ++ sers ks
def sers : List Box → Bytes
  | [] => []
  | b :: bs => ser b ++ sers bs
end

/-- leaf box -/
def leaf (t : String) (payload : Bytes) : Box := mk (ascii t) payload []
def node (t : String) (pre : Bytes) (kids : List Box) : Box := mk (ascii t) pre kids
end Box

end Muxide
