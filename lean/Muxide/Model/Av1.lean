import Muxide.Model.Adts
/- Muxide.Model.Av1 — src/codec/av1.rs: LEB128, OBU header / iterator, bit reader,
   sequence-header parser, keyframe detection. -/
namespace Muxide

/-- `read_leb128`: at most 8 bytes; returns (value, bytes consumed). -/
def readLeb128Aux : Nat → Bytes → Nat → Nat → Nat → Option (Nat × Nat)
  | 0, _, _, _, _ => none
  | _ + 1, [], _, _, _ => none
  | fuel + 1, b :: rest, value, shift, i =>
    let value' := value + (b.toNat % 128) * 2^shift
    if b.toNat < 128 then some (value', i + 1)
    else readLeb128Aux fuel rest value' (shift + 7) (i + 1)

def readLeb128 (d : Bytes) : Option (Nat × Nat) := readLeb128Aux 8 d 0 0 0

structure ObuInfo where
  obuType : Nat
  hasExt : Bool
  headerSize : Nat
  payloadSize : Nat
deriving Repr, DecidableEq

def ObuInfo.totalSize (i : ObuInfo) : Nat := i.headerSize + i.payloadSize

def parseObuHeader (d : Bytes) : Option ObuInfo :=
  match d with
  | [] => none
  | hb :: _ =>
    let h := hb.toNat
    if h ≥ 128 then none else
    let ty := h / 8 % 16
    let ext := h / 4 % 2 = 1
    let hasSize := h / 2 % 2 = 1
    if ext ∧ d.length < 2 then none else
    let hs := if ext then 2 else 1
    if hasSize then
      if d.length ≤ hs then none else
      match readLeb128 (d.drop hs) with
      | none => none
      | some (size, n) => some ⟨ty, ext, hs + n, size⟩
    else some ⟨ty, ext, hs, d.length - hs⟩

/-- `ObuIter` collected: list of (info, obu bytes). -/
def obusAux : Nat → Bytes → List (ObuInfo × Bytes)
  | 0, _ => []
  | fuel + 1, d =>
    if d = [] then [] else
    match parseObuHeader d with
    | none => []
    | some info =>
      if info.totalSize > d.length then [] else
      (info, d.take info.totalSize) :: obusAux fuel (d.drop info.totalSize)

def obus (d : Bytes) : List (ObuInfo × Bytes) := obusAux (d.length + 1) d

/-! ### bit reader (MSB first) -/
abbrev Bits := List Bool

def byteBits (b : UInt8) : Bits :=
  let n := b.toNat
  [n / 128 % 2 = 1, n / 64 % 2 = 1, n / 32 % 2 = 1, n / 16 % 2 = 1,
   n / 8 % 2 = 1, n / 4 % 2 = 1, n / 2 % 2 = 1, n % 2 = 1]

def bitsOf (d : Bytes) : Bits := d.flatMap byteBits

def rbit : Bits → Option (Bool × Bits)
  | [] => none
  | b :: r => some (b, r)

def rbits : Nat → Bits → Option (Nat × Bits)
  | 0, r => some (0, r)
  | n + 1, r =>
    match rbit r with
    | none => none
    | some (b, r') =>
      match rbits n r' with
      | none => none
      | some (v, r'') => some ((if b then 2^n else 0) + v, r'')

def skipBits (n : Nat) (r : Bits) : Option Bits := if n ≤ r.length then some (r.drop n) else none

/-- `skip_uvlc`: count zeros up to the first one; more than 32 zeros → None; then skip that many value
    bits — none after exactly 32 zeros (value 2^32 − 1; repaired in /repo, see DESIGN 10.3). -/
def skipUvlcAux : Nat → Bits → Nat → Option Bits
  | 0, _, _ => none
  | fuel + 1, r, lz =>
    match rbit r with
    | none => none
    | some (true, r') => if lz > 0 ∧ lz < 32 then skipBits lz r' else some r'
    | some (false, r') => if lz + 1 > 32 then none else skipUvlcAux fuel r' (lz + 1)

def skipUvlc (r : Bits) : Option Bits := skipUvlcAux 34 r 0

structure Av1Config where
  sequenceHeader : Bytes
  seqProfile : Nat
  seqLevelIdx : Nat
  seqTier : Nat
  highBitdepth : Bool
  twelveBit : Bool
  monochrome : Bool
  subX : Bool
  subY : Bool
  csp : Nat
deriving Repr, DecidableEq

structure ColorCfg where
  highBitdepth : Bool
  twelveBit : Bool
  monochrome : Bool
  subX : Bool
  subY : Bool
  csp : Nat
deriving Repr, DecidableEq

def b2n (b : Bool) : Nat := if b then 1 else 0

/-- `parse_color_config` -/
def parseColorConfig (r : Bits) (profile : Nat) : Option (ColorCfg × Bits) := do
  let (hbd, r) ← rbit r
  let (tw, r) ← if profile = 2 ∧ hbd then rbit r else some (false, r)
  let bitDepth := if profile = 2 ∧ tw then 12 else if hbd then 10 else 8
  let (mono, r) ← if profile = 1 then some (false, r) else rbit r
  let (cdp, r) ← rbit r
  let ((cp, tc, mc), r) ← if cdp then do
      let (cp, r) ← rbits 8 r
      let (tc, r) ← rbits 8 r
      let (mc, r) ← rbits 8 r
      some ((cp, tc, mc), r)
    else some ((2, 2, 2), r)
  let ((sx, sy), r) ←
    if mono then do
      let (_, r) ← rbit r
      some ((true, true), r)
    else if cp = 1 ∧ tc = 13 ∧ mc = 0 then some ((false, false), r)
    else do
      let (_, r) ← rbit r
      if profile = 0 then some ((true, true), r)
      else if profile = 1 then some ((false, false), r)
      else if bitDepth = 12 then do
        let (sx, r) ← rbit r
        let (sy, r) ← if sx then rbit r else some (false, r)
        some ((sx, sy), r)
      else some ((true, false), r)
  let (csp, r) ← if sx ∧ sy then rbits 2 r else some (0, r)
  let r ← if ¬ mono then (rbit r).map (·.2) else some r
  some (⟨hbd, tw, mono, sx, sy, csp⟩, r)

/-- one iteration of the operating-point loop; returns (level, tier, rest) -/
def parseOpPoint (r : Bits) (dmip : Bool) (bdl : Nat) (iddp : Bool) : Option (Nat × Nat × Bits) := do
  let r ← skipBits 12 r
  let (lvl, r) ← rbits 5 r
  let (tier, r) ← if lvl > 7 then (rbit r).map (fun (b, r) => (b2n b, r)) else some (0, r)
  let r ← if dmip then do
      let (p, r) ← rbit r
      if p then do
        let r ← skipBits bdl r
        let r ← skipBits bdl r
        let (_, r) ← rbit r
        some r
      else some r
    else some r
  let r ← if iddp then do
      let (p, r) ← rbit r
      if p then skipBits 4 r else some r
    else some r
  some (lvl, tier, r)

def parseOpPoints : Nat → Nat → Bits → Bool → Nat → Bool → Nat → Nat → Option (Nat × Nat × Bits)
  | 0, _, r, _, _, _, l0, t0 => some (l0, t0, r)
  | n + 1, i, r, dmip, bdl, iddp, l0, t0 =>
    match parseOpPoint r dmip bdl iddp with
    | none => none
    | some (lvl, tier, r') =>
      let (l0', t0') := if i = 0 then (lvl, tier) else (l0, t0)
      parseOpPoints n (i + 1) r' dmip bdl iddp l0' t0'

inductive Av1Res where
  | none
  | some (c : Av1Config)
deriving Repr, DecidableEq

/-- `parse_sequence_header(obu_data, header_size)` as on the pinned tree, parameterised by
    `fixedDmi`: `false` = pinned code (decoder_model_info_present_flag read unconditionally),
    `true` = the AV1 syntax (read only inside `if timing_info_present_flag`). -/
def parseSeqHdrBits (fixedDmi : Bool) (r : Bits) : Option (Nat × Nat × Nat × ColorCfg) := do
  let (profile, r) ← rbits 3 r
  let (_, r) ← rbit r
  let (reduced, r) ← rbit r
  let ((lvl, tier), r) ← if reduced then do
      let (l, r) ← rbits 5 r
      some ((l, 0), r)
    else do
      let (tip, r) ← rbit r
      let r ← if tip then do
          let r ← skipBits 32 r
          let r ← skipBits 32 r
          let (epi, r) ← rbit r
          if epi then skipUvlc r else some r
        else some r
      let (dmip, r) ← if fixedDmi ∧ ¬ tip then some (false, r) else rbit r
      let (bdl, r) ← if dmip then do
          let (x, r) ← rbits 5 r
          let r ← skipBits 32 r
          let r ← skipBits 5 r
          let r ← skipBits 5 r
          some (x + 1, r)
        else some (0, r)
      let (iddp, r) ← rbit r
      let (cnt, r) ← rbits 5 r
      let (l0, t0, r) ← parseOpPoints (cnt + 1) 0 r dmip bdl iddp 0 0
      some ((l0, t0), r)
  let (fwb, r) ← rbits 4 r
  let (fhb, r) ← rbits 4 r
  let (_, r) ← rbits (fwb + 1) r
  let (_, r) ← rbits (fhb + 1) r
  let r ← if ¬ reduced then do
      let (fidp, r) ← rbit r
      if fidp then do
        let (_, r) ← rbits 4 r
        let (_, r) ← rbits 3 r
        some r
      else some r
    else some r
  let r ← skipBits 3 r
  let r ← if ¬ reduced then do
      let r ← skipBits 4 r
      let (eoh, r) ← rbit r
      let r ← if eoh then skipBits 2 r else some r
      let (scsct, r) ← rbit r
      let (sfsct, r) ← if scsct then some (2, r) else (rbit r).map (fun (b, r) => (b2n b, r))
      let r ← if sfsct > 0 then do
          let (scim, r) ← rbit r
          if ¬ scim then skipBits 1 r else some r
        else some r
      if eoh then skipBits 3 r else some r
    else some r
  let r ← skipBits 3 r
  let (cc, r) ← parseColorConfig r profile
  let _ ← rbit r
  some (profile, lvl, tier, cc)

end Muxide

namespace Muxide

/-- which reading of `decoder_model_info_present_flag` the *current* /repo code implements
    (see DESIGN.md C07; flipped together with the `fix:` commit in /repo). -/
def av1FixedDmi : Bool := true

/-- `parse_sequence_header(obu_data, header_size)` -/
def parseSequenceHeader (obu : Bytes) (hs : Nat) : Av1Res :=
  let payload := obu.drop hs
  if payload = [] then .none else
  let bits := bitsOf payload
  match rbits 3 bits with
  | none => .none
  | some (p, _) =>
    if p > 3 then .none else
    match parseSeqHdrBits av1FixedDmi bits with
    | none => .none
    | some (profile, lvl, tier, cc) =>
      .some ⟨obu, profile, lvl, tier, cc.highBitdepth, cc.twelveBit, cc.monochrome, cc.subX, cc.subY, cc.csp⟩

def extractAv1Aux : List (ObuInfo × Bytes) → Av1Res
  | [] => .none
  | (info, obu) :: rest =>
    if info.obuType = 1 then parseSequenceHeader obu info.headerSize else extractAv1Aux rest

/-- `extract_av1_config` -/
def extractAv1 (d : Bytes) : Av1Res := if d = [] then .none else extractAv1Aux (obus d)

/-- `is_av1_keyframe` -/
def isAv1Keyframe (d : Bytes) : Bool :=
  (obus d).any fun (info, obu) =>
    (info.obuType = 6 ∨ info.obuType = 3) &&
    (match bitsOf (obu.drop info.headerSize) with
     | se :: r => !se && (match rbits 2 r with | some (ft, _) => ft = 0 | none => false)
     | [] => false)

end Muxide
