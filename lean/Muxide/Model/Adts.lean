import Muxide.Model.Basic
/-
  Muxide.Model.Adts — `adts_to_raw` of src/muxer/mp4.rs (lines 1075-1340).
  Error *kinds* are modelled; message strings / hex dumps are not (correspondence only).
-/
namespace Muxide

inductive AdtsErr where
  | frameTooShort | missingSyncword | invalidMpegVersion | invalidLayer | invalidHeaderLength
  | invalidSampleRateIndex | invalidChannelConfig | invalidFrameLength | crcMismatch
deriving Repr, DecidableEq

def AdtsErr.name : AdtsErr → String
  | .frameTooShort => "FrameTooShort" | .missingSyncword => "MissingSyncword"
  | .invalidMpegVersion => "InvalidMpegVersion" | .invalidLayer => "InvalidLayer"
  | .invalidHeaderLength => "InvalidHeaderLength" | .invalidSampleRateIndex => "InvalidSampleRateIndex"
  | .invalidChannelConfig => "InvalidChannelConfig" | .invalidFrameLength => "InvalidFrameLength"
  | .crcMismatch => "CrcMismatch"

/-- byte `i` of the frame as a natural number (0 when absent; every use below is guarded by the
    length check that precedes it in the Rust code) -/
def byteAt (f : Bytes) (i : Nat) : Nat := (f.getD i 0).toNat

def adtsHeaderLen (f : Bytes) : Nat := if byteAt f 1 % 2 = 1 then 7 else 9

def adtsFrameLength (f : Bytes) : Nat :=
  (byteAt f 3 % 4) * 2^11 + byteAt f 4 * 2^3 + byteAt f 5 / 32

/-- `channel_configuration` (3 bits across bytes 2 and 3) -/
def adtsChannelConfig (f : Bytes) : Nat := (byteAt f 2 % 2) * 4 + byteAt f 3 / 64 % 4

def adtsToRaw (f : Bytes) : Except AdtsErr Bytes :=
  if f.length < 7 then .error .frameTooShort else
  if ¬ (byteAt f 0 = 0xFF ∧ byteAt f 1 / 16 = 0xF) then .error .missingSyncword else
  if byteAt f 1 / 8 % 2 ≠ 0 then .error .invalidMpegVersion else
  if byteAt f 1 / 2 % 4 ≠ 0 then .error .invalidLayer else
  if f.length < adtsHeaderLen f then .error .invalidHeaderLength else
  if byteAt f 2 / 4 % 16 > 12 then .error .invalidSampleRateIndex else
  if adtsChannelConfig f = 0 ∨ adtsChannelConfig f > 7 then .error .invalidChannelConfig else
  if adtsFrameLength f ≤ adtsHeaderLen f then .error .invalidFrameLength else
  if adtsFrameLength f > f.length then .error .invalidFrameLength else
  .ok ((f.take (adtsFrameLength f)).drop (adtsHeaderLen f))

/-- all guards of `adts_to_raw` pass -/
def adtsGuards (f : Bytes) : Prop :=
  7 ≤ f.length ∧ (byteAt f 0 = 0xFF ∧ byteAt f 1 / 16 = 0xF) ∧ byteAt f 1 / 8 % 2 = 0 ∧
  byteAt f 1 / 2 % 4 = 0 ∧ adtsHeaderLen f ≤ f.length ∧ byteAt f 2 / 4 % 16 ≤ 12 ∧
  (adtsChannelConfig f ≠ 0 ∧ adtsChannelConfig f ≤ 7) ∧
  adtsHeaderLen f < adtsFrameLength f ∧ adtsFrameLength f ≤ f.length

end Muxide
