import Muxide.Model.Basic
/-
  Muxide.Model.Sink — an arbitrary `std::io::Write` sink and `Write::write_all`, modelled from
  its documented loop: call `write` until the buffer is empty; `Ok(0)` → `ErrorKind::WriteZero`;
  `ErrorKind::Interrupted` → retry; any other error → return it.
-/
namespace Muxide

inductive Resp where
  | accept (n : Nat)      -- accepts min n len bytes; n = 0 is `Ok(0)`
  | interrupted
  | fail (kind : Nat)
deriving Repr, DecidableEq

inductive IoErr where | writeZero | io (kind : Nat) | fuel
deriving Repr, DecidableEq

/-- An arbitrary sink: a state, a response function (which may look at the buffer offered),
    and the bytes accepted so far. -/
structure Sink (σ : Type) where
  st : σ
  got : Bytes := []

abbrev Respond (σ : Type) := σ → Bytes → σ × Resp

def writeAll {σ} (respond : Respond σ) : Nat → Sink σ → Bytes → Sink σ × Except IoErr Unit
  | 0, s, buf => if buf = [] then (s, .ok ()) else (s, .error .fuel)
  | fuel + 1, s, buf =>
    if buf = [] then (s, .ok ()) else
    match respond s.st buf with
    | (st', .accept n) =>
      if n = 0 then ({ s with st := st' }, .error .writeZero)
      else
        let k := min n buf.length
        writeAll respond fuel { st := st', got := s.got ++ buf.take k } (buf.drop k)
    | (st', .interrupted) => writeAll respond fuel { s with st := st' } buf
    | (st', .fail kind) => ({ s with st := st' }, .error (.io kind))

/-- `finalize`'s sequence of `write_counted` calls: stop at the first error (`?`).
    Returns the sink, the outcome and the number of bytes *counted* (`bytes_written` is bumped
    before `write_all`, so the failing chunk is counted). -/
def writeChunks {σ} (respond : Respond σ) (fuel : Nat) : Sink σ → List Bytes → Nat → Sink σ × Except IoErr Unit × Nat
  | s, [], cnt => (s, .ok (), cnt)
  | s, c :: cs, cnt =>
    match writeAll respond fuel s c with
    | (s', .ok ()) => writeChunks respond fuel s' cs (cnt + c.length)
    | (s', .error e) => (s', .error e, cnt + c.length)

/-- the scripted sink: one response per `write` call, then accept everything -/
def scripted : Respond (List Resp)
  | [], buf => ([], .accept (max buf.length 1))
  | r :: rs, _ => (rs, r)

end Muxide
