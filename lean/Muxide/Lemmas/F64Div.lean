import Muxide.Lemmas.F64
import Muxide.Spec.Expect
/-
  Muxide.Lemmas.F64Div — rounding error of `ticks as f64 / 90000.0` (the statistics' duration):
  for fewer than 2^53 ticks the double nearest to m/90000 is within one tick of m when read back.
-/
namespace Muxide.F64

/-- round-to-nearest: the result is within half a unit of the exact quotient -/
theorem rne_half (a b : Nat) (hb : 0 < b) :
    2 * (rne a b * b) ≤ 2 * a + b ∧ 2 * a ≤ 2 * (rne a b * b) + b := by
  have h := Nat.div_add_mod a b
  have hr := Nat.mod_lt a hb
  have hm : (a / b + 1) * b = b * (a / b) + b := by rw [Nat.add_mul, Nat.one_mul, Nat.mul_comm]
  have hm0 : a / b * b = b * (a / b) := Nat.mul_comm _ _
  unfold rne
  split
  · rw [hm]; omega
  · split
    · split
      · rw [hm]; omega
      · rw [hm0]; omega
    · rw [hm0]; omega

theorem nw_neg (e : Int) (h : e ≤ 0) : nw e = 2 ^ (-e).toNat := rfl

theorem nw_ge_of_le (e : Int) (k : Nat) (h : e ≤ -(k : Int)) : 2 ^ k ≤ nw e := by
  unfold nw
  apply Nat.pow_le_pow_right (by decide)
  omega

/-- core: N/D = m/90000 with m < 2^53: the rounded mantissa/exponent read back to within one tick -/
theorem div_tick_core (N D m : Nat) (hN : N ≠ 0) (hD : D ≠ 0) (hND : N * 90000 = m * D) (hm : m < 2 ^ 53) :
    expOf N D ≤ -16 ∧
    2 * (rne (N * nw (expOf N D)) (D * pw (expOf N D)) * pw (expOf N D) * 90000) ≤ 2 * (m * nw (expOf N D)) + 90000 * pw (expOf N D) ∧
    2 * (m * nw (expOf N D)) ≤ 2 * (rne (N * nw (expOf N D)) (D * pw (expOf N D)) * pw (expOf N D) * 90000) + 90000 * pw (expOf N D) := by
  obtain ⟨h1, _, h3⟩ := expOf_spec N D hN hD
  have hDp : 0 < D := Nat.pos_of_ne_zero hD
  generalize expOf N D = e at *
  have he : e ≤ -16 := by
    by_cases hc : e = -1074
    · omega
    · have hb := h3 (by omega)
      unfold below at hb
      -- N * nw e ≥ 2^52 * (D * pw e)
      have hb' : 2 ^ 52 * (D * pw e) ≤ N * nw e := Nat.le_of_not_lt hb
      by_contra hcon
      have hge : -15 ≤ e := by omega
      have hnw : nw e ≤ 2 ^ 15 := by
        unfold nw
        apply Nat.pow_le_pow_right (by decide)
        omega
      have hpw : 1 ≤ pw e := pw_pos e
      -- multiply hb' by 90000 and use N*90000 = m*D
      have h4 : 2 ^ 52 * (D * pw e) * 90000 ≤ N * nw e * 90000 := Nat.mul_le_mul_right _ hb'
      have h5 : N * nw e * 90000 = m * D * nw e := by
        rw [Nat.mul_right_comm, hND]
      rw [h5] at h4
      have h6 : 2 ^ 52 * 90000 * D ≤ 2 ^ 52 * (D * pw e) * 90000 := by
        have : D ≤ D * pw e := Nat.le_mul_of_pos_right _ hpw
        calc 2 ^ 52 * 90000 * D = 2 ^ 52 * D * 90000 := by rw [Nat.mul_right_comm]
          _ ≤ 2 ^ 52 * (D * pw e) * 90000 := Nat.mul_le_mul_right _ (Nat.mul_le_mul_left _ this)
      have h7 : m * D * nw e ≤ m * D * 2 ^ 15 := Nat.mul_le_mul_left _ hnw
      have h8 : 2 ^ 52 * 90000 * D ≤ m * 2 ^ 15 * D := by
        calc 2 ^ 52 * 90000 * D ≤ m * D * nw e := Nat.le_trans h6 h4
          _ ≤ m * D * 2 ^ 15 := h7
          _ = m * 2 ^ 15 * D := by rw [Nat.mul_right_comm]
      have h9 : 2 ^ 52 * 90000 ≤ m * 2 ^ 15 := Nat.le_of_mul_le_mul_right h8 hDp
      omega
  refine ⟨he, ?_, ?_⟩
  all_goals
    have hb := rne_half (N * nw e) (D * pw e) (Nat.mul_pos hDp (pw_pos e))
    generalize rne (N * nw e) (D * pw e) = q at *
    obtain ⟨hb1, hb2⟩ := hb
  · -- D * (2 * (q * pw e * 90000)) ≤ D * (2 * (m * nw e) + 90000 * pw e)
    apply Nat.le_of_mul_le_mul_left _ hDp
    have e1 : D * (2 * (q * pw e * 90000)) = 2 * (q * (D * pw e)) * 90000 := by ring
    have e2 : D * (2 * (m * nw e) + 90000 * pw e) = (2 * (N * nw e) + D * pw e) * 90000 := by
      have : N * nw e * 90000 = m * D * nw e := by rw [Nat.mul_right_comm, hND]
      calc D * (2 * (m * nw e) + 90000 * pw e) = 2 * (m * D * nw e) + D * pw e * 90000 := by ring
        _ = 2 * (N * nw e * 90000) + D * pw e * 90000 := by rw [this]
        _ = (2 * (N * nw e) + D * pw e) * 90000 := by ring
    rw [e1, e2]
    exact Nat.mul_le_mul_right _ hb1
  · apply Nat.le_of_mul_le_mul_left _ hDp
    have e1 : D * (2 * (m * nw e)) = 2 * (N * nw e) * 90000 := by
      have : N * nw e * 90000 = m * D * nw e := by rw [Nat.mul_right_comm, hND]
      calc D * (2 * (m * nw e)) = 2 * (m * D * nw e) := by ring
        _ = 2 * (N * nw e * 90000) := by rw [this]
        _ = 2 * (N * nw e) * 90000 := by ring
    have e2 : D * (2 * (q * pw e * 90000) + 90000 * pw e) = (2 * (q * (D * pw e)) + D * pw e) * 90000 := by ring
    rw [e1, e2]
    exact Nat.mul_le_mul_right _ hb2

end Muxide.F64

namespace Muxide.F64

theorem rne_one (a : Nat) : rne a 1 = a := by
  unfold rne; simp [Nat.mod_one]

/-- a positive integer below 2^53 converts exactly: `m as f64` is `m` -/
theorem ofNat_exact (m : Nat) (h0 : m ≠ 0) (h : m < 2 ^ 53) :
    expOf m 1 ≤ 0 ∧ ofNat m = fin false (m * nw (expOf m 1)) (expOf m 1) := by
  obtain ⟨h1, h2, h3⟩ := expOf_spec m 1 h0 (by decide)
  have he : expOf m 1 ≤ 0 := by
    by_contra hc
    have hpos : 0 < expOf m 1 := by omega
    have hb := h3 (by omega)
    unfold below at hb
    have hnw : nw (expOf m 1) = 1 := nw_nonneg _ (by omega)
    have hpw : 2 ≤ pw (expOf m 1) := by
      unfold pw
      calc 2 = 2 ^ 1 := rfl
        _ ≤ 2 ^ (expOf m 1).toNat := Nat.pow_le_pow_right (by decide) (by omega)
    rw [hnw] at hb
    have : 2 ^ 52 * (1 * pw (expOf m 1)) ≤ m * 1 := Nat.le_of_not_lt hb
    have h2p : 2 ^ 52 * 2 ≤ 2 ^ 52 * (1 * pw (expOf m 1)) := by
      rw [Nat.one_mul]; exact Nat.mul_le_mul_left _ hpw
    omega
  refine ⟨he, ?_⟩
  unfold ofNat
  rw [roundPos_eq false m 1 h0]
  have hpw : pw (expOf m 1) = 1 := pw_neg _ he
  rw [hpw, Nat.one_mul, rne_one]
  -- no carry, no overflow
  unfold below at h2
  rw [hpw] at h2
  unfold mk
  rw [if_neg (by omega), if_neg (by omega)]

end Muxide.F64

namespace Muxide.F64

/-- `frac`-based reading back of a rounded quotient: no carry -/
theorem tick_nocarry (m q : Nat) (e : Int) (he : e ≤ -16)
    (hlo : 2 * (q * 90000) ≤ 2 * (m * nw e) + 90000)
    (hhi : 2 * (m * nw e) ≤ 2 * (q * 90000) + 90000) :
    (if q * pw e * 90000 ≥ m * nw e then q * pw e * 90000 - m * nw e else m * nw e - q * pw e * 90000) ≤ nw e := by
  have hpwe : pw e = 1 := pw_neg _ (by omega)
  have hnwe : 2 ^ 16 ≤ nw e := nw_ge_of_le e 16 (by omega)
  rw [hpwe, Nat.mul_one]
  generalize m * nw e = t at *
  generalize nw e = w at *
  split <;> omega

/-- the carry case: the mantissa rounded up to 2^53 and is renormalised to 2^52 with exponent e + 1 -/
theorem tick_carry (m : Nat) (e : Int) (he : e ≤ -16)
    (hlo : 2 * (2 ^ 53 * 90000) ≤ 2 * (m * nw e) + 90000)
    (hhi : 2 * (m * nw e) ≤ 2 * (2 ^ 53 * 90000) + 90000) :
    (if 2 ^ 53 / 2 * pw (e + 1) * 90000 ≥ m * nw (e + 1) then 2 ^ 53 / 2 * pw (e + 1) * 90000 - m * nw (e + 1)
     else m * nw (e + 1) - 2 ^ 53 / 2 * pw (e + 1) * 90000) ≤ nw (e + 1) := by
  have hpw' : pw (e + 1) = 1 := pw_neg _ (by omega)
  have hnw' : nw e = 2 * nw (e + 1) := by
    unfold nw
    have : (-e).toNat = (-(e + 1)).toNat + 1 := by omega
    rw [this, Nat.pow_succ, Nat.mul_comm]
  have h15 : 2 ^ 15 ≤ nw (e + 1) := nw_ge_of_le (e + 1) 15 (by omega)
  have hm2 : m * nw e = 2 * (m * nw (e + 1)) := by rw [hnw']; ring
  rw [hm2] at hlo hhi
  rw [hpw', Nat.mul_one]
  have hq2 : (2 : Nat) ^ 53 / 2 = 2 ^ 52 := by decide
  rw [hq2]
  generalize m * nw (e + 1) = t at *
  generalize nw (e + 1) = w at *
  split <;> omega

end Muxide.F64

namespace Muxide.F64
open Muxide.Spec

/-- a rounded quotient `mk false q e` that is within half a unit of m/90000 reads back within one tick -/
theorem within_mk (m q : Nat) (e : Int) (he : e ≤ -16) (hq53 : q ≤ 2 ^ 53)
    (hlo : 2 * (q * 90000) ≤ 2 * (m * nw e) + 90000)
    (hhi : 2 * (m * nw e) ≤ 2 * (q * 90000) + 90000) :
    within1Tick (mk false q e) m = true := by
  unfold mk
  by_cases hc : q ≥ 2 ^ 53
  · have hq : q = 2 ^ 53 := Nat.le_antisymm hq53 hc
    subst hq
    rw [if_pos hc, if_neg (show ¬ (e + 1 > 971) by omega)]
    unfold within1Tick
    simp only [frac_eq, decide_eq_true_eq]
    exact tick_carry m e he hlo hhi
  · rw [if_neg hc, if_neg (show ¬ (e > 971) by omega)]
    unfold within1Tick
    simp only [frac_eq, decide_eq_true_eq]
    exact tick_nocarry m q e he hlo hhi

end Muxide.F64
