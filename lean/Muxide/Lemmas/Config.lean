import Muxide.Model.Mp4
import Muxide.Spec.Contract
/- Muxide.Lemmas.Config — the model's codec-configuration extractors vs the spec's `carriesConfig`. -/
namespace Muxide
open Muxide.Spec

def codecS : VCodec → VCodecS
  | .h264 => .h264 | .h265 => .h265 | .av1 => .av1 | .vp9 => .vp9

theorem avcScan_isSome (ns : List Bytes) (s p : Option Bytes) :
    ((avcScan ns s p).1.isSome = (s.isSome || ns.any (fun n => decide (n ≠ []) && decide (h264NalType n = 7)))) ∧
    ((avcScan ns s p).2.isSome = (p.isSome || ns.any (fun n => decide (n ≠ []) && decide (h264NalType n = 8)))) := by
  induction ns generalizing s p with
  | nil => simp [avcScan]
  | cons n ns ih =>
    unfold avcScan
    by_cases hn : n = []
    · simp [hn, ih]
    · simp only [hn, if_false]
      by_cases h7 : h264NalType n = 7 ∧ s.isNone
      · simp only [h7, and_self, if_true]
        by_cases hp : p.isSome
        · simp [hp, h7.1, hn]
        · simp [hp, ih, h7.1, hn]
      · simp only [h7, if_false]
        by_cases h8 : h264NalType n = 8 ∧ p.isNone
        · simp only [h8, and_self, if_true]
          by_cases hs : s.isSome
          · simp [hs, h8.1, hn]
          · simp [hs, ih, h8.1, hn]
        · simp only [h8, if_false]
          by_cases hb : s.isSome ∧ p.isSome
          · simp [hb]
          · simp only [hb, if_false]
            rw [(ih s p).1, (ih s p).2]
            simp only [List.any_cons]
            constructor
            · by_cases e7 : h264NalType n = 7
              · have : s.isSome := by
                  cases s <;> simp_all
                simp [this]
              · simp [e7]
            · by_cases e8 : h264NalType n = 8
              · have : p.isSome := by
                  cases p <;> simp_all
                simp [this]
              · simp [e8]

theorem hevcScan_isSome (ns : List Bytes) (v s p : Option Bytes) :
    ((hevcScan ns v s p).1.isSome = (v.isSome || ns.any (fun n => decide (n ≠ []) && decide (hevcNalType n = 32)))) ∧
    ((hevcScan ns v s p).2.1.isSome = (s.isSome || ns.any (fun n => decide (n ≠ []) && decide (hevcNalType n = 33)))) ∧
    ((hevcScan ns v s p).2.2.isSome = (p.isSome || ns.any (fun n => decide (n ≠ []) && decide (hevcNalType n = 34)))) := by
  induction ns generalizing v s p with
  | nil => simp [hevcScan]
  | cons n ns ih =>
    unfold hevcScan
    by_cases hn : n = []
    · simp [hn, ih]
    · simp only [hn, if_false]
      by_cases h2 : hevcNalType n = 32 ∧ v.isNone
      · simp only [h2, and_self, if_true]
        by_cases hb : s.isSome ∧ p.isSome
        · simp [hb, h2.1, hn]
        · simp only [Option.isSome_some, true_and, hb, if_false]
          rw [(ih _ _ _).1, (ih _ _ _).2.1, (ih _ _ _).2.2]
          simp [h2.1, hn]
      · simp only [h2, if_false]
        by_cases h3 : hevcNalType n = 33 ∧ s.isNone
        · simp only [h3, and_self, if_true]
          by_cases hb : v.isSome ∧ p.isSome
          · simp [hb, h3.1, hn]
          · simp only [Option.isSome_some, true_and, hb, if_false]
            rw [(ih _ _ _).1, (ih _ _ _).2.1, (ih _ _ _).2.2]
            simp [h3.1, hn]
        · simp only [h3, if_false]
          by_cases h4 : hevcNalType n = 34 ∧ p.isNone
          · simp only [h4, and_self, if_true]
            by_cases hb : v.isSome ∧ s.isSome
            · simp [hb, h4.1, hn]
            · simp only [Option.isSome_some, and_true, hb, if_false]
              rw [(ih _ _ _).1, (ih _ _ _).2.1, (ih _ _ _).2.2]
              simp [h4.1, hn]
          · simp only [h4, if_false]
            by_cases hb : v.isSome ∧ s.isSome ∧ p.isSome
            · simp [hb]
            · simp only [hb, if_false]
              rw [(ih _ _ _).1, (ih _ _ _).2.1, (ih _ _ _).2.2]
              simp only [List.any_cons]
              refine ⟨?_, ?_, ?_⟩
              · by_cases e : hevcNalType n = 32
                · have : v.isSome := by cases v <;> simp_all
                  simp [this]
                · simp [e]
              · by_cases e : hevcNalType n = 33
                · have : s.isSome := by cases s <;> simp_all
                  simp [this]
                · simp [e]
              · by_cases e : hevcNalType n = 34
                · have : p.isSome := by cases p <;> simp_all
                  simp [this]
                · simp [e]

theorem contains_map_filter {α} (l : List α) (p : α → Bool) (f : α → Nat) (a : Nat) :
    ((l.filter p).map f).contains a = l.any (fun n => p n && decide (f n = a)) := by
  rw [Bool.eq_iff_iff, List.contains_iff_mem]
  simp only [List.mem_map, List.mem_filter, List.any_eq_true, Bool.and_eq_true, decide_eq_true_eq]
  constructor
  · rintro ⟨x, ⟨hx, hp⟩, rfl⟩; exact ⟨x, hx, hp, rfl⟩
  · rintro ⟨x, hx, hp, rfl⟩; exact ⟨x, ⟨hx, hp⟩, rfl⟩

theorem nals_nil : nals [] = [] := by simp [nals, nalsAux, findSC]

theorem extractAvc_isSome (d : Bytes) :
    (extractAvc d).isSome =
      ((nals d).any (fun n => decide (n ≠ []) && decide (h264NalType n = 7)) &&
       (nals d).any (fun n => decide (n ≠ []) && decide (h264NalType n = 8))) := by
  unfold extractAvc
  by_cases hd : d = []
  · simp [hd, nals_nil]
  · simp only [hd, if_false]
    have h := avcScan_isSome (nals d) none none
    revert h
    cases avcScan (nals d) none none with
    | mk a b =>
      intro h
      simp only [Option.isSome_none, Bool.false_or] at h
      rw [← h.1, ← h.2]
      cases a <;> cases b <;> rfl

theorem extractHevc_isSome (d : Bytes) :
    (extractHevc d).isSome =
      ((nals d).any (fun n => decide (n ≠ []) && decide (hevcNalType n = 32)) &&
       (nals d).any (fun n => decide (n ≠ []) && decide (hevcNalType n = 33)) &&
       (nals d).any (fun n => decide (n ≠ []) && decide (hevcNalType n = 34))) := by
  unfold extractHevc
  by_cases hd : d = []
  · simp [hd, nals_nil]
  · simp only [hd, if_false]
    have h := hevcScan_isSome (nals d) none none none
    revert h
    cases hevcScan (nals d) none none none with
    | mk a bc =>
      cases bc with
      | mk b c =>
        intro h
        simp only [Option.isSome_none, Bool.false_or] at h
        rw [← h.1, ← h.2.1, ← h.2.2]
        cases a <;> cases b <;> cases c <;> rfl

theorem hevcNalType_eq (n : Bytes) : hevcNalType n = (n.headD 0).toNat / 2 % 64 := by
  cases n <;> simp [hevcNalType]

theorem obus_nil : obus [] = [] := by simp [obus, obusAux]

theorem extractAv1Aux_isSome (l : List (ObuInfo × Bytes)) :
    (match extractAv1Aux l with | .some _ => true | .none => false) =
      (match l.find? (·.1.obuType = 1) with
       | none => false
       | some (info, obu) =>
         let payload := obu.drop info.headerSize
         payload ≠ [] && (match rbits 3 (bitsOf payload) with | some (p, _) => p ≤ 3 | none => false) &&
           (parseSeqHdrBits av1FixedDmi (bitsOf payload)).isSome) := by
  induction l with
  | nil => simp [extractAv1Aux]
  | cons x xs ih =>
    obtain ⟨info, obu⟩ := x
    unfold extractAv1Aux
    by_cases h1 : info.obuType = 1
    · simp only [h1, if_true, List.find?_cons, decide_true]
      unfold parseSequenceHeader
      by_cases hp : List.drop info.headerSize obu = []
      · simp [hp]
      · simp only [hp, if_false]
        cases hr : rbits 3 (bitsOf (List.drop info.headerSize obu)) with
        | none => simp
        | some pr =>
          obtain ⟨p, r⟩ := pr
          simp only []
          have hp' : decide (List.drop info.headerSize obu ≠ []) = true := by simpa using hp
          by_cases h3 : p > 3
          · have : decide (p ≤ 3) = false := by simp; omega
            simp only [h3, if_true, hp', this]; rfl
          · have : decide (p ≤ 3) = true := by simp; omega
            simp only [h3, if_false, hp', this]
            cases parseSeqHdrBits av1FixedDmi (bitsOf (List.drop info.headerSize obu)) with
            | none => rfl
            | some q => rfl
    · simp only [h1, if_false, List.find?_cons, decide_false]
      exact ih

theorem extractConfig_h264 (d : Bytes) :
    (∃ cfg, extractConfig .h264 d = .some cfg) ↔ (extractAvc d).isSome = true := by
  unfold extractConfig; cases extractAvc d <;> simp
theorem extractConfig_h265 (d : Bytes) :
    (∃ cfg, extractConfig .h265 d = .some cfg) ↔ (extractHevc d).isSome = true := by
  unfold extractConfig; cases extractHevc d <;> simp
theorem extractConfig_vp9 (d : Bytes) :
    (∃ cfg, extractConfig .vp9 d = .some cfg) ↔ (extractVp9 d).isSome = true := by
  unfold extractConfig; cases extractVp9 d <;> simp
theorem extractConfig_av1 (d : Bytes) :
    (∃ cfg, extractConfig .av1 d = .some cfg) ↔
      (match extractAv1 d with | .some _ => true | .none => false) = true := by
  unfold extractConfig; cases extractAv1 d <;> simp

/-- the model finds a codec configuration in the frame exactly when the frame carries one in the
    sense of the specification (given that the model's NAL scanner computes the declarative split) -/
theorem extractConfig_some_iff (hsplit : ∀ d, nals d = splitAnnexB d) (c : VCodec) (d : Bytes) :
    (∃ cfg, extractConfig c d = .some cfg) ↔ carriesConfig (codecS c) d = true := by
  cases c with
  | h264 =>
    rw [extractConfig_h264]
    have h := extractAvc_isSome d
    simp only [codecS, carriesConfig, nalTypesH264]
    rw [contains_map_filter, contains_map_filter, ← hsplit]
    exact Iff.of_eq (congrArg (fun b => b = true) h)
  | h265 =>
    rw [extractConfig_h265]
    have h := extractHevc_isSome d
    simp only [codecS, carriesConfig, nalTypesH265]
    rw [contains_map_filter, contains_map_filter, contains_map_filter, ← hsplit]
    simp only [hevcNalType_eq] at h
    exact Iff.of_eq (congrArg (fun b => b = true) h)
  | av1 =>
    rw [extractConfig_av1]
    simp only [codecS, carriesConfig]
    unfold extractAv1
    by_cases hd : d = []
    · simp [hd, obus_nil]
    · simp only [hd, if_false]
      have h := extractAv1Aux_isSome (obus d)
      exact Iff.of_eq (congrArg (fun b => b = true) h)
  | vp9 =>
    rw [extractConfig_vp9]
    simp only [codecS, carriesConfig]
end Muxide
