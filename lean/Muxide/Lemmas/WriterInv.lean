import Muxide.Model.Mp4
/- Muxide.Lemmas.WriterInv — the sample queues of every reachable `Writer` state are ordered:
   video decode timestamps strictly increase, audio timestamps never decrease (and dts = pts),
   and a writer without audio track holds no audio samples. -/
namespace Muxide

theorem setLastDur_map_dts (rev : List Sample) (d : Nat) :
    (setLastDur rev d).map (·.dts) = rev.map (·.dts) := by
  cases rev <;> simp [setLastDur]

theorem setLastDur_map_pts (rev : List Sample) (d : Nat) :
    (setLastDur rev d).map (·.pts) = rev.map (·.pts) := by
  cases rev <;> simp [setLastDur]

/-- `writeVideo` either leaves the writer unchanged (every rejection) or pushes the new sample on
    top of the old ones, whose timestamps are unchanged, and only if `dts` exceeds the previous one -/
theorem writeVideo_shape (w : Writer) (pts dts : Nat) (data : Bytes) (key : Bool) :
    (w.writeVideo pts dts data key).1 = w ∨
    ∃ (vs' : List Sample) (ld : Option Nat) (cfg : Option VideoConfig),
      vs'.map (·.dts) = w.vsRev.map (·.dts) ∧ (∀ prev, w.vPrev = some prev → prev < dts) ∧
      (w.writeVideo pts dts data key).1 =
        { w with vsRev := ⟨pts, dts, convertPayload w.codec data, key, none⟩ :: vs', vPrev := some dts,
                 vLastDelta := ld, vConfig := cfg } := by
  by_cases hf : w.finalized = true
  · left; simp [Writer.writeVideo, hf]
  cases hp : w.vPrev with
  | some prev =>
    by_cases h1 : dts ≤ prev
    · left; simp only [Writer.writeVideo, hf, hp, h1, Bool.false_eq_true, ↓reduceIte]
    by_cases h2 : dts - prev > u32Max
    · left; simp only [Writer.writeVideo, hf, hp, h1, h2, Bool.false_eq_true, ↓reduceIte]
    by_cases h3 : (convertPayload w.codec data).length > u32Max
    · left; simp only [Writer.writeVideo, hf, hp, h1, h2, h3, Bool.false_eq_true, ↓reduceIte]
    by_cases h4 : (pts : Int) - (dts : Int) > 2^31 - 1 ∨ (pts : Int) - (dts : Int) < -(2^31)
    · left; simp only [Writer.writeVideo, hf, hp, h1, h2, h3, h4, Bool.false_eq_true, ↓reduceIte]
    right
    refine ⟨setLastDur w.vsRev (dts - prev), some (dts - prev), w.vConfig, setLastDur_map_dts _ _, ?_, ?_⟩
    · intro p hp'; cases hp'; omega
    · simp only [Writer.writeVideo, hf, hp, h1, h2, h3, h4, Bool.false_eq_true, ↓reduceIte]
  | none =>
    by_cases hk : key = true
    · cases hc : extractConfig w.codec data with
      | none => left; simp only [Writer.writeVideo, hf, hp, hk, hc, not_true_eq_false, Bool.false_eq_true, ↓reduceIte]
      | some c =>
        by_cases h3 : (convertPayload w.codec data).length > u32Max
        · left; simp only [Writer.writeVideo, hf, hp, hk, hc, h3, not_true_eq_false, Bool.false_eq_true, ↓reduceIte]
        by_cases h4 : (pts : Int) - (dts : Int) > 2^31 - 1 ∨ (pts : Int) - (dts : Int) < -(2^31)
        · left; simp only [Writer.writeVideo, hf, hp, hk, hc, h3, h4, not_true_eq_false, Bool.false_eq_true, ↓reduceIte]
        right
        refine ⟨w.vsRev, w.vLastDelta, some c, rfl, ?_, ?_⟩
        · intro p hp'; cases hp'
        · simp only [Writer.writeVideo, hf, hp, hk, hc, h3, h4, not_true_eq_false, Bool.false_eq_true, ↓reduceIte]
    · left; simp only [Writer.writeVideo, hf, hp, hk, not_false_eq_true, Bool.false_eq_true, ↓reduceIte]
/-- `writeAudio` either leaves the writer unchanged (every rejection) or pushes the new sample
    (dts = pts) on top of the old ones, whose timestamps are unchanged, and only if the writer has
    an audio track and `pts` is not below the previous one -/
theorem writeAudio_shape (w : Writer) (pts : Nat) (data : Bytes) :
    (w.writeAudio pts data).1 = w ∨
    ∃ (tr : AudioTrack) (as' : List Sample) (ld : Option Nat) (sd : Bytes),
      w.audio = some tr ∧ as'.map (·.dts) = w.asRev.map (·.dts) ∧ as'.map (·.pts) = w.asRev.map (·.pts) ∧
      (∀ prev, w.aPrev = some prev → prev ≤ pts) ∧
      (w.writeAudio pts data).1 =
        { w with asRev := ⟨pts, pts, sd, false, none⟩ :: as', aPrev := some pts, aLastDelta := ld } := by
  by_cases hf : w.finalized = true
  · left; simp [Writer.writeAudio, hf]
  cases ha : w.audio with
  | none => left; simp only [Writer.writeAudio, hf, ha, Bool.false_eq_true, ↓reduceIte]
  | some tr =>
    cases hp : w.aPrev with
    | some prev =>
      by_cases h1 : pts < prev
      · left; simp only [Writer.writeAudio, hf, ha, hp, h1, Bool.false_eq_true, ↓reduceIte]
      by_cases h2 : pts - prev > u32Max
      · left; simp only [Writer.writeAudio, hf, ha, hp, h1, h2, Bool.false_eq_true, ↓reduceIte]
      simp only [Writer.writeAudio, hf, ha, hp, h1, h2, Bool.false_eq_true, ↓reduceIte]
      split
      · left; rfl
      · next sd _ =>
        by_cases h3 : sd.length > u32Max
        · left; simp only [h3, ↓reduceIte]
        · right
          refine ⟨tr, setLastDur w.asRev (pts - prev), some (pts - prev), sd, rfl, setLastDur_map_dts _ _,
            setLastDur_map_pts _ _, ?_, ?_⟩
          · intro p hp'; cases hp'; omega
          · simp only [h3, ↓reduceIte]
    | none =>
      simp only [Writer.writeAudio, hf, ha, hp, Bool.false_eq_true, ↓reduceIte]
      split
      · left; rfl
      · next sd _ =>
        by_cases h3 : sd.length > u32Max
        · left; simp only [h3, ↓reduceIte]
        · right
          refine ⟨tr, w.asRev, w.aLastDelta, sd, rfl, rfl, rfl, ?_, ?_⟩
          · intro p hp'; cases hp'
          · simp only [h3, ↓reduceIte]

/-- invariant of the sample queues (newest first) -/
structure Writer.Inv (w : Writer) : Prop where
  vSorted : (w.vsRev.map (·.dts)).Pairwise (fun a b => b < a)
  vPrev : w.vPrev = (w.vsRev.map (·.dts)).head?
  aSorted : (w.asRev.map (·.dts)).Pairwise (fun a b => b ≤ a)
  aPrev : w.aPrev = (w.asRev.map (·.dts)).head?
  aDts : w.asRev.map (·.pts) = w.asRev.map (·.dts)
  noAudio : w.audio = none → w.asRev = []

theorem all_lt_of_head {l : List Nat} {d : Nat} (hs : l.Pairwise (fun a b => b < a))
    (hh : ∀ p, l.head? = some p → p < d) : ∀ x ∈ l, x < d := by
  cases l with
  | nil => simp
  | cons a t =>
    intro x hx
    have ha : a < d := hh a rfl
    rcases List.mem_cons.mp hx with rfl | hx
    · exact ha
    · have := (List.pairwise_cons.mp hs).1 x hx; omega

theorem all_le_of_head {l : List Nat} {d : Nat} (hs : l.Pairwise (fun a b => b ≤ a))
    (hh : ∀ p, l.head? = some p → p ≤ d) : ∀ x ∈ l, x ≤ d := by
  cases l with
  | nil => simp
  | cons a t =>
    intro x hx
    have ha : a ≤ d := hh a rfl
    rcases List.mem_cons.mp hx with rfl | hx
    · exact ha
    · have := (List.pairwise_cons.mp hs).1 x hx; omega

theorem writeVideo_inv (w : Writer) (pts dts : Nat) (data : Bytes) (key : Bool) (h : w.Inv) :
    (w.writeVideo pts dts data key).1.Inv := by
  rcases writeVideo_shape w pts dts data key with e | ⟨vs', ld, cfg, hm, hlt, e⟩
  · rw [e]; exact h
  · rw [e]
    refine ⟨?_, ?_, h.aSorted, h.aPrev, h.aDts, h.noAudio⟩
    · simp only [List.map_cons, hm, List.pairwise_cons]
      refine ⟨?_, h.vSorted⟩
      exact all_lt_of_head h.vSorted (fun p hp => hlt p (by rw [h.vPrev]; exact hp))
    · simp

theorem writeAudio_inv (w : Writer) (pts : Nat) (data : Bytes) (h : w.Inv) :
    (w.writeAudio pts data).1.Inv := by
  rcases writeAudio_shape w pts data with e | ⟨tr, as', ld, sd, hau, hm, hmp, hle, e⟩
  · rw [e]; exact h
  · rw [e]
    refine ⟨h.vSorted, h.vPrev, ?_, ?_, ?_, ?_⟩
    · simp only [List.map_cons, hm, List.pairwise_cons]
      refine ⟨?_, h.aSorted⟩
      exact all_le_of_head h.aSorted (fun p hp => hle p (by rw [h.aPrev]; exact hp))
    · simp
    · simp only [List.map_cons, hm, hmp, h.aDts]
    · intro hn; simp [hau] at hn

theorem finalize_inv (w : Writer) (width height : Nat) (md : Option Metadata) (fast : Bool) (h : w.Inv) :
    (w.finalize width height md fast).1.Inv := by
  unfold Writer.finalize
  split
  · exact h
  · split
    · exact ⟨h.vSorted, h.vPrev, h.aSorted, h.aPrev, h.aDts, h.noAudio⟩
    · split
      · exact ⟨h.vSorted, h.vPrev, h.aSorted, h.aPrev, h.aDts, h.noAudio⟩
      · exact ⟨h.vSorted, h.vPrev, h.aSorted, h.aPrev, h.aDts, h.noAudio⟩

/-- the writer states that the API can produce: a fresh writer, then any sequence of calls -/
inductive Writer.Reachable : Writer → Prop
  | init (c : VCodec) (a : Option AudioTrack) : Writer.Reachable { codec := c, audio := a }
  | video {w} (pts dts : Nat) (data : Bytes) (key : Bool) :
      Writer.Reachable w → Writer.Reachable (w.writeVideo pts dts data key).1
  | audio {w} (pts : Nat) (data : Bytes) : Writer.Reachable w → Writer.Reachable (w.writeAudio pts data).1
  | fin {w} (width height : Nat) (md : Option Metadata) (fast : Bool) :
      Writer.Reachable w → Writer.Reachable (w.finalize width height md fast).1

theorem Writer.Reachable.inv {w : Writer} (h : w.Reachable) : w.Inv := by
  induction h with
  | init c a => exact ⟨by simp, by simp, by simp, by simp, by simp, by simp⟩
  | video pts dts data key _ ih => exact writeVideo_inv _ pts dts data key ih
  | audio pts data _ ih => exact writeAudio_inv _ pts data ih
  | fin width height md fast _ ih => exact finalize_inv _ width height md fast ih

/-- the invariant in the form used by C01 / C08 / C15 (oldest first) -/
theorem Writer.Inv.ordered {w : Writer} (h : w.Inv) :
    w.vsRev.reverse.Pairwise (fun a b => a.dts < b.dts) ∧
    w.asRev.reverse.Pairwise (fun a b => a.dts ≤ b.dts) ∧
    (∀ s ∈ w.asRev.reverse, s.pts = s.dts) ∧
    (w.audio = none → w.asRev = []) := by
  refine ⟨?_, ?_, ?_, h.noAudio⟩
  · rw [List.pairwise_reverse]
    exact List.pairwise_map.mp h.vSorted
  · rw [List.pairwise_reverse]
    exact List.pairwise_map.mp h.aSorted
  · intro s hs
    have hs' : s ∈ w.asRev := List.mem_reverse.mp hs
    obtain ⟨i, hi, rfl⟩ := List.getElem_of_mem hs'
    have := congrArg (fun l => l[i]?) h.aDts
    simpa [hi] using this

end Muxide
