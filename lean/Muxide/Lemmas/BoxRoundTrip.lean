import Muxide.Lemmas.Bytes
import Muxide.Spec.Reader
/-
  Muxide.Lemmas.BoxRoundTrip — the generic reader `parseBox`/`parseBoxes` inverts `Box.ser`/`Box.sers`
  on every box tree that conforms to the container schema and whose sizes fit the 32-bit field.
-/
namespace Muxide
open Muxide.Spec

mutual
/-- a box tree the schema-driven parser reads back: 4-byte types, sizes below 2^32, leaves have
    no children, containers have exactly the schema's fixed prefix -/
def Conforms (sc : Schema) : Box → Prop
  | Box.mk t p ks => t.length = 4 ∧ 8 + p.length + Box.sizes ks < 2^32 ∧
      (match sc t with
       | none => ks = []
       | some n => p.length = n) ∧ ConformsL sc ks
def ConformsL (sc : Schema) : List Box → Prop
  | [] => True
  | b :: bs => Conforms sc b ∧ ConformsL sc bs
end

mutual
def depth : Box → Nat
  | Box.mk _ _ ks => 1 + depthL ks
def depthL : List Box → Nat
  | [] => 0
  | b :: bs => max (depth b) (depthL bs) + 1
end

variable {sc : Schema}

mutual
theorem ser_len : ∀ (b : Box), Conforms sc b → (Box.ser b).length = Box.size b
  | Box.mk t p ks, h => by
    have hk := sers_len ks h.2.2.2
    simp [Box.ser, Box.size, h.1, hk]
    omega
theorem sers_len : ∀ (bs : List Box), ConformsL sc bs → (Box.sers bs).length = Box.sizes bs
  | [], _ => rfl
  | b :: bs, h => by simp [Box.sers, Box.sizes, ser_len b h.1, sers_len bs h.2]
end

theorem ser_ne_nil (b : Box) : Box.ser b ≠ [] := by
  cases b; simp [Box.ser, u32be]

mutual
theorem parseBox_ser : ∀ (b : Box) (rest : Bytes) (fuel : Nat), Conforms sc b → depth b < fuel →
    parseBox sc fuel (Box.ser b ++ rest) = some (b, rest)
  | Box.mk t p ks, rest, fuel, h, hf => by
    obtain ⟨ht, hsz, hsc, hks⟩ := h
    cases fuel with
    | zero => simp at hf
    | succ fuel =>
      have hl := sers_len ks hks
      simp only [Box.ser, List.append_assoc, parseBox]
      rw [readU32_u32be _ hsz]
      have h1 : ¬ (8 + p.length + Box.sizes ks < 8) := by omega
      have h2 : ¬ ((t ++ (p ++ (Box.sers ks ++ rest))).length < 8 + p.length + Box.sizes ks - 4) := by
        simp [ht, hl]; omega
      simp only [h1, h2, if_false]
      have e1 : (t ++ (p ++ (Box.sers ks ++ rest))).take 4 = t := by
        rw [← ht]; simp
      have e2 : (t ++ (p ++ (Box.sers ks ++ rest))).drop 4 = p ++ (Box.sers ks ++ rest) := by
        rw [← ht]; simp
      have e3 : 8 + p.length + Box.sizes ks - 8 = (p ++ Box.sers ks).length := by simp [hl]; omega
      rw [e1, e2, e3, ← List.append_assoc p, List.take_left', List.drop_left']
      · cases hs : sc t with
        | none =>
          rw [hs] at hsc; subst hsc
          simp [Box.sers]
        | some n =>
          rw [hs] at hsc; subst hsc
          simp only [List.length_append, Nat.not_lt_of_le (Nat.le_add_right _ _), if_false,
            List.drop_left, List.take_left]
          rw [parseBoxes_sers ks fuel hks (by simp [depth] at hf; omega)]
      · rfl
      · rfl
theorem parseBoxes_sers : ∀ (bs : List Box) (fuel : Nat), ConformsL sc bs → depthL bs < fuel →
    parseBoxes sc fuel (Box.sers bs) = some bs
  | [], fuel, _, hf => by
    cases fuel with
    | zero => simp at hf
    | succ fuel => simp [Box.sers, parseBoxes]
  | b :: bs, fuel, h, hf => by
    cases fuel with
    | zero => simp at hf
    | succ fuel =>
      simp only [Box.sers, parseBoxes]
      have hne : Box.ser b ++ Box.sers bs ≠ [] := by simp [ser_ne_nil]
      simp only [hne, if_false]
      simp [depthL] at hf
      rw [parseBox_ser b _ fuel h.1 (by omega)]
      simp only []
      rw [parseBoxes_sers bs fuel h.2 (by omega)]
end

end Muxide
