import Muxide.Lemmas.Api
import Muxide.Lemmas.Framing
import Muxide.Spec.Contract
/- Muxide.Lemmas.Track — shape of a track's sample vector, declared durations, payload facts (C04). -/
namespace Muxide
open Muxide.Spec

/-- older samples (newest first), below a newer decode time `t`: each carries as duration the
    distance to the next newer decode time, and decode times do not decrease -/
def Older : Nat → List Sample → Prop
  | _, [] => True
  | t, p :: rest => p.dur = some (t - p.dts) ∧ p.dts ≤ t ∧ Older p.dts rest

/-- shape of a track's sample vector (newest first) together with `prev_dts` and `last_delta` -/
def TrackOk (rev : List Sample) (prev ld : Option Nat) : Prop :=
  match rev with
  | [] => prev = none ∧ ld = none
  | s :: rest => prev = some s.dts ∧ s.dur = none ∧ Older s.dts rest ∧
      ld = rest.head?.map (fun p => s.dts - p.dts)

def durOr (fb : Nat) (s : Sample) : Nat := match s.dur with | some d => d | none => fb

theorem durationsOf_snoc_track (init : List Sample) (last : Sample) (fb : Option Nat) :
    durationsOf (init ++ [last]) fb = init.map (durOr 1) ++ [durOr (fb.getD 1) last] := by
  unfold durationsOf
  simp only [List.length_append, List.length_singleton, Nat.add_sub_cancel]
  rw [List.range_succ, List.zip_append (by simp), List.map_append]
  congr 1
  · have e : init.map (durOr 1) = ((List.range init.length).zip init).map (durOr 1 ∘ Prod.snd) := by
      rw [← List.map_map, List.map_snd_zip (by simp)]
    rw [e]
    apply List.map_congr_left
    intro p hp
    obtain ⟨i, s⟩ := p
    have hi : i < init.length := by
      have := (List.of_mem_zip hp).1
      simpa using this
    have : ¬ i = init.length := by omega
    simp only [this, if_false, Function.comp, durOr]
    cases s.dur <;> rfl
  · simp [durOr]
    cases last.dur <;> simp

theorem getLast?_cons_getD (a t : Nat) (l : List Nat) : ((a :: l).getLast?).getD t = (l.getLast?).getD a := by
  rw [List.getLast?_cons]; rfl

theorem headD_reverse_snoc (l : List Nat) (x : Nat) : (l.reverse ++ [x]).headD 0 = (l.getLast?).getD x := by
  rw [List.headD_eq_head?_getD, List.head?_append, List.head?_reverse]
  cases l.getLast? <;> simp

theorem older_sum (t : Nat) (rest : List Sample) (h : Older t rest) :
    (rest.map (durOr 1)).sum = t - ((rest.map (·.dts)).getLast?).getD t ∧
    ((rest.map (·.dts)).getLast?).getD t ≤ t := by
  induction rest generalizing t with
  | nil => simp
  | cons p rest ih =>
    obtain ⟨h1, h2, h3⟩ := h
    obtain ⟨i1, i2⟩ := ih p.dts h3
    simp only [List.map_cons, List.sum_cons, getLast?_cons_getD]
    rw [i1]
    have : durOr 1 p = t - p.dts := by simp [durOr, h1]
    rw [this]
    omega

/-- the declared track duration the writer checks equals the specification's `trackDuration`
    of the decode times -/
theorem track_duration (rev : List Sample) (prev ld : Option Nat) (h : TrackOk rev prev ld) :
    (durationsOf rev.reverse ld).sum = trackDuration ((rev.map (·.dts)).reverse) := by
  cases rev with
  | nil => simp [durationsOf, trackDuration]
  | cons s rest =>
    obtain ⟨_, h2, h3, h4⟩ := h
    obtain ⟨o1, o2⟩ := older_sum s.dts rest h3
    rw [List.reverse_cons, durationsOf_snoc_track]
    have e1 : durOr (ld.getD 1) s = ld.getD 1 := by simp [durOr, h2]
    simp only [List.sum_append, List.map_reverse, List.sum_reverse, List.sum_cons, List.sum_nil,
      Nat.add_zero, e1, o1]
    unfold trackDuration
    simp only [List.map_cons, List.reverse_cons, List.reverse_append, List.reverse_reverse,
      List.reverse_nil, List.nil_append, List.singleton_append]
    cases hr : rest with
    | nil => simp [h4, hr]
    | cons p r =>
      rw [hr] at o2 h4
      simp only [List.map_cons, List.head?_cons, Option.map_some] at h4 o2 ⊢
      rw [h4]
      simp only [Option.getD_some]
      have hh := headD_reverse_snoc (p.dts :: List.map (·.dts) r) s.dts
      rw [hh]

theorem setLastDur_map (rev : List Sample) (d : Nat) :
    (setLastDur rev d).map (fun s => (s.pts, s.dts)) = rev.map (fun s => (s.pts, s.dts)) := by
  cases rev <;> simp [setLastDur]

theorem setLastDur_data (rev : List Sample) (d : Nat) (h : ∀ s ∈ rev, s.data ≠ []) :
    ∀ s ∈ setLastDur rev d, s.data ≠ [] := by
  cases rev with
  | nil => simp [setLastDur]
  | cons q rest =>
    intro s hs
    simp only [setLastDur, List.mem_cons] at hs
    rcases hs with rfl | hs
    · exact h q (by simp)
    · exact h s (by simp [hs])

def pushRev (rev : List Sample) (prev : Option Nat) (t : Nat) : List Sample :=
  match prev with | some p => setLastDur rev (t - p) | none => rev
def pushLd (prev ld : Option Nat) (t : Nat) : Option Nat :=
  match prev with | some p => some (t - p) | none => ld

/-- pushing a sample keeps the track shape -/
theorem trackOk_push (rev : List Sample) (prev ld : Option Nat) (h : TrackOk rev prev ld) (s : Sample)
    (hs : s.dur = none) (hle : ∀ p, prev = some p → p ≤ s.dts) :
    TrackOk (s :: pushRev rev prev s.dts) (some s.dts) (pushLd prev ld s.dts) := by
  cases rev with
  | nil =>
    obtain ⟨h1, h2⟩ := h
    subst h1; subst h2
    exact ⟨rfl, hs, trivial, rfl⟩
  | cons q rest =>
    obtain ⟨h1, h2, h3, h4⟩ := h
    subst h1
    refine ⟨rfl, hs, ?_, ?_⟩
    · exact ⟨rfl, hle _ rfl, h3⟩
    · simp [pushRev, pushLd, setLastDur]

theorem pushRev_map (rev : List Sample) (prev : Option Nat) (t : Nat) :
    (pushRev rev prev t).map (fun s => (s.pts, s.dts)) = rev.map (fun s => (s.pts, s.dts)) := by
  cases prev <;> simp [pushRev, setLastDur_map]

theorem pushRev_data (rev : List Sample) (prev : Option Nat) (t : Nat) (h : ∀ s ∈ rev, s.data ≠ []) :
    ∀ s ∈ pushRev rev prev t, s.data ≠ [] := by
  cases prev with
  | none => exact h
  | some p => exact setLastDur_data rev _ h

theorem trackOk_prev_none (rev : List Sample) (ld : Option Nat) (h : TrackOk rev none ld) : rev = [] := by
  cases rev with
  | nil => rfl
  | cons q rest => exact absurd h.1 (by simp)

theorem toAvcc_ne_nil (d : Bytes) (h : d ≠ []) : toAvcc d ≠ [] := by
  unfold toAvcc
  simp only []
  split
  · simp [u32be]
  · next hc => intro he; exact hc ⟨he, h⟩

theorem convertPayload_ne_nil (c : VCodec) (d : Bytes) (h : d ≠ []) : convertPayload c d ≠ [] := by
  cases c <;> simp only [convertPayload] <;> first | exact toAvcc_ne_nil d h | exact h

theorem ctsOf_isSome (pts dts : Nat) (_hp : pts < 2^64) (_hd : dts < 2^64) (_hc : ¬ ctsBad pts dts)
    (_hs : pts < 2^63 ↔ dts < 2^63) : (ctsOf pts dts).isNone = false := by
  simp [ctsOf]

theorem ctsOf_isNone_false (pts dts : Nat) : (ctsOf pts dts).isNone = false := by simp [ctsOf]

theorem adtsToRaw_ne_nil (f r : Bytes) (h : adtsToRaw f = .ok r) : r ≠ [] := by
  rw [adtsToRaw_ok_iff] at h
  obtain ⟨⟨_, _, _, _, _, _, _, g8, g9⟩, rfl⟩ := h
  intro he
  have := congrArg List.length he
  simp at this
  omega

theorem adtsToRaw_length_le (f r : Bytes) (h : adtsToRaw f = .ok r) : r.length ≤ f.length := by
  rw [adtsToRaw_ok_iff] at h
  obtain ⟨_, rfl⟩ := h
  simp; omega
/-! ### `finalize` and `finish_in_place_with_stats` -/

theorem finalizeStandard_ne_panic (w : Writer) (W H : Nat) (md : Option Metadata) (vc : VideoConfig)
    (h1 : moovPanics W H w.vsRev.reverse [] false = false)
    (h2 : moovPanics W H w.vsRev.reverse w.asRev.reverse true = false) :
    (finalizeStandard w W H md vc).res ≠ .panic := by
  unfold finalizeStandard
  simp only []
  split
  · split
    · simp
    · rw [h1]; simp
  · split
    · simp
    · split
      · simp
      · rw [h2]; simp

theorem finalizeFastStart_ne_panic (w : Writer) (W H : Nat) (md : Option Metadata) (vc : VideoConfig)
    (h1 : moovPanics W H w.vsRev.reverse [] false = false)
    (h2 : moovPanics W H w.vsRev.reverse w.asRev.reverse true = false) :
    (finalizeFastStart w W H md vc).res ≠ .panic := by
  unfold finalizeFastStart
  simp only []
  split
  · simp
  · split
    · rw [h2]
      simp only [Bool.false_eq_true, if_false]
      split
      · simp
      · simp
    · rw [h1]
      simp only [Bool.false_eq_true, if_false]
      repeat' split
      all_goals simp

/-- the standard (non-fast-start) layout reports a size error only when the media payload
    exceeds the 32-bit `mdat` box or (with an audio track) the last chunk offset could exceed
    32 bits: `ftypLen + 8 + payload ≤ u32Max` (`ftypLen = 24`) excludes both -/
theorem finalizeStandard_ne_ioErr (w : Writer) (W H : Nat) (md : Option Metadata) (vc : VideoConfig)
    (hp : ftypLen + 8 + ((w.vsRev.reverse.map (·.data.length)).sum + (w.asRev.reverse.map (·.data.length)).sum)
      ≤ u32Max)
    (msg : String) : (finalizeStandard w W H md vc).res ≠ .ioErr msg := by
  unfold finalizeStandard
  simp only []
  split
  · split
    · next hc => exfalso; omega
    · split <;> simp
  · split
    · next hc => exfalso; omega
    · split
      · next hc => exfalso; omega
      · split <;> simp

/-- the layout stage of `finalize` (after the duration / dimension checks) -/
def layoutOut (w : Writer) (W H : Nat) (md : Option Metadata) (fast : Bool) : FinOut :=
  let vc := w.vConfig.getD (.avc defaultAvc)
  if fast then finalizeFastStart w W H md vc else finalizeStandard w W H md vc

theorem finalize_res (w : Writer) (W H : Nat) (md : Option Metadata) (fast : Bool) (hf : w.finalized = false) :
    (w.finalize W H md fast).1 = { w with finalized := true } ∧
    (w.finalize W H md fast).2.res =
      if (durationsOf w.vsRev.reverse w.vLastDelta).sum > u32Max ∨ (durationsOf w.asRev.reverse w.aLastDelta).sum > u32Max then
        .ioErr "MP4 track duration exceeds u32::MAX media ticks"
      else if W > 65535 ∨ H > 65535 then .ioErr "video width and height must fit in 16 bits"
      else (layoutOut w W H md fast).res := by
  unfold Writer.finalize layoutOut
  simp only [hf, Bool.false_eq_true, if_false]
  split
  · exact ⟨rfl, rfl⟩
  · split
    · exact ⟨rfl, rfl⟩
    · exact ⟨rfl, rfl⟩

/-- `finish_in_place_with_stats` against a fault-free sink, in terms of `finalize`'s outcome -/
theorem finishStats_eq (m : Muxer) (hf : m.finished = false) :
    ∃ B : Nat,
      (m.finishStats deliverAll).1 =
        { m with w := { (m.w.finalize m.width m.height m.md m.fast).1 with bytesWritten := B },
                 finished := decide ((m.w.finalize m.width m.height m.md m.fast).2.res = .ok) } ∧
      (match (m.w.finalize m.width m.height m.md m.fast).2.res with
       | .ok => ∃ s, (m.finishStats deliverAll).2.2 = .stats s
       | .ioErr _ => (m.finishStats deliverAll).2.2 = .err .io none
       | .panic => (m.finishStats deliverAll).2.2 = .panic) := by
  unfold Muxer.finishStats
  simp only [hf, Bool.false_eq_true, if_false, deliverAll]
  refine ⟨min ((m.w.finalize m.width m.height m.md m.fast).1.bytesWritten +
      ((m.w.finalize m.width m.height m.md m.fast).2.chunks.map (·.length)).sum) u64Max, ?_⟩
  cases hr : (m.w.finalize m.width m.height m.md m.fast).2.res with
  | ok => exact ⟨by simp, _, rfl⟩
  | ioErr msg => exact ⟨by simp, rfl⟩
  | panic => exact ⟨by simp, rfl⟩
end Muxide
