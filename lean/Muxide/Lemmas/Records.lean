import Muxide.Spec.Strict
import Muxide.Model.Frag
import Muxide.Lemmas.Bytes
import Muxide.Lemmas.Tables
/-
  Muxide.Lemmas.Records — helper lemmas relating the header-box / configuration-record builders
  to the strict decoders of Muxide.Spec.Strict and the table decoders of Muxide.Spec.Reader:
  `be` / `allZero` over appended pieces, length-prefixed parameter-set lists, count-prefixed
  integer tables, run-length tables.
-/
namespace Muxide
open Muxide.Spec Box

/-! ### 16-bit encoding depends only on the value mod 2^16 -/

theorem u16be_mod (n : Nat) : u16be n = u16be (n % 2^16) := by
  have a : n % 2^16 / 2^8 % 256 = n / 2^8 % 256 := by omega
  have b : n % 2^16 % 256 = n % 256 := by omega
  simp only [u16be, a, b]

/-! ### `be` / `allZero` over appended pieces -/

theorem be_append_left (a b : Bytes) (off len : Nat) (h : off + len ≤ a.length) :
    be (a ++ b) off len = be a off len := by
  unfold be
  rw [List.drop_append_of_le_length (by omega), List.take_append_of_le_length (by simp; omega)]

theorem be_append_right (a b : Bytes) (off len : Nat) (h : a.length ≤ off) :
    be (a ++ b) off len = be b (off - a.length) len := by
  unfold be
  rw [List.drop_append, List.drop_eq_nil_of_le h]
  simp

theorem be_cons_succ (x : UInt8) (a : Bytes) (off len : Nat) : be (x :: a) (off + 1) len = be a off len := by
  simp [be]

theorem be_one_zero (x : UInt8) (a : Bytes) : be (x :: a) 0 1 = x.toNat := by simp [be]

theorem be_u32be (n : Nat) : be (u32be n) 0 4 = n % 2^32 := by
  simp [be, u32be, u8, UInt8.toNat_ofNat']
  omega

theorem be_u16be (n : Nat) : be (u16be n) 0 2 = n % 2^16 := by
  simp [be, u16be, u8, UInt8.toNat_ofNat']
  omega

theorem allZero_append (a b : Bytes) (off len : Nat) :
    allZero (a ++ b) off len = (allZero a off len && allZero b (off - a.length) (len - (a.length - off))) := by
  unfold allZero
  rw [List.drop_append, List.take_append, List.all_append]
  simp

theorem allZero_zeros (n off len : Nat) : allZero (zeros n) off len = true := by
  simp only [allZero, zeros, List.all_eq_true]
  intro x hx
  have := List.mem_of_mem_drop (List.mem_of_mem_take hx)
  simp [List.mem_replicate] at this
  simp [this.2]

theorem allZero_len_zero (a : Bytes) (off : Nat) : allZero a off 0 = true := by simp [allZero]

theorem allZero_beyond (a : Bytes) (off len : Nat) (h : a.length ≤ off) : allZero a off len = true := by
  simp [allZero, List.drop_eq_nil_of_le h]

/-! ### length-prefixed parameter sets (avcC / hvcC) -/

theorem readSets_one (s r : Bytes) (h : s.length < 2^16) :
    readSets 1 (u16be s.length ++ (s ++ r)) = some ([s], r) := by
  simp [readSets, readU16_u16be _ h]

theorem readArrays_one (b : UInt8) (s r : Bytes) (n : Nat) (h : s.length < 2^16) (hb : b.toNat / 64 % 2 = 0) :
    readArrays (n + 1) (b :: (u16be 1 ++ (u16be s.length ++ (s ++ r)))) =
      match readArrays n r with
      | none => none
      | some (xs, r') => some ((b.toNat % 64, [s]) :: xs, r') := by
  rw [readArrays]
  simp only [hb, ne_eq, not_true_eq_false, if_false]
  rw [readU16_u16be 1 (by omega)]
  simp only [readSets_one s r h]
  cases readArrays n r <;> rfl

/-- avcC with arbitrary profile / compatibility / level bytes, one SPS and one PPS -/
theorem avcC_core (pi pc li : UInt8) (sps pps : Bytes) (hs : sps.length < 2^16) (hp : pps.length < 2^16) :
    strictAvcC ([1, pi, pc, li, 0xff, 0xe1] ++ u16be sps.length ++ sps ++ [1] ++ u16be pps.length ++ pps) =
      some ⟨pi.toNat, pc.toNat, li.toNat, [sps], [pps]⟩ := by
  have h1 := readSets_one sps (1 :: (u16be pps.length ++ pps)) hs
  have h2 := readSets_one pps [] hp
  simp only [List.append_nil] at h2
  simp [strictAvcC, be, h1, h2]
  omega

/-- the fixed 23-byte hvcC header as both muxers write it (general_profile byte `b1`, level byte
    `lvl`, byte 21 `b21`, array count `n`), then the arrays -/
theorem hvcC_core (b1 lvl b21 n : UInt8) (rest : Bytes) :
    strictHvcC (1 :: b1 :: 0x60 :: 0 :: 0 :: 0 :: 0x90 :: 0 :: 0 :: 0 :: 0 :: 0 :: lvl :: 0xf0 :: 0 :: 0xfc :: 0xfd ::
        0xf8 :: 0xf8 :: 0 :: 0 :: b21 :: n :: rest) =
      match readArrays n.toNat rest with
      | some (arrs, []) => some ⟨b1.toNat / 64, b1.toNat / 32 % 2, b1.toNat % 32, lvl.toNat, b21.toNat % 4, arrs⟩
      | _ => none := by
  simp [strictHvcC, be]
  cases h : readArrays n.toNat rest with
  | none => simp
  | some x =>
    obtain ⟨arrs, r⟩ := x
    cases r <;> simp

theorem readArrays3 (v s p : Bytes) (hv : v.length < 2^16) (hs : s.length < 2^16) (hp : p.length < 2^16) :
    readArrays 3 (0xA0 :: (u16be 1 ++ (u16be v.length ++ (v ++ (0xA1 :: (u16be 1 ++ (u16be s.length ++ (s ++
      (0xA2 :: (u16be 1 ++ (u16be p.length ++ (p ++ []))))))))))))
      = some ([(32, [v]), (33, [s]), (34, [p])], []) := by
  rw [readArrays_one _ _ _ _ hv (by decide), readArrays_one _ _ _ _ hs (by decide),
    readArrays_one _ _ _ _ hp (by decide)]
  simp [readArrays]

theorem readArrays2 (s p : Bytes) (hs : s.length < 2^16) (hp : p.length < 2^16) :
    readArrays 2 (0xA1 :: (u16be 1 ++ (u16be s.length ++ (s ++
      (0xA2 :: (u16be 1 ++ (u16be p.length ++ (p ++ []))))))))
      = some ([(33, [s]), (34, [p])], []) := by
  rw [readArrays_one _ _ _ _ hs (by decide), readArrays_one _ _ _ _ hp (by decide)]
  simp [readArrays]

/-! ### the profile / level bytes of the progressive hvcC -/

/-- the general_profile byte of the progressive writer's hvcC: SPS byte 3 when present, else 1 -/
def hevcProfileByte (sps : Bytes) : Nat := ((sps[3]?).map (·.toNat)).getD 1

theorem byte_reassemble (x : Nat) (hx : x < 256) :
    (x / 64 % 4 * 64 % 256 + (if decide (x / 32 % 2 ≠ 0) = true then 0x20 else 0) + x % 32 % 32) % 256 = x := by
  have e1 : x / 64 % 4 * 64 % 256 = x / 64 * 64 := by omega
  have e2 : x % 32 % 32 = x % 32 := by omega
  rw [e1, e2]
  by_cases h : x / 32 % 2 = 0
  · simp only [h, ne_eq, not_true_eq_false, decide_false, Bool.false_eq_true, if_false]; omega
  · simp only [h, ne_eq, not_false_eq_true, decide_true, if_true]; omega

theorem hevc_byte1 (c : HevcConfig) :
    (u8 (((match (c.sps[3]?).map (·.toNat) with | some b => b / 64 % 4 | none => 0) * 64) % 256 +
      (if (match (c.sps[3]?).map (·.toNat) with | some b => decide (b / 32 % 2 ≠ 0) | none => false) then 0x20 else 0) +
      (match (c.sps[3]?).map (·.toNat) with | some b => b % 32 | none => 1) % 32)).toNat = hevcProfileByte c.sps := by
  unfold hevcProfileByte
  cases c.sps[3]? with
  | none => simp [u8]
  | some b =>
    simp only [Option.map_some, Option.getD_some, u8, UInt8.toNat_ofNat']
    exact byte_reassemble _ b.toNat_lt

theorem hevc_level (c : HevcConfig) :
    (u8 (match c.sps[14]? with | some b => b.toNat | none => 93)).toNat = ((c.sps[14]?).map (·.toNat)).getD 93 := by
  cases c.sps[14]? with
  | none => rfl
  | some b => simp [u8]

/-! ### first parameter sets of a NAL list -/

/-- first non-empty unit of `l` whose type (under `ty`) is `k` -/
def firstOfType (ty : Bytes → Nat) (k : Nat) (l : List Bytes) : Option Bytes :=
  (l.filter (· ≠ [])).find? (fun n => ty n = k)

theorem firstOfType_nil (ty : Bytes → Nat) (k : Nat) : firstOfType ty k [] = none := rfl

theorem firstOfType_cons_nil (ty : Bytes → Nat) (k : Nat) (l : List Bytes) :
    firstOfType ty k ([] :: l) = firstOfType ty k l := by simp [firstOfType]

theorem firstOfType_cons (ty : Bytes → Nat) (k : Nat) (n : Bytes) (l : List Bytes) (hn : n ≠ []) :
    firstOfType ty k (n :: l) = if ty n = k then some n else firstOfType ty k l := by
  simp [firstOfType, hn, List.find?_cons]
  split <;> simp_all

theorem avcScan_eq (l : List Bytes) (s p : Option Bytes) :
    avcScan l s p = (s.or (firstOfType h264NalType 7 l), p.or (firstOfType h264NalType 8 l)) := by
  induction l generalizing s p with
  | nil => simp [avcScan, firstOfType_nil]
  | cons n ns ih =>
    by_cases hn : n = []
    · subst hn; simp [avcScan, ih, firstOfType_cons_nil]
    · rw [avcScan, firstOfType_cons _ _ _ _ hn, firstOfType_cons _ _ _ _ hn]
      simp only [hn, if_false]
      by_cases h7 : h264NalType n = 7
      · have h8 : ¬ h264NalType n = 8 := by omega
        cases s <;> cases p <;> simp [h7, ih]
      · by_cases h8 : h264NalType n = 8
        · cases s <;> cases p <;> simp [h8, ih]
        · cases s <;> cases p <;> simp [h7, h8, ih]

theorem hevcScan_eq (l : List Bytes) (v s p : Option Bytes) :
    hevcScan l v s p = (v.or (firstOfType hevcNalType 32 l), s.or (firstOfType hevcNalType 33 l),
      p.or (firstOfType hevcNalType 34 l)) := by
  induction l generalizing v s p with
  | nil => simp [hevcScan, firstOfType_nil]
  | cons n ns ih =>
    by_cases hn : n = []
    · subst hn; simp [hevcScan, ih, firstOfType_cons_nil]
    · rw [hevcScan, firstOfType_cons _ _ _ _ hn, firstOfType_cons _ _ _ _ hn, firstOfType_cons _ _ _ _ hn]
      simp only [hn, if_false]
      by_cases h2 : hevcNalType n = 32
      · cases v <;> cases s <;> cases p <;> simp [h2, ih]
      · by_cases h3 : hevcNalType n = 33
        · cases v <;> cases s <;> cases p <;> simp [h3, ih]
        · by_cases h4 : hevcNalType n = 34
          · cases v <;> cases s <;> cases p <;> simp [h4, ih]
          · cases v <;> cases s <;> cases p <;> simp [h2, h3, h4, ih]

/-! ### count-prefixed integer tables -/

theorem readU32s_flatMap (xs : List Nat) (r : Bytes) (h : ∀ x ∈ xs, x < 2^32) :
    readU32s xs.length (xs.flatMap u32be ++ r) = some (xs, r) := by
  induction xs with
  | nil => simp [readU32s]
  | cons x xs ih =>
    have hx : x < 2^32 := h x (by simp)
    have ih' := ih (fun y hy => h y (by simp [hy]))
    simp only [List.flatMap_cons, List.length_cons, List.append_assoc, readU32s]
    rw [readU32_u32be x hx]
    simp only [ih']

theorem readPairs_flatMap (es : List (Nat × Nat)) (r : Bytes)
    (h : ∀ e ∈ es, e.1 < 2^32 ∧ e.2 < 2^32) :
    readPairs es.length ((es.flatMap fun (c, d) => u32be c ++ u32be d) ++ r) = some (es, r) := by
  induction es with
  | nil => simp [readPairs]
  | cons e es ih =>
    obtain ⟨c, d⟩ := e
    have he := h (c, d) (by simp)
    have ih' := ih (fun y hy => h y (by simp [hy]))
    simp only [List.flatMap_cons, List.length_cons, List.append_assoc, readPairs]
    rw [readU32_u32be c he.1]
    simp only []
    rw [readU32_u32be d he.2]
    simp only [ih']

/-- `toI32` of the 32-bit two's-complement pattern gives back an integer that fits `i32` -/
theorem toI32_i32 (z : Int) (h1 : -(2^31 : Int) ≤ z) (h2 : z < 2^31) :
    toI32 (z % (2^32 : Int)).toNat = z := by
  unfold toI32
  split <;> omega

/-- in general, the field written by `i32be z` reads back (signed) as `z` wrapped into the i32 range -/
theorem toI32_wrap (z : Int) : toI32 (z % (2^32 : Int)).toNat = (z + 2^31) % 2^32 - 2^31 := by
  unfold toI32
  split <;> omega

theorem i32_pattern_lt (z : Int) : (z % (2^32 : Int)).toNat < 2^32 := by omega

theorem readPairs_flatMap_i32 (es : List (Nat × Int)) (r : Bytes) (h : ∀ e ∈ es, e.1 < 2^32) :
    readPairs es.length ((es.flatMap fun (c, o) => u32be c ++ i32be o) ++ r) =
      some (es.map (fun (c, o) => (c, (o % (2^32 : Int)).toNat)), r) := by
  induction es with
  | nil => simp [readPairs]
  | cons e es ih =>
    obtain ⟨c, o⟩ := e
    have he := h (c, o) (by simp)
    have ih' := ih (fun y hy => h y (by simp [hy]))
    simp only [List.flatMap_cons, List.length_cons, List.append_assoc, readPairs, i32be]
    rw [readU32_u32be c he]
    simp only []
    rw [readU32_u32be _ (i32_pattern_lt o)]
    simp only [i32be] at ih'
    simp only [ih']
    simp

/-! ### the table decoders in terms of their three reads -/

theorem decodeU32Table_of (p r1 r2 : Bytes) (vf n : Nat) (es : List Nat) (h1 : readU32 p = some (vf, r1))
    (h2 : readU32 r1 = some (n, r2)) (h3 : readU32s n r2 = some (es, [])) : decodeU32Table p = some es := by
  simp [decodeU32Table, fullBox, h1, h2, h3]

theorem decodeStsz_of (p r1 r2 r3 : Bytes) (vf n : Nat) (es : List Nat) (h1 : readU32 p = some (vf, r1))
    (h2 : readU32 r1 = some (0, r2)) (h2' : readU32 r2 = some (n, r3))
    (h3 : readU32s n r3 = some (es, [])) : decodeStsz p = some es := by
  simp [decodeStsz, fullBox, h1, h2, h2', h3]

theorem decodeStts_of (p r1 r2 : Bytes) (vf n : Nat) (es : List (Nat × Nat)) (h1 : readU32 p = some (vf, r1))
    (h2 : readU32 r1 = some (n, r2)) (h3 : readPairs n r2 = some (es, [])) : decodeStts p = some es := by
  simp [decodeStts, fullBox, h1, h2, h3]

theorem decodeCtts_of (p r1 r2 : Bytes) (vf n : Nat) (es : List (Nat × Nat)) (h1 : readU32 p = some (vf, r1))
    (h2 : readU32 r1 = some (n, r2)) (h3 : readPairs n r2 = some (es, [])) :
    decodeCtts p = some (es.map fun (c, o) => (c, if vf / 2^24 = 0 then (o : Int) else toI32 o)) := by
  simp [decodeCtts, fullBox, h1, h2, h3]

theorem decodeStsc_of (p r1 r2 : Bytes) (vf n : Nat) (es : List (Nat × Nat × Nat)) (h1 : readU32 p = some (vf, r1))
    (h2 : readU32 r1 = some (n, r2)) (h3 : readTriples n r2 = some (es, [])) : decodeStsc p = some es := by
  simp [decodeStsc, fullBox, h1, h2, h3]

/-! ### bounds on the chunk offsets assigned by the cursor walk -/

theorem assignOffsets_le_maxPushed (step : Ent → Nat) (es : List Ent) (cur : Nat) :
    (∀ o ∈ (assignOffsets step es cur).1, o ≤ maxPushed step es cur) ∧
    (∀ o ∈ (assignOffsets step es cur).2, o ≤ maxPushed step es cur) := by
  induction es generalizing cur with
  | nil => simp [assignOffsets]
  | cons e es ih =>
    have ih' := ih (cur + step e)
    simp only [assignOffsets, maxPushed]
    by_cases hk : e.kind = 0
    · simp only [hk, if_true, List.mem_cons]
      refine ⟨?_, ?_⟩
      · rintro o (rfl | ho)
        · omega
        · have := ih'.1 o ho; omega
      · intro o ho
        have := ih'.2 o ho; omega
    · simp only [hk, if_false, List.mem_cons]
      refine ⟨?_, ?_⟩
      · intro o ho
        have := ih'.1 o ho; omega
      · rintro o (rfl | ho)
        · omega
        · have := ih'.2 o ho; omega

theorem assignOffsets_le_sum (step : Ent → Nat) (es : List Ent) (cur : Nat) :
    (∀ o ∈ (assignOffsets step es cur).1, o ≤ cur + (es.map step).sum) ∧
    (∀ o ∈ (assignOffsets step es cur).2, o ≤ cur + (es.map step).sum) := by
  induction es generalizing cur with
  | nil => simp [assignOffsets]
  | cons e es ih =>
    have ih' := ih (cur + step e)
    simp only [assignOffsets, List.map_cons, List.sum_cons]
    by_cases hk : e.kind = 0
    · simp only [hk, if_true, List.mem_cons]
      refine ⟨?_, ?_⟩
      · rintro o (rfl | ho)
        · omega
        · have := ih'.1 o ho; omega
      · intro o ho
        have := ih'.2 o ho; omega
    · simp only [hk, if_false, List.mem_cons]
      refine ⟨?_, ?_⟩
      · intro o ho
        have := ih'.1 o ho; omega
      · rintro o (rfl | ho)
        · omega
        · have := ih'.2 o ho; omega

/-! ### run-length tables: counts and values -/

theorem rle_length_le {α} [DecidableEq α] (xs : List α) : (rle xs).length ≤ xs.length := by
  have hp := rle_pos xs
  have hc := counts_rle xs
  have : ∀ l : List (Nat × α), (∀ e ∈ l, 0 < e.1) → l.length ≤ (l.map (·.1)).sum := by
    intro l
    induction l with
    | nil => simp
    | cons e l ih =>
      intro h
      have h1 := h e (by simp)
      have h2 := ih (fun y hy => h y (by simp [hy]))
      simp only [List.length_cons, List.map_cons, List.sum_cons]
      omega
  have := this _ hp
  omega

theorem le_sum_of_mem_nat (l : List Nat) (x : Nat) (h : x ∈ l) : x ≤ l.sum := by
  induction l with
  | nil => simp at h
  | cons y l ih =>
    simp only [List.mem_cons] at h
    simp only [List.sum_cons]
    rcases h with rfl | h
    · omega
    · have := ih h; omega

theorem rle_count_le {α} [DecidableEq α] (xs : List α) : ∀ e ∈ rle xs, e.1 ≤ xs.length := by
  intro e he
  have hc := counts_rle xs
  have : e.1 ≤ ((rle xs).map (·.1)).sum := le_sum_of_mem_nat _ _ (List.mem_map_of_mem he)
  omega

theorem rle_value_mem {α} [DecidableEq α] (xs : List α) : ∀ e ∈ rle xs, e.2 ∈ xs := by
  intro e he
  have hp := rle_pos xs e he
  have hx := expandRuns_rle xs
  have : e.2 ∈ expandRuns (rle xs) := by
    simp only [expandRuns, List.mem_flatMap]
    exact ⟨e, he, by simp [List.mem_replicate]; omega⟩
  rwa [hx] at this

/-- a 16-bit quantity written as 16.16 fixed point into a 32-bit field is exact -/
theorem fixed16_exact (w : Nat) (h : w < 2^16) : w * 2^16 % 2^32 = w * 65536 := by omega

/-! ### language code, user-data box type -/

/-- the packed language code always fits 15 bits (same statement as `langCode_lt` of Lemmas/Meta.lean,
    re-proved here so that this file does not depend on the date lemmas) -/
theorem langCode_lt15 (cps : List Nat) : langCode cps < 2^15 := by
  simp only [langCode]
  omega

theorem bUdta_typ (m : Metadata) (u : Box) (h : bUdta m = some u) : u.typ = ascii "udta" := by
  simp only [bUdta, Option.ite_none_left_eq_some] at h
  obtain ⟨_, h⟩ := h
  cases h
  rfl

end Muxide
