import Muxide.Model.Api
import Muxide.Lemmas.Bytes
/-
  Muxide.Lemmas.Timing — helper lemmas for C03 / C06 / C09: run-length tables, the per-track
  writer invariant, `durationsOf`, `ctsOf`, `trackEnd`.
-/
namespace Muxide

/-! ### run-length encoding -/

/-- expansion of a run-length table (what a reader of stts / ctts does) -/
def rleExpand {α} (es : List (Nat × α)) : List α := es.flatMap fun (c, x) => List.replicate c x

@[simp] theorem rleExpand_nil {α} : rleExpand ([] : List (Nat × α)) = [] := rfl

theorem rleExpand_append {α} (a b : List (Nat × α)) : rleExpand (a ++ b) = rleExpand a ++ rleExpand b := by
  simp [rleExpand]

theorem rleExpand_single {α} (c : Nat) (x : α) : rleExpand [(c, x)] = List.replicate c x := by
  simp [rleExpand]

theorem rleAux_expand {α} [DecidableEq α] (xs : List α) (acc : List (Nat × α)) :
    rleExpand (rleAux xs acc) = rleExpand acc.reverse ++ xs := by
  induction xs generalizing acc with
  | nil => simp [rleAux]
  | cons x xs ih =>
    cases acc with
    | nil => simp [rleAux, ih, rleExpand_single]
    | cons p acc =>
      obtain ⟨c, y⟩ := p
      simp only [rleAux]
      split
      · next h =>
        subst h
        rw [ih]
        simp [rleExpand_append, rleExpand_single, List.replicate_succ']
      · rw [ih]
        simp [rleExpand]

/-- every run has a positive count and adjacent runs carry different values (newest-first accumulator) -/
def RunsOK {α} : List (Nat × α) → Prop
  | [] => True
  | [p] => 0 < p.1
  | p :: q :: r => 0 < p.1 ∧ p.2 ≠ q.2 ∧ RunsOK (q :: r)

theorem RunsOK_snoc {α} (l : List (Nat × α)) (q p : Nat × α) :
    RunsOK (l ++ [q, p]) ↔ RunsOK (l ++ [q]) ∧ q.2 ≠ p.2 ∧ 0 < p.1 := by
  induction l with
  | nil => simp only [List.nil_append, RunsOK]
  | cons a l ih =>
    cases l with
    | nil => simp only [List.cons_append, List.nil_append, RunsOK]; grind
    | cons b l =>
      simp only [List.cons_append, RunsOK] at ih ⊢
      rw [ih]; grind

theorem RunsOK_reverse {α} (l : List (Nat × α)) :
    RunsOK l.reverse ↔ RunsOK l := by
  induction l with
  | nil => simp
  | cons p l ih =>
    cases l with
    | nil => simp
    | cons q l =>
      have : (p :: q :: l).reverse = l.reverse ++ [q, p] := by simp
      rw [this, RunsOK_snoc]
      have h2 : l.reverse ++ [q] = (q :: l).reverse := by simp
      rw [h2, ih]
      simp only [RunsOK]
      constructor
      · rintro ⟨a, b, c⟩; exact ⟨c, fun h => b h.symm, a⟩
      · rintro ⟨a, b, c⟩; exact ⟨c, fun h => b h.symm, a⟩

theorem rleAux_runsOK {α} [DecidableEq α] (xs : List α) (acc : List (Nat × α)) (h : RunsOK acc) :
    RunsOK (rleAux xs acc) := by
  induction xs generalizing acc with
  | nil => simp only [rleAux]; exact (RunsOK_reverse acc).mpr h
  | cons x xs ih =>
    cases acc with
    | nil => simp only [rleAux]; apply ih; simp [RunsOK]
    | cons p acc =>
      obtain ⟨c, y⟩ := p
      simp only [rleAux]
      split
      · apply ih
        cases acc with
        | nil => simp [RunsOK]
        | cons q acc => simp only [RunsOK] at h ⊢; exact ⟨by omega, h.2.1, h.2.2⟩
      · next hne =>
        apply ih
        cases acc with
        | nil => simp only [RunsOK] at h ⊢; exact ⟨by omega, fun e => hne e.symm, h⟩
        | cons q acc => simp only [RunsOK] at h ⊢; exact ⟨by omega, fun e => hne e.symm, h⟩

/-! ### the writer calls, case by case -/

/-- the three outcomes of `Writer.writeVideo` -/
theorem writeVideo_cases (w : Writer) (pts dts : Nat) (data : Bytes) (key : Bool) :
    ((w.writeVideo pts dts data key).1 = w ∧ (w.writeVideo pts dts data key).2 ≠ .ok) ∨
    ((w.writeVideo pts dts data key).2 = .ok ∧ w.finalized = false ∧
      -(2^31 : Int) ≤ (pts : Int) - dts ∧ (pts : Int) - dts ≤ 2^31 - 1 ∧
      ((w.vPrev = none ∧ ∃ c, (w.writeVideo pts dts data key).1 =
          { w with vConfig := some c, vsRev := ⟨pts, dts, convertPayload w.codec data, key, none⟩ :: w.vsRev,
                   vPrev := some dts }) ∨
       (∃ prev, w.vPrev = some prev ∧ prev < dts ∧ dts - prev ≤ u32Max ∧
          (w.writeVideo pts dts data key).1 =
          { w with vsRev := ⟨pts, dts, convertPayload w.codec data, key, none⟩ :: setLastDur w.vsRev (dts - prev),
                   vLastDelta := some (dts - prev), vPrev := some dts }))) := by
  by_cases hf : w.finalized = true
  · left; simp [Writer.writeVideo, hf]
  have hf' : w.finalized = false := by simpa using hf
  cases hp : w.vPrev with
  | some prev =>
      by_cases h1 : dts ≤ prev
      · left; simp [Writer.writeVideo, hf, hp, h1]
      by_cases h2 : dts - prev > u32Max
      · left; simp [Writer.writeVideo, hf, hp, h1, h2]
      by_cases h3 : (convertPayload w.codec data).length > u32Max
      · left; simp [Writer.writeVideo, hf, hp, h1, h2, h3]
      by_cases h4 : 2147483647 < (pts : Int) - (dts : Int) ∨ (pts : Int) - (dts : Int) < -2147483648
      · left; simp [Writer.writeVideo, hf, hp, h1, h2, h3, h4]
      right
      simp only [Writer.writeVideo, hf, hp, h1, h2, h3]
      simp
      simp only [if_neg h4]
      simp
      omega
  | none =>
      by_cases hk : key = true
      · cases hc : extractConfig w.codec data with
        | none => left; simp [Writer.writeVideo, hf, hp, hk, hc]
        | some c =>
          by_cases h3 : (convertPayload w.codec data).length > u32Max
          · left; simp [Writer.writeVideo, hf, hp, hk, hc, h3]
          by_cases h4 : 2147483647 < (pts : Int) - (dts : Int) ∨ (pts : Int) - (dts : Int) < -2147483648
          · left; simp [Writer.writeVideo, hf, hp, hk, hc, h3, h4]
          right
          simp only [Writer.writeVideo, hf, hp, hk, hc, h3]
          simp
          simp only [if_neg h4]
          simp [hf']
          omega
      · left; simp [Writer.writeVideo, hf, hp, hk]


theorem writeAudio_cases (w : Writer) (pts : Nat) (data : Bytes) :
    ((w.writeAudio pts data).1 = w ∧ (w.writeAudio pts data).2 ≠ .ok) ∨
    ((w.writeAudio pts data).2 = .ok ∧ w.finalized = false ∧ ∃ sd,
      ((w.aPrev = none ∧ (w.writeAudio pts data).1 =
          { w with asRev := ⟨pts, pts, sd, false, none⟩ :: w.asRev, aPrev := some pts }) ∨
       (∃ prev, w.aPrev = some prev ∧ prev ≤ pts ∧ pts - prev ≤ u32Max ∧
          (w.writeAudio pts data).1 =
          { w with asRev := ⟨pts, pts, sd, false, none⟩ :: setLastDur w.asRev (pts - prev),
                   aLastDelta := some (pts - prev), aPrev := some pts }))) := by
  by_cases hf : w.finalized = true
  · left; simp [Writer.writeAudio, hf]
  cases ha : w.audio with
  | none => left; simp [Writer.writeAudio, hf, ha]
  | some tr =>
  cases hp : w.aPrev with
  | some prev =>
    by_cases h1 : pts < prev
    · left; simp [Writer.writeAudio, hf, ha, hp, h1]
    by_cases h2 : pts - prev > u32Max
    · left; simp [Writer.writeAudio, hf, ha, hp, h1, h2]
    simp only [Writer.writeAudio, hf, ha, hp, h1, h2]
    simp only [Bool.false_eq_true, if_false]
    split
    · left; simp
    · next sd _ =>
      by_cases h3 : sd.length > u32Max
      · left; simp [h3]
      · right; simp only [h3, if_false]
        refine ⟨trivial, by simp, sd, Or.inr ⟨prev, rfl, by omega, by omega, ?_⟩⟩
        simp
  | none =>
    simp only [Writer.writeAudio, hf, ha, hp]
    simp only [Bool.false_eq_true, if_false]
    split
    · left; simp
    · next sd _ =>
      by_cases h3 : sd.length > u32Max
      · left; simp [h3]
      · right; simp only [h3, if_false]
        refine ⟨trivial, by simp, sd, Or.inl ⟨trivial, ?_⟩⟩
        simp

/-! ### per-track invariant of the sample queue (newest first) -/

/-- consecutive samples of a newest-first queue: decode times ordered (strictly for video),
    the step fits 32 bits, and the older sample's duration is exactly the step -/
def Linked (strict : Bool) : List Sample → Prop
  | s :: t :: r => t.dts ≤ s.dts ∧ (strict = true → t.dts < s.dts) ∧ s.dts - t.dts ≤ u32Max ∧
      t.dur = some (s.dts - t.dts) ∧ Linked strict (t :: r)
  | _ => True

/-- step between the two newest samples -/
def lastDeltaOf : List Sample → Option Nat
  | s :: t :: _ => some (s.dts - t.dts)
  | _ => none

structure TrackInv (strict : Bool) (rev : List Sample) (prev ld : Option Nat) : Prop where
  linked : Linked strict rev
  newest : ∀ s r, rev = s :: r → s.dur = none
  prev_eq : prev = rev.head?.map (·.dts)
  ld_eq : ld = lastDeltaOf rev
  cts : ∀ s ∈ rev, -(2^31 : Int) ≤ (s.pts : Int) - s.dts ∧ (s.pts : Int) - s.dts ≤ 2^31 - 1

theorem TrackInv_nil (strict : Bool) : TrackInv strict [] none none :=
  ⟨trivial, by simp, rfl, rfl, by simp⟩

theorem Linked_head_congr {strict : Bool} {s s' : Sample} {r : List Sample} (h : Linked strict (s :: r))
    (e : s'.dts = s.dts) : Linked strict (s' :: r) := by
  cases r with
  | nil => trivial
  | cons t r => simp only [Linked] at h ⊢; rw [e]; exact h

theorem TrackInv_push_first {strict : Bool} {rev : List Sample} {ld : Option Nat}
    (h : TrackInv strict rev none ld) (pts dts : Nat) (d : Bytes) (k : Bool)
    (hc : -(2^31 : Int) ≤ (pts : Int) - dts ∧ (pts : Int) - dts ≤ 2^31 - 1) :
    TrackInv strict (⟨pts, dts, d, k, none⟩ :: rev) (some dts) ld := by
  have hr : rev = [] := by
    have := h.prev_eq
    cases rev with
    | nil => rfl
    | cons a b => simp at this
  subst hr
  exact ⟨trivial, by simp, rfl, h.ld_eq, by simpa using hc⟩

theorem TrackInv_push_next {strict : Bool} {rev : List Sample} {prev : Nat} {ld : Option Nat}
    (h : TrackInv strict rev (some prev) ld) (pts dts : Nat) (d : Bytes) (k : Bool)
    (h1 : prev ≤ dts) (h1' : strict = true → prev < dts) (h2 : dts - prev ≤ u32Max)
    (hc : -(2^31 : Int) ≤ (pts : Int) - dts ∧ (pts : Int) - dts ≤ 2^31 - 1) :
    TrackInv strict (⟨pts, dts, d, k, none⟩ :: setLastDur rev (dts - prev)) (some dts) (some (dts - prev)) := by
  cases rev with
  | nil => have := h.prev_eq; simp at this
  | cons s r =>
    have hp : prev = s.dts := by have := h.prev_eq; simpa using this
    subst hp
    refine ⟨?_, by simp, rfl, rfl, ?_⟩
    · simp only [setLastDur, Linked]
      exact ⟨h1, h1', h2, trivial, Linked_head_congr h.linked rfl⟩
    · intro x hx
      simp only [setLastDur, List.mem_cons] at hx
      rcases hx with rfl | rfl | hx
      · exact hc
      · exact h.cts s (by simp)
      · exact h.cts x (by simp [hx])

def VInv (w : Writer) : Prop := TrackInv true w.vsRev w.vPrev w.vLastDelta
def AInv (w : Writer) : Prop := TrackInv false w.asRev w.aPrev w.aLastDelta ∧ ∀ s ∈ w.asRev, s.pts = s.dts

/-! ### `durationsOf` -/

theorem durationsOf_nil (fb : Option Nat) : durationsOf [] fb = [] := by
  simp [durationsOf]

theorem durationsOf_snoc (xs : List Sample) (s : Sample) (fb : Option Nat) :
    durationsOf (xs ++ [s]) fb = xs.map (fun x => x.dur.getD 1) ++ [s.dur.getD (fb.getD 1)] := by
  simp only [durationsOf, List.length_append, List.length_cons, List.length_nil, Nat.zero_add,
    Nat.add_sub_cancel]
  rw [List.range_succ, List.zip_append (by simp), List.map_append]
  congr 1
  · refine (List.map_congr_left (g := fun p => (fun x : Sample => x.dur.getD 1) p.2) ?_).trans ?_
    · rintro ⟨i, x⟩ hp
      have hi := (List.of_mem_zip hp).1
      simp only [List.mem_range] at hi
      cases hx : x.dur with
      | none => simp [hx]; omega
      | some d => simp [hx]
    · have := List.map_snd_zip (l₁ := List.range xs.length) (l₂ := xs) (by simp)
      conv => rhs; rw [← this]
      rw [List.map_map]; rfl
  · simp
    cases s.dur <;> simp

/-! ### steps of a timestamp list -/

/-- consecutive differences `[d₁ - d₀, d₂ - d₁, …]` -/
def deltas : List Nat → List Nat
  | a :: b :: r => (b - a) :: deltas (b :: r)
  | _ => []

theorem deltas_eq_zipWith (ds : List Nat) : deltas ds = List.zipWith (· - ·) ds.tail ds := by
  induction ds with
  | nil => rfl
  | cons a tl ih =>
    cases tl with
    | nil => rfl
    | cons b r => simp only [deltas, List.tail_cons, List.zipWith_cons_cons] at ih ⊢; rw [ih]

theorem deltas_length (ds : List Nat) : (deltas ds).length = ds.length - 1 := by
  induction ds with
  | nil => rfl
  | cons a tl ih =>
    cases tl with
    | nil => rfl
    | cons b r => simp only [deltas, List.length_cons] at ih ⊢; omega

theorem deltas_snoc (l : List Nat) (b a : Nat) : deltas (l ++ [b, a]) = deltas (l ++ [b]) ++ [a - b] := by
  induction l with
  | nil => simp [deltas]
  | cons x l ih =>
    cases l with
    | nil => simp [deltas]
    | cons y l => simp only [List.cons_append, deltas] at ih ⊢; rw [ih]

/-- telescoping: the first `k` steps of a non-decreasing list add up to `ds[k] - ds[0]` exactly -/
theorem deltas_telescope (ds : List Nat) (h : ds.Pairwise (· ≤ ·)) (k : Nat) (hk : k < ds.length) :
    ds[0] + ((deltas ds).take k).sum = ds[k] := by
  induction ds generalizing k with
  | nil => simp at hk
  | cons a tl ih =>
    cases k with
    | zero => simp
    | succ k =>
      cases tl with
      | nil => simp at hk
      | cons b r =>
        have hab : a ≤ b := by
          have := (List.pairwise_cons.mp h).1 b (by simp); exact this
        have := ih (List.pairwise_cons.mp h).2 k (by simpa using hk)
        simp only [deltas, List.take_succ_cons, List.sum_cons, List.getElem_cons_succ,
          List.getElem_cons_zero] at this ⊢
        omega

theorem Linked_pairwise {strict : Bool} {l : List Sample} (h : Linked strict l) :
    l.Pairwise (fun a b => b.dts ≤ a.dts) := by
  induction l with
  | nil => exact List.Pairwise.nil
  | cons s r ih =>
    cases r with
    | nil => simp
    | cons t r =>
      simp only [Linked] at h
      have ht := ih h.2.2.2.2
      refine List.pairwise_cons.mpr ⟨?_, ht⟩
      intro x hx
      rcases List.mem_cons.mp hx with rfl | hx
      · exact h.1
      · exact Nat.le_trans ((List.pairwise_cons.mp ht).1 x hx) h.1

theorem Linked_strict_pairwise {l : List Sample} (h : Linked true l) :
    l.Pairwise (fun a b => b.dts < a.dts) := by
  induction l with
  | nil => exact List.Pairwise.nil
  | cons s r ih =>
    cases r with
    | nil => simp
    | cons t r =>
      simp only [Linked] at h
      have ht := ih h.2.2.2.2
      refine List.pairwise_cons.mpr ⟨?_, ht⟩
      intro x hx
      rcases List.mem_cons.mp hx with rfl | hx
      · exact h.2.1 trivial
      · exact Nat.lt_trans ((List.pairwise_cons.mp ht).1 x hx) (h.2.1 trivial)

/-- forward decode-time list of a queue -/
def dtsOf (rev : List Sample) : List Nat := rev.reverse.map (·.dts)

theorem dtsOf_sorted {strict : Bool} {l : List Sample} (h : Linked strict l) :
    (dtsOf l).Pairwise (· ≤ ·) := by
  simp only [dtsOf, List.pairwise_map, List.pairwise_reverse]
  exact Linked_pairwise h

theorem dtsOf_strict {l : List Sample} (h : Linked true l) :
    (dtsOf l).Pairwise (· < ·) := by
  simp only [dtsOf, List.pairwise_map, List.pairwise_reverse]
  exact Linked_strict_pairwise h

/-- older samples carry exactly the steps of the decode-time list -/
theorem Linked_durs {strict : Bool} (s : Sample) (r : List Sample) (h : Linked strict (s :: r)) :
    r.reverse.map (fun x => x.dur.getD 1) = deltas (dtsOf (s :: r)) := by
  induction r generalizing s with
  | nil => simp [dtsOf, deltas]
  | cons t r ih =>
    simp only [Linked] at h
    have := ih t h.2.2.2.2
    simp only [dtsOf, List.reverse_cons, List.map_append, List.map_cons, List.map_nil,
      List.append_assoc, List.cons_append, List.nil_append] at this ⊢
    rw [deltas_snoc, ← this, h.2.2.2.1]
    simp

/-- the durations the file assigns to a non-empty track: the steps, then the fallback for the
    newest sample -/
theorem TrackInv_durations {strict : Bool} {s : Sample} {r : List Sample} {prev ld : Option Nat}
    (h : TrackInv strict (s :: r) prev ld) :
    durationsOf (s :: r).reverse ld = deltas (dtsOf (s :: r)) ++ [ld.getD 1] := by
  rw [List.reverse_cons, durationsOf_snoc, Linked_durs s r h.linked, h.newest s r rfl]
  simp

/-! ### `ctsOf` -/

theorem toI32_roundtrip (z : Int) (h1 : -(2^31 : Int) ≤ z) (h2 : z ≤ 2^31 - 1) :
    toI32 ((z % (2^32 : Int)).toNat) = z := by
  unfold toI32
  split <;> omega

/-- `ctsOf` is exact whenever the difference fits an `i32` (the 128-bit subtraction cannot
    overflow; only the final truncation to 32 bits matters) -/
theorem ctsOf_char (pts dts : Nat) (_hp : pts < 2^64) (_hd : dts < 2^64)
    (h1 : -(2^31 : Int) ≤ (pts : Int) - dts) (h2 : (pts : Int) - dts ≤ 2^31 - 1) :
    ctsOf pts dts = some ((pts : Int) - dts) := by
  simp only [ctsOf]
  rw [toI32_roundtrip _ h1 h2]

theorem ctsOf_exact (pts dts : Nat) (hp : pts < 2^63) (hd : dts < 2^63)
    (h1 : -(2^31 : Int) ≤ (pts : Int) - dts) (h2 : (pts : Int) - dts ≤ 2^31 - 1) :
    ctsOf pts dts = some ((pts : Int) - dts) :=
  ctsOf_char pts dts (by omega) (by omega) h1 h2

theorem ctsOf_exact_of_isSome (pts dts : Nat) (hp : pts < 2^64) (hd : dts < 2^64)
    (h1 : -(2^31 : Int) ≤ (pts : Int) - dts) (h2 : (pts : Int) - dts ≤ 2^31 - 1)
    (_hs : (ctsOf pts dts).isSome) : ctsOf pts dts = some ((pts : Int) - dts) :=
  ctsOf_char pts dts hp hd h1 h2

theorem Linked_durs_le {strict : Bool} (s : Sample) (r : List Sample) (h : Linked strict (s :: r)) :
    ∀ x ∈ r, x.dur.getD 1 ≤ u32Max := by
  induction r generalizing s with
  | nil => simp
  | cons t r ih =>
    simp only [Linked] at h
    intro x hx
    rcases List.mem_cons.mp hx with rfl | hx
    · rw [h.2.2.2.1]; exact h.2.2.1
    · exact ih t h.2.2.2.2 x hx

theorem lastDeltaOf_le {strict : Bool} {l : List Sample} (h : Linked strict l) :
    (lastDeltaOf l).getD 1 ≤ u32Max := by
  match l, h with
  | [], _ => simp [lastDeltaOf, u32Max]
  | [_], _ => simp [lastDeltaOf, u32Max]
  | s :: t :: r, h => simp only [Linked] at h; simpa [lastDeltaOf] using h.2.2.1

theorem TrackInv_durations_le {strict : Bool} {rev : List Sample} {prev ld : Option Nat}
    (h : TrackInv strict rev prev ld) : ∀ d ∈ durationsOf rev.reverse ld, d ≤ u32Max := by
  cases rev with
  | nil => simp [durationsOf_nil]
  | cons s r =>
    rw [List.reverse_cons, durationsOf_snoc, h.newest s r rfl]
    intro d hd
    simp only [List.mem_append, List.mem_map, List.mem_reverse, List.mem_cons, List.not_mem_nil,
      or_false, Option.getD_none] at hd
    rcases hd with ⟨x, hx, rfl⟩ | rfl
    · exact Linked_durs_le s r h.linked x hx
    · rw [h.ld_eq]; exact lastDeltaOf_le h.linked

/-! ### `finalize` / `finishStats` -/

theorem finalize_fst (w : Writer) (width height : Nat) (md : Option Metadata) (fast : Bool) :
    (w.finalize width height md fast).1 = { w with finalized := true } := by
  unfold Writer.finalize
  split
  · next h => cases w; simp_all
  · simp only []
    split
    · rfl
    · split <;> rfl

theorem finalize_of_finalized (w : Writer) (width height : Nat) (md : Option Metadata) (fast : Bool)
    (h : w.finalized = true) :
    w.finalize width height md fast = (w, ⟨[], .ioErr "mp4 writer already finalised"⟩) := by
  simp [Writer.finalize, h]

theorem maxEndPts_congr (w w' : Writer) (h1 : w'.vsRev = w.vsRev) (h2 : w'.vLastDelta = w.vLastDelta)
    (h3 : w'.asRev = w.asRev) (h4 : w'.aLastDelta = w.aLastDelta) : w'.maxEndPts = w.maxEndPts := by
  simp [Writer.maxEndPts, h1, h2, h3, h4]
open Box


theorem leaf_typ (s : String) (p : Bytes) : (leaf s p).typ = ascii s := rfl
theorem node_typ (s : String) (p : Bytes) (k : List Box) : (node s p k).typ = ascii s := rfl
theorem node_kids (s : String) (p : Bytes) (k : List Box) : (node s p k).kids = k := rfl

theorem bStsc_typ (a b : Nat) : (bStsc a b).typ = ascii "stsc" := by
  unfold bStsc; split <;> rfl

theorem ctts_kids (width height : Nat) (t : Tables) (vc : VideoConfig) :
    (bVideoStbl width height t vc).kids.filter (fun b => b.typ = ascii "ctts") =
      if t.hasBframes then [bCtts t.ctsOffsets] else [] := by
  have e1 : (ascii "stsd" = ascii "ctts") = False := by decide
  have e2 : (ascii "stts" = ascii "ctts") = False := by decide
  have e3 : (ascii "stsc" = ascii "ctts") = False := by decide
  have e4 : (ascii "stsz" = ascii "ctts") = False := by decide
  have e5 : (ascii "stco" = ascii "ctts") = False := by decide
  have e6 : (ascii "stss" = ascii "ctts") = False := by decide
  simp only [bVideoStbl, node_kids]
  cases t.hasBframes <;> by_cases hk : t.keyframes = [] <;>
    simp [hk, bStsc_typ, bStsd, bStts, bCtts, bStsz, bStco, bStss, node_typ, leaf_typ, e1, e2, e3, e4, e5, e6]

theorem moovPanics_false (width height : Nat) (vs aus : List Sample) (b : Bool)
    (h : moovPanics width height vs aus b = false) : ∀ s ∈ vs, (ctsOf s.pts s.dts).isSome := by
  intro s hs
  simp only [moovPanics, Bool.or_eq_false_iff] at h
  have := h.1.1.1
  rw [List.any_eq_false] at this
  have := this s hs
  cases hc : ctsOf s.pts s.dts <;> simp_all

theorem finalizeStandard_ok (w : Writer) (width height : Nat) (md : Option Metadata) (vc : VideoConfig)
    (h : (finalizeStandard w width height md vc).res = .ok) :
    ∀ s ∈ w.vsRev.reverse, (ctsOf s.pts s.dts).isSome := by
  unfold finalizeStandard at h
  simp only [] at h
  split at h
  · split at h
    · simp at h
    · split at h
      · simp at h
      · next hp => exact moovPanics_false _ _ _ _ _ (by simpa using hp)
  · split at h
    · simp at h
    · split at h
      · simp at h
      · split at h
        · simp at h
        · next hp => exact moovPanics_false _ _ _ _ _ (by simpa using hp)

theorem finalizeFastStart_ok (w : Writer) (width height : Nat) (md : Option Metadata) (vc : VideoConfig)
    (h : (finalizeFastStart w width height md vc).res = .ok) :
    ∀ s ∈ w.vsRev.reverse, (ctsOf s.pts s.dts).isSome := by
  unfold finalizeFastStart at h
  simp only [] at h
  split at h
  · simp at h
  · split at h
    · split at h
      · simp at h
      · next hp => exact moovPanics_false _ _ _ _ _ (by simpa using hp)
    · split at h
      · simp at h
      · next hp => exact moovPanics_false _ _ _ _ _ (by simpa using hp)

theorem finalize_ok_cts (w : Writer) (width height : Nat) (md : Option Metadata) (fast : Bool)
    (h : (w.finalize width height md fast).2.res = .ok) :
    (∀ s ∈ w.vsRev, (ctsOf s.pts s.dts).isSome) ∧
    (durationsOf w.vsRev.reverse w.vLastDelta).sum ≤ u32Max ∧
    (durationsOf w.asRev.reverse w.aLastDelta).sum ≤ u32Max := by
  unfold Writer.finalize at h
  split at h
  · simp at h
  · simp only [] at h
    split at h
    · simp at h
    · next hd =>
      split at h
      · simp at h
      · refine ⟨?_, by omega, by omega⟩
        intro s hs
        have hs' : s ∈ w.vsRev.reverse := by simpa using hs
        cases fast
        · exact finalizeStandard_ok _ _ _ _ _ (by simpa using h) s hs'
        · exact finalizeFastStart_ok _ _ _ _ _ (by simpa using h) s hs'

theorem dtsOf_length (rev : List Sample) : (dtsOf rev).length = rev.length := by simp [dtsOf]

/-- per-track: the decode time the file assigns to sample `k` (sum of the first `k` durations)
    is `dts_k - dts_0` exactly -/
theorem track_nodrift {strict : Bool} {rev : List Sample} {prev ld : Option Nat}
    (h : TrackInv strict rev prev ld) (k : Nat) (hk : k < rev.length) :
    (dtsOf rev)[0]'(by rw [dtsOf_length]; omega) + ((durationsOf rev.reverse ld).take k).sum =
      (dtsOf rev)[k]'(by rw [dtsOf_length]; exact hk) := by
  cases rev with
  | nil => simp at hk
  | cons s r =>
    rw [TrackInv_durations h, List.take_append_of_le_length]
    · exact deltas_telescope _ (dtsOf_sorted h.linked) k (by rw [dtsOf_length]; exact hk)
    · rw [deltas_length, dtsOf_length]; simp at hk ⊢; omega

/-- the same with the samples named: `s0` the first (oldest) sample, `sk` the k-th -/
theorem track_nodrift' {strict : Bool} {rev : List Sample} {prev ld : Option Nat}
    (h : TrackInv strict rev prev ld) (k : Nat) (s0 sk : Sample)
    (h0 : rev.reverse[0]? = some s0) (hk : rev.reverse[k]? = some sk) :
    s0.dts + ((durationsOf rev.reverse ld).take k).sum = sk.dts := by
  obtain ⟨hk1, hk2⟩ := List.getElem?_eq_some_iff.mp hk
  obtain ⟨h01, h02⟩ := List.getElem?_eq_some_iff.mp h0
  have := track_nodrift h k (by simpa using hk1)
  simp only [dtsOf, List.getElem_map] at this
  rw [h02, hk2] at this
  exact this

/-- file presentation time of audio sample `k`: the audio sample table has no ctts, so it is the
    decode time, the sum of the first `k` stts durations -/
def fileAudioPT (w : Writer) (k : Nat) : Nat :=
  ((durationsOf w.asRev.reverse w.aLastDelta).take k).sum

/-- file presentation time of the first video sample: decode time 0 plus its composition offset
    (0 when there is no ctts, i.e. all offsets are 0) -/
def fileVideoPT0 (w : Writer) (offs : List Nat) (spc : Nat) : Int :=
  0 + (Tables.ofSamples w.vsRev.reverse offs spc w.vLastDelta).ctsOffsets.headD 0

/-! ### `trackEnd` -/

theorem foldl_max_spec {α} (f : α → Nat) (l : List α) (e0 : Nat) :
    e0 ≤ l.foldl (fun acc x => max acc (f x)) e0 ∧
    (∀ x ∈ l, f x ≤ l.foldl (fun acc x => max acc (f x)) e0) ∧
    (l.foldl (fun acc x => max acc (f x)) e0 = e0 ∨
      ∃ x ∈ l, l.foldl (fun acc x => max acc (f x)) e0 = f x) := by
  induction l generalizing e0 with
  | nil => simp
  | cons a l ih =>
    obtain ⟨h1, h2, h3⟩ := ih (max e0 (f a))
    simp only [List.foldl_cons, List.mem_cons]
    refine ⟨by omega, ?_, ?_⟩
    · rintro x (rfl | hx)
      · omega
      · exact h2 x hx
    · rcases h3 with h3 | ⟨x, hx, h3⟩
      · by_cases hle : e0 ≤ f a
        · right; exact ⟨a, Or.inl rfl, by rw [h3]; omega⟩
        · left; rw [h3]; omega
      · right; exact ⟨x, Or.inr hx, h3⟩

/-- presentation end of every sample, oldest first: `pts + duration` saturating at u64::MAX, where
    the durations are the decode-time steps and the newest sample takes `ld.getD 0` -/
def trackEnds (rev : List Sample) (ld : Option Nat) : List Nat :=
  List.zipWith (fun s d => min (s.pts + d) u64Max) rev.reverse (deltas (dtsOf rev) ++ [ld.getD 0])

theorem Linked_dur_isSome {strict : Bool} (s : Sample) (r : List Sample) (h : Linked strict (s :: r)) :
    ∀ x ∈ r, x.dur.getD 0 = x.dur.getD 1 := by
  induction r generalizing s with
  | nil => simp
  | cons t r ih =>
    simp only [Linked] at h
    intro x hx
    rcases List.mem_cons.mp hx with rfl | hx
    · rw [h.2.2.2.1]; rfl
    · exact ih t h.2.2.2.2 x hx

theorem trackEnds_cons {strict : Bool} {s : Sample} {r : List Sample} {prev ld : Option Nat}
    (h : TrackInv strict (s :: r) prev ld) :
    trackEnds (s :: r) ld =
      r.reverse.map (fun x => min (x.pts + x.dur.getD 0) u64Max) ++ [min (s.pts + ld.getD 0) u64Max] := by
  unfold trackEnds
  rw [← Linked_durs s r h.linked, List.reverse_cons, List.zipWith_append (by simp)]
  congr 1
  rw [List.zipWith_map_right]
  rw [List.zipWith_self]
  apply List.map_congr_left
  intro x hx
  rw [Linked_dur_isSome s r h.linked x (by simpa using hx)]

/-- `trackEnd` is the largest presentation end over all samples of the track, exactly -/
theorem trackEnd_spec {strict : Bool} {rev : List Sample} {prev ld : Option Nat}
    (h : TrackInv strict rev prev ld) :
    (rev = [] → trackEnd rev ld = none) ∧
    (rev ≠ [] → ∃ m, trackEnd rev ld = some m ∧ m ∈ trackEnds rev ld ∧ ∀ e ∈ trackEnds rev ld, e ≤ m) := by
  constructor
  · rintro rfl; rfl
  · intro hne
    cases rev with
    | nil => exact absurd rfl hne
    | cons s r =>
      have hs := h.newest s r rfl
      obtain ⟨h1, h2, h3⟩ := foldl_max_spec (fun x : Sample => min (x.pts + x.dur.getD 0) u64Max) r
        (min (s.pts + ld.getD 0) u64Max)
      refine ⟨_, by simp only [trackEnd, hs]; rfl, ?_, ?_⟩
      · rw [trackEnds_cons h]
        simp only [List.mem_append, List.mem_map, List.mem_reverse, List.mem_cons, List.not_mem_nil, or_false]
        rcases h3 with h3 | ⟨x, hx, h3⟩
        · right; exact h3
        · left; exact ⟨x, hx, h3.symm⟩
      · rw [trackEnds_cons h]
        intro e he
        simp only [List.mem_append, List.mem_map, List.mem_reverse, List.mem_cons, List.not_mem_nil, or_false] at he
        rcases he with ⟨x, hx, rfl⟩ | rfl
        · exact h2 x hx
        · exact h1

/-- the durations used for the presentation ends are the file's sample durations when the track
    has two or more samples; a lone sample counts with duration 0 -/
theorem trackEnds_durations {strict : Bool} {rev : List Sample} {prev ld : Option Nat}
    (h : TrackInv strict rev prev ld) :
    (2 ≤ rev.length → trackEnds rev ld =
      List.zipWith (fun s d => min (s.pts + d) u64Max) rev.reverse (durationsOf rev.reverse ld)) ∧
    (∀ s, rev = [s] → trackEnds rev ld = [min (s.pts + 0) u64Max]) := by
  constructor
  · intro h2
    match rev, h, h2 with
    | s :: t :: r, h, _ =>
      rw [TrackInv_durations h, trackEnds, h.ld_eq]; rfl
  · rintro s rfl
    rw [trackEnds, h.ld_eq]; simp [dtsOf, deltas, lastDeltaOf]

/-- the moov box of a finished file is built from `Tables.ofSamples` of the two queues with the
    writer's `vLastDelta` / `aLastDelta` as fallbacks -/
def MoovOf (w : Writer) (width height : Nat) (md : Option Metadata) (moov : Bytes) : Prop :=
  ∃ vo spc ao, moov = (bMoov width height (Tables.ofSamples w.vsRev.reverse vo spc w.vLastDelta)
    (w.audio.map fun tr => (tr, Tables.ofSamples w.asRev.reverse ao 1 w.aLastDelta))
    (w.vConfig.getD (.avc defaultAvc)) md).ser

theorem finalizeStandard_moov (w : Writer) (width height : Nat) (md : Option Metadata)
    (h : (finalizeStandard w width height md (w.vConfig.getD (.avc defaultAvc))).res = .ok) :
    ∃ moov ∈ (finalizeStandard w width height md (w.vConfig.getD (.avc defaultAvc))).chunks, MoovOf w width height md moov := by
  unfold finalizeStandard at h ⊢
  simp only [] at h ⊢
  cases ha : w.audio with
  | none =>
    simp only [ha] at h ⊢
    split at h
    · simp at h
    · rw [if_neg (by assumption)]
      split at h
      · simp at h
      · rw [if_neg (by assumption)]
        refine ⟨_, List.mem_append_right _ (List.mem_singleton.mpr rfl), ?_⟩
        unfold MoovOf; rw [ha]
        exact ⟨_, _, [], rfl⟩
  | some tr =>
    simp only [ha] at h ⊢
    split at h
    · simp at h
    · rw [if_neg (by assumption)]
      split at h
      · simp at h
      · rw [if_neg (by assumption)]
        split at h
        · simp at h
        · rw [if_neg (by assumption)]
          refine ⟨_, List.mem_append_right _ (List.mem_singleton.mpr rfl), ?_⟩
          unfold MoovOf; rw [ha]
          exact ⟨_, 1, _, rfl⟩

theorem res_ite_ioErr {c : Prop} [Decidable c] {a : List Bytes} {m : String} {Y : FinOut}
    (h : (if c then (⟨a, .ioErr m⟩ : FinOut) else Y).res = .ok) : ¬ c ∧ Y.res = .ok := by
  by_cases hc : c
  · rw [if_pos hc] at h; simp at h
  · rw [if_neg hc] at h; exact ⟨hc, h⟩

theorem res_ite_panic {c : Prop} [Decidable c] {a : List Bytes} {Y : FinOut}
    (h : (if c then (⟨a, .panic⟩ : FinOut) else Y).res = .ok) : ¬ c ∧ Y.res = .ok := by
  by_cases hc : c
  · rw [if_pos hc] at h; simp at h
  · rw [if_neg hc] at h; exact ⟨hc, h⟩

theorem finalizeFastStart_moov (w : Writer) (width height : Nat) (md : Option Metadata)
    (h : (finalizeFastStart w width height md (w.vConfig.getD (.avc defaultAvc))).res = .ok) :
    ∃ moov ∈ (finalizeFastStart w width height md (w.vConfig.getD (.avc defaultAvc))).chunks, MoovOf w width height md moov := by
  unfold finalizeFastStart at h ⊢
  simp only [] at h ⊢
  split at h
  · simp at h
  · rw [if_neg (by assumption)]
    cases ha : w.audio with
    | some tr =>
      simp only [ha] at h ⊢
      split at h
      · simp at h
      · rw [if_neg (by assumption)]
        split at h
        · simp at h
        · rw [if_neg (by assumption)]
          refine ⟨_, List.mem_cons_of_mem _ (List.mem_cons_self), ?_⟩
          unfold MoovOf; rw [ha]
          exact ⟨_, 1, _, rfl⟩
    | none =>
      simp only [ha] at h ⊢
      obtain ⟨hc1, h⟩ := res_ite_panic h
      rw [if_neg hc1]
      obtain ⟨hc2, h⟩ := res_ite_ioErr h
      rw [if_neg hc2]
      refine ⟨_, List.mem_cons_of_mem _ (List.mem_cons_self), ?_⟩
      unfold MoovOf; rw [ha]
      exact ⟨_, _, [], rfl⟩

/-- a finished file contains the moov built from the sample tables of the two queues -/
theorem finalize_ok_moov (w : Writer) (width height : Nat) (md : Option Metadata) (fast : Bool)
    (h : (w.finalize width height md fast).2.res = .ok) :
    ∃ moov ∈ (w.finalize width height md fast).2.chunks, MoovOf w width height md moov := by
  unfold Writer.finalize at h ⊢
  split at h
  · simp at h
  · rw [if_neg (by assumption)]
    simp only [] at h ⊢
    split at h
    · simp at h
    · rw [if_neg (by assumption)]
      split at h
      · simp at h
      · rw [if_neg (by assumption)]
        cases fast
        · exact finalizeStandard_moov w width height md (by simpa using h)
        · exact finalizeFastStart_moov w width height md (by simpa using h)

/-! ### API level: what reaches the writer -/

theorem wresReply_ok {r : WRes} {i : Nat} (h : wresReply r i = .ok) : r = .ok := by
  cases r with
  | ok => rfl
  | err e => cases e <;> simp [wresReply, convertErr] at h
  | panic => simp [wresReply] at h

theorem Muxer_writeVideo_w (m : Muxer) (pts : F64) (data : Bytes) (key : Bool) :
    ((m.writeVideo pts data key).1.w = m.w ∧ (m.writeVideo pts data key).2 ≠ .ok) ∨
    ((m.writeVideo pts data key).1.w = (m.w.writeVideo pts.ticks pts.ticks data key).1 ∧
      ((m.writeVideo pts data key).2 = .ok ↔ (m.w.writeVideo pts.ticks pts.ticks data key).2 = .ok)) := by
  unfold Muxer.writeVideo
  simp only []
  repeat' split
  all_goals first
    | (left; exact ⟨rfl, by simp⟩)
    | (right; simp_all; done)
    | (right; refine ⟨rfl, ?_⟩; constructor
       · intro h; exact wresReply_ok h
       · intro h; simp_all)

theorem Muxer_writeVideoDts_w (m : Muxer) (pts dts : F64) (data : Bytes) (key : Bool) :
    ((m.writeVideoDts pts dts data key).1.w = m.w ∧ (m.writeVideoDts pts dts data key).2 ≠ .ok) ∨
    ((m.writeVideoDts pts dts data key).1.w = (m.w.writeVideo pts.ticks dts.ticks data key).1 ∧
      ((m.writeVideoDts pts dts data key).2 = .ok ↔ (m.w.writeVideo pts.ticks dts.ticks data key).2 = .ok)) := by
  unfold Muxer.writeVideoDts
  simp only []
  repeat' split
  all_goals first
    | (left; exact ⟨rfl, by simp⟩)
    | (right; simp_all; done)
    | (right; refine ⟨rfl, ?_⟩; constructor
       · intro h; exact wresReply_ok h
       · intro h; simp_all)

theorem Muxer_writeAudio_w (m : Muxer) (pts : F64) (data : Bytes) :
    ((m.writeAudio pts data).1.w = m.w ∧ (m.writeAudio pts data).2 ≠ .ok) ∨
    ((m.writeAudio pts data).1.w = (m.w.writeAudio pts.ticks data).1 ∧
      ((m.writeAudio pts data).2 = .ok ↔ (m.w.writeAudio pts.ticks data).2 = .ok)) := by
  unfold Muxer.writeAudio
  simp only []
  repeat' split
  all_goals first
    | (left; exact ⟨rfl, by simp⟩)
    | (right; simp_all; done)
    | (right; refine ⟨rfl, ?_⟩; constructor
       · intro h; exact wresReply_ok h
       · intro h; simp_all)

theorem Muxer_encodeVideo_w (m : Muxer) (data : Bytes) (durMs : Nat) :
    (m.encodeVideo data durMs).1.w = (m.writeVideo m.curV data (m.isKeyframe data)).1.w ∧
    ((m.encodeVideo data durMs).2 = .ok ↔ (m.writeVideo m.curV data (m.isKeyframe data)).2 = .ok) := by
  unfold Muxer.encodeVideo
  generalize m.writeVideo m.curV data (m.isKeyframe data) = r
  obtain ⟨m1, r1⟩ := r
  cases r1 <;> simp

theorem Muxer_encodeAudio_w (m : Muxer) (data : Bytes) (samples : Nat) :
    ((m.encodeAudio data samples).1.w = m.w ∧ (m.encodeAudio data samples).2 ≠ .ok) ∨
    ((m.encodeAudio data samples).1.w = (m.writeAudio m.curA data).1.w ∧
    ((m.encodeAudio data samples).2 = .ok ↔ (m.writeAudio m.curA data).2 = .ok)) := by
  unfold Muxer.encodeAudio
  cases m.audioTrack with
  | none => left; simp
  | some a =>
    right
    generalize m.writeAudio m.curA data = r
    obtain ⟨m1, r1⟩ := r
    cases r1 <;> simp

theorem Muxer_finishStats_w (m : Muxer) (d : Deliver) :
    ∃ b fl, (m.finishStats d).1.w = { m.w with finalized := fl, bytesWritten := b } := by
  unfold Muxer.finishStats
  by_cases hf : m.finished = true
  · simp only [hf, if_true]; exact ⟨_, _, rfl⟩
  · simp only [hf, Bool.false_eq_true, if_false]
    generalize hfin : m.w.finalize m.width m.height m.md m.fast = fin
    have h1 := finalize_fst m.w m.width m.height m.md m.fast
    rw [hfin] at h1
    obtain ⟨w', o⟩ := fin
    simp only [] at h1 ⊢
    subst h1
    generalize d o.chunks = dr
    obtain ⟨wr, cnt⟩ := dr
    simp only []
    repeat' split
    all_goals exact ⟨_, _, rfl⟩


end Muxide
