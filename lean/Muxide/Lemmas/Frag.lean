import Muxide.Lemmas.Bytes
import Muxide.Model.Frag
import Muxide.Spec.FragReader
/-
  Muxide.Lemmas.Frag — operations / runs of the fragmented muxer, run invariants, and the
  reader-side lemmas (box-tree round trip, trun rows) used by C10 and C11.
-/
namespace Muxide
open Muxide.Spec

/-! ### operations and runs -/

inductive FOp where
  | write (pts dts : Nat) (data : Bytes) (sync : Bool)
  | flush | ready | dur | init
deriving Repr, DecidableEq

def stepF (f : Frag) : FOp → Frag × FReply
  | .write p d b s => f.write p d b s
  | .flush => f.flush
  | .ready => (f, f.ready)
  | .dur => (f, f.durMs)
  | .init => f.init

/-- run a list of operations; replies in order -/
def runF (f : Frag) : List FOp → Frag × List FReply
  | [] => (f, [])
  | op :: ops => ((runF (stepF f op).1 ops).1, (stepF f op).2 :: (runF (stepF f op).1 ops).2)

/-- the state in which each operation of the run is executed -/
def preStates (f : Frag) : List FOp → List Frag
  | [] => []
  | op :: ops => f :: preStates (stepF f op).1 ops

def acceptedOne : FOp × FReply → Option FSample
  | (.write p d b s, .ok) => some ⟨p, d, b, s⟩
  | _ => none

def emittedOne : Frag × FOp × FReply → Option (List FSample)
  | (f, .flush, .seg _) => some f.samples
  | _ => none

def segmentOne : FOp × FReply → Option Bytes
  | (.flush, .seg b) => some b
  | _ => none

/-- the samples of the writes that were answered `.ok`, in order -/
def accepted (f : Frag) (ops : List FOp) : List FSample :=
  (ops.zip (runF f ops).2).filterMap acceptedOne

/-- the queue contents at each successful flush, in order -/
def emitted (f : Frag) (ops : List FOp) : List (List FSample) :=
  ((preStates f ops).zip (ops.zip (runF f ops).2)).filterMap emittedOne

/-- the media segments returned by the flushes, in order -/
def segments (f : Frag) (ops : List FOp) : List Bytes :=
  (ops.zip (runF f ops).2).filterMap segmentOne

@[simp] theorem runF_nil (f : Frag) : runF f [] = (f, []) := rfl
theorem runF_cons (f : Frag) (op : FOp) (ops : List FOp) :
    runF f (op :: ops) = ((runF (stepF f op).1 ops).1, (stepF f op).2 :: (runF (stepF f op).1 ops).2) := rfl

@[simp] theorem runF_length (f : Frag) (ops : List FOp) : (runF f ops).2.length = ops.length := by
  induction ops generalizing f with
  | nil => rfl
  | cons op ops ih => simp [runF_cons, ih]

@[simp] theorem accepted_nil (f : Frag) : accepted f [] = [] := rfl
@[simp] theorem emitted_nil (f : Frag) : emitted f [] = [] := rfl
@[simp] theorem segments_nil (f : Frag) : segments f [] = [] := rfl

theorem accepted_cons (f : Frag) (op : FOp) (ops : List FOp) :
    accepted f (op :: ops) = (acceptedOne (op, (stepF f op).2)).toList ++ accepted (stepF f op).1 ops := by
  simp only [accepted, runF_cons, List.zip_cons_cons, List.filterMap_cons]
  cases acceptedOne (op, (stepF f op).2) <;> simp

theorem emitted_cons (f : Frag) (op : FOp) (ops : List FOp) :
    emitted f (op :: ops) = (emittedOne (f, op, (stepF f op).2)).toList ++ emitted (stepF f op).1 ops := by
  simp only [emitted, runF_cons, preStates, List.zip_cons_cons, List.filterMap_cons]
  cases emittedOne (f, op, (stepF f op).2) <;> simp

theorem segments_cons (f : Frag) (op : FOp) (ops : List FOp) :
    segments f (op :: ops) = (segmentOne (op, (stepF f op).2)).toList ++ segments (stepF f op).1 ops := by
  simp only [segments, runF_cons, List.zip_cons_cons, List.filterMap_cons]
  cases segmentOne (op, (stepF f op).2) <;> simp

/-! ### single steps -/

/-- the rejection condition of `write` as a proposition -/
def Rejects (f : Frag) (dts : Nat) : Prop := ∃ l, f.lastDts = some l ∧ dts < l

instance (f : Frag) (dts : Nat) : Decidable (Rejects f dts) := by
  unfold Rejects
  cases f.lastDts with
  | none => exact isFalse (by simp)
  | some l => exact decidable_of_iff (dts < l) (by simp)

theorem write_reject (f : Frag) (p d : Nat) (b : Bytes) (s : Bool) (h : Rejects f d) :
    f.write p d b s = (f, .errNonMonotonic) := by
  obtain ⟨l, hl, hd⟩ := h
  simp [Frag.write, hl, hd]

theorem write_accept (f : Frag) (p d : Nat) (b : Bytes) (s : Bool) (h : ¬ Rejects f d) :
    f.write p d b s = ({ f with lastDts := some d, samples := f.samples ++ [⟨p, d, b, s⟩] }, .ok) := by
  unfold Rejects at h
  unfold Frag.write
  cases hl : f.lastDts with
  | none => simp
  | some l =>
    have : ¬ d < l := fun hd => h ⟨l, hl, hd⟩
    simp [this]

theorem flush_nil (f : Frag) (h : f.samples = []) : f.flush = (f, .none) := by
  simp [Frag.flush, h]

theorem flush_cons (f : Frag) (x : FSample) (xs : List FSample) (h : f.samples = x :: xs) :
    f.flush = ({ f with samples := [], seq := (f.seq + 1) % 2^32, base := x.dts },
      .seg (buildSegment f.samples f.seq x.dts)) := by
  simp [Frag.flush, h]


@[simp] theorem init_samples (f : Frag) : f.init.1.samples = f.samples := by
  unfold Frag.init; split <;> rfl
@[simp] theorem init_seq (f : Frag) : f.init.1.seq = f.seq := by
  unfold Frag.init; split <;> rfl
@[simp] theorem init_base (f : Frag) : f.init.1.base = f.base := by
  unfold Frag.init; split <;> rfl
@[simp] theorem init_lastDts (f : Frag) : f.init.1.lastDts = f.lastDts := by
  unfold Frag.init; split <;> rfl
@[simp] theorem init_cfg (f : Frag) : f.init.1.cfg = f.cfg := by
  unfold Frag.init; split <;> rfl

/-! ### run invariants -/

/-- one step conserves samples: what leaves the queue is exactly what is emitted, what enters is
    exactly what is accepted -/
theorem step_conserve (f : Frag) (op : FOp) :
    (emittedOne (f, op, (stepF f op).2)).toList.flatten ++ (stepF f op).1.samples =
      f.samples ++ (acceptedOne (op, (stepF f op).2)).toList := by
  cases op with
  | write p d b s =>
    by_cases h : Rejects f d
    · simp [stepF, write_reject _ _ _ _ _ h, acceptedOne, emittedOne]
    · simp [stepF, write_accept _ _ _ _ _ h, acceptedOne, emittedOne]
  | flush =>
    cases hs : f.samples with
    | nil => simp [stepF, flush_nil f hs, acceptedOne, emittedOne, hs]
    | cons x xs => simp [stepF, flush_cons f x xs hs, emittedOne, acceptedOne, hs]
  | ready => simp [stepF, emittedOne, acceptedOne]
  | dur => simp [stepF, emittedOne, acceptedOne]
  | init => simp [stepF, emittedOne, acceptedOne]

theorem run_conserve (f : Frag) (ops : List FOp) :
    (emitted f ops).flatten ++ (runF f ops).1.samples = f.samples ++ accepted f ops := by
  induction ops generalizing f with
  | nil => simp
  | cons op ops ih =>
    rw [emitted_cons, accepted_cons, runF_cons]
    simp only [List.flatten_append, List.append_assoc]
    rw [ih, ← List.append_assoc, step_conserve, List.append_assoc]

/-- `lastDts` after a step: the accepted sample's dts if one was accepted, else unchanged -/
theorem step_lastDts (f : Frag) (op : FOp) :
    (stepF f op).1.lastDts = ((acceptedOne (op, (stepF f op).2)).map (·.dts)).or f.lastDts := by
  cases op with
  | write p d b s =>
    by_cases h : Rejects f d
    · simp [stepF, write_reject _ _ _ _ _ h, acceptedOne]
    · simp [stepF, write_accept _ _ _ _ _ h, acceptedOne]
  | flush =>
    cases hs : f.samples with
    | nil => simp [stepF, flush_nil f hs, acceptedOne]
    | cons x xs => simp [stepF, flush_cons f x xs hs, acceptedOne]
  | ready => simp [stepF, acceptedOne]
  | dur => simp [stepF, acceptedOne]
  | init => simp [stepF, acceptedOne]

/-- `lastDts` is always the dts of the last accepted write (or the initial value if none) -/
theorem run_lastDts (f : Frag) (ops : List FOp) :
    (runF f ops).1.lastDts = ((accepted f ops).getLast?.map (·.dts)).or f.lastDts := by
  induction ops generalizing f with
  | nil => simp
  | cons op ops ih =>
    rw [runF_cons, accepted_cons]
    simp only []
    rw [ih, step_lastDts]
    cases acceptedOne (op, (stepF f op).2) with
    | none => simp
    | some a =>
      simp only [Option.toList_some, List.singleton_append, List.getLast?_cons, Option.map_some]
      cases (accepted (stepF f (op)).1 ops).getLast? <;> simp

/-- an accepted sample's dts is not lower than the previous `lastDts` -/
theorem step_accept_ge (f : Frag) (op : FOp) (a : FSample)
    (h : acceptedOne (op, (stepF f op).2) = some a) (l : Nat) (hl : f.lastDts = some l) : l ≤ a.dts := by
  cases op with
  | write p d b s =>
    by_cases hr : Rejects f d
    · simp [stepF, write_reject _ _ _ _ _ hr, acceptedOne] at h
    · simp [stepF, write_accept _ _ _ _ _ hr, acceptedOne] at h
      subst h
      simp only
      have : ¬ d < l := fun hd => hr ⟨l, hl, hd⟩
      omega
  | flush => simp [acceptedOne] at h
  | ready => simp [acceptedOne] at h
  | dur => simp [acceptedOne] at h
  | init => simp [acceptedOne] at h

/-- accepted decode times are non-decreasing, and bounded below by the initial `lastDts` -/
theorem run_sorted (f : Frag) (ops : List FOp) :
    (∀ l, f.lastDts = some l → ∀ a ∈ accepted f ops, l ≤ a.dts) ∧
    (accepted f ops).Pairwise (fun a b => a.dts ≤ b.dts) := by
  induction ops generalizing f with
  | nil => simp
  | cons op ops ih =>
    rw [accepted_cons]
    obtain ⟨ih1, ih2⟩ := ih (stepF f op).1
    have hl := step_lastDts f op
    cases ha : acceptedOne (op, (stepF f op).2) with
    | none =>
      rw [ha] at hl
      simp only [Option.map_none, Option.none_or] at hl
      rw [hl] at ih1
      simpa using ⟨ih1, ih2⟩
    | some a =>
      rw [ha] at hl
      simp only [Option.map_some, Option.some_or] at hl
      have ih1' := ih1 _ hl
      simp only [Option.toList_some, List.singleton_append, List.mem_cons, List.pairwise_cons]
      refine ⟨?_, ih1', ih2⟩
      intro l hl' x hx
      have := step_accept_ge f op a ha l hl'
      rcases hx with rfl | hx
      · exact this
      · exact Nat.le_trans this (ih1' x hx)

/-- base decode time the model uses for a queue: the first sample's dts -/
def firstDts (ss : List FSample) : Nat := (ss.head?.map (·.dts)).getD 0

/-- a step either emits nothing and keeps the counter, or emits the whole non-empty queue as
    `buildSegment queue seq firstDts` and advances the counter -/
theorem step_emit (f : Frag) (op : FOp) :
    (emittedOne (f, op, (stepF f op).2) = none ∧ segmentOne (op, (stepF f op).2) = none ∧
      (stepF f op).1.seq = f.seq) ∨
    (emittedOne (f, op, (stepF f op).2) = some f.samples ∧ f.samples ≠ [] ∧
      segmentOne (op, (stepF f op).2) = some (buildSegment f.samples f.seq (firstDts f.samples)) ∧
      (stepF f op).1.seq = (f.seq + 1) % 2^32 ∧ (stepF f op).1.base = firstDts f.samples) := by
  cases op with
  | write p d b s =>
    by_cases h : Rejects f d
    · simp [stepF, write_reject _ _ _ _ _ h, segmentOne, emittedOne]
    · simp [stepF, write_accept _ _ _ _ _ h, segmentOne, emittedOne]
  | flush =>
    cases hs : f.samples with
    | nil => simp [stepF, flush_nil f hs, segmentOne, emittedOne]
    | cons x xs => simp [stepF, flush_cons f x xs hs, emittedOne, segmentOne, hs, firstDts]
  | ready => simp [stepF, emittedOne, segmentOne]
  | dur => simp [stepF, emittedOne, segmentOne]
  | init => simp [stepF, emittedOne, segmentOne]

theorem run_emit_length (f : Frag) (ops : List FOp) : (segments f ops).length = (emitted f ops).length := by
  induction ops generalizing f with
  | nil => rfl
  | cons op ops ih =>
    rw [segments_cons, emitted_cons, List.length_append, List.length_append, ih]
    rcases step_emit f op with ⟨h1, h2, _⟩ | ⟨h1, _, h2, _⟩ <;> simp [h1, h2]

/-- the k-th emitted segment carries sequence number `seq₀ + k` and its first sample's dts -/
theorem run_seq (f : Frag) (ops : List FOp) (k : Nat) (ss : List FSample)
    (h : (emitted f ops)[k]? = some ss) (hb : f.seq + k < 2^32) :
    ss ≠ [] ∧ (segments f ops)[k]? = some (buildSegment ss (f.seq + k) (firstDts ss)) := by
  induction ops generalizing f k with
  | nil => simp at h
  | cons op ops ih =>
    rw [emitted_cons] at h
    rw [segments_cons]
    rcases step_emit f op with ⟨h1, h2, h3⟩ | ⟨h1, hne, h2, h3, _⟩
    · rw [h1] at h; rw [h2]
      simp only [Option.toList_none, List.nil_append] at h ⊢
      have := ih (stepF f op).1 k h (by rw [h3]; exact hb)
      rwa [h3] at this
    · rw [h1] at h; rw [h2]
      simp only [Option.toList_some, List.singleton_append] at h ⊢
      cases k with
      | zero =>
        simp only [List.getElem?_cons_zero, Option.some.injEq] at h
        subst h
        exact ⟨hne, by simp⟩
      | succ k =>
        simp only [List.getElem?_cons_succ] at h ⊢
        have e : (stepF f op).1.seq = f.seq + 1 := by rw [h3]; omega
        have := ih (stepF f op).1 k h (by rw [e]; omega)
        rw [e] at this
        have e2 : f.seq + 1 + k = f.seq + (k + 1) := by omega
        rwa [e2] at this

/-! ### the init-segment cache -/

/-- two states that agree on everything except possibly `initCache` -/
def Frag.sameExceptCache (f g : Frag) : Prop :=
  f.cfg = g.cfg ∧ f.samples = g.samples ∧ f.seq = g.seq ∧ f.base = g.base ∧ f.lastDts = g.lastDts

/-- the cache, if filled, holds `buildInit cfg` -/
def Frag.cacheOk (f : Frag) : Prop := ∀ b, f.initCache = some b → b = buildInit f.cfg

theorem sameExceptCache_refl (f : Frag) : f.sameExceptCache f := ⟨rfl, rfl, rfl, rfl, rfl⟩

theorem sameExceptCache_iff (f g : Frag) :
    f.sameExceptCache g ↔ { f with initCache := none } = { g with initCache := none } := by
  obtain ⟨c, ss, q, b, ic, l⟩ := f
  obtain ⟨c', ss', q', b', ic', l'⟩ := g
  simp [Frag.sameExceptCache]

theorem init_sameExceptCache (f : Frag) : f.sameExceptCache f.init.1 :=
  ⟨by simp, by simp, by simp, by simp, by simp⟩

/-- every operation other than `init` ignores `initCache` -/
theorem step_sameExceptCache (f g : Frag) (op : FOp) (hop : op ≠ .init) (h : f.sameExceptCache g) :
    (stepF f op).2 = (stepF g op).2 ∧ (stepF f op).1.sameExceptCache (stepF g op).1 ∧
    (stepF f op).1.initCache = f.initCache := by
  obtain ⟨c, ss, q, b, ic, l⟩ := f
  obtain ⟨c', ss', q', b', ic', l'⟩ := g
  obtain ⟨h1, h2, h3, h4, h5⟩ := h
  simp only at h1 h2 h3 h4 h5
  subst h1 h2 h3 h4 h5
  cases op with
  | write p d bs s =>
    by_cases hr : Rejects ⟨c, ss, q, b, ic, l⟩ d
    · have hr' : Rejects ⟨c, ss, q, b, ic', l⟩ d := hr
      simp [stepF, write_reject _ _ _ _ _ hr, write_reject _ _ _ _ _ hr', Frag.sameExceptCache]
    · have hr' : ¬ Rejects ⟨c, ss, q, b, ic', l⟩ d := hr
      simp [stepF, write_accept _ _ _ _ _ hr, write_accept _ _ _ _ _ hr', Frag.sameExceptCache]
  | flush =>
    simp only [stepF, Frag.flush]
    split <;> simp [Frag.sameExceptCache]
  | ready => simp [stepF, Frag.ready, Frag.spanMs, Frag.sameExceptCache]
  | dur => simp [stepF, Frag.durMs, Frag.spanMs, Frag.sameExceptCache]
  | init => exact absurd rfl hop

theorem init_cacheOk (f : Frag) (h : f.cacheOk) :
    f.init.2 = .init (buildInit f.cfg) ∧ f.init.1.cacheOk := by
  unfold Frag.init
  cases hc : f.initCache with
  | none => simp [Frag.cacheOk]
  | some b =>
    have := h b hc
    subst this
    exact ⟨rfl, h⟩

theorem step_cfg (f : Frag) (op : FOp) : (stepF f op).1.cfg = f.cfg := by
  cases op with
  | write p d b s =>
    by_cases h : Rejects f d
    · simp [stepF, write_reject _ _ _ _ _ h]
    · simp [stepF, write_accept _ _ _ _ _ h]
  | flush => simp only [stepF, Frag.flush]; split <;> rfl
  | ready => rfl
  | dur => rfl
  | init => simp [stepF]

theorem step_cacheOk (f : Frag) (op : FOp) (h : f.cacheOk) : (stepF f op).1.cacheOk := by
  by_cases hop : op = .init
  · subst hop; exact (init_cacheOk f h).2
  · have := (step_sameExceptCache f f op hop (sameExceptCache_refl f)).2.2
    intro b hb
    rw [this] at hb
    rw [step_cfg]
    exact h b hb

theorem run_cfg (f : Frag) (ops : List FOp) : (runF f ops).1.cfg = f.cfg := by
  induction ops generalizing f with
  | nil => rfl
  | cons op ops ih => rw [runF_cons]; simp only; rw [ih, step_cfg]

/-- a step's reply is an init reply exactly for the `init` operation, and then it is `buildInit cfg` -/
theorem step_init_reply (f : Frag) (op : FOp) (h : f.cacheOk) :
    (op = .init → (stepF f op).2 = .init (buildInit f.cfg)) ∧
    (∀ b, (stepF f op).2 = .init b → op = .init) := by
  cases op with
  | write p d bs s =>
    by_cases h : Rejects f d
    · simp [stepF, write_reject _ _ _ _ _ h]
    · simp [stepF, write_accept _ _ _ _ _ h]
  | flush => simp only [stepF, Frag.flush]; split <;> simp
  | ready => simp only [stepF, Frag.ready]; split <;> simp
  | dur => simp [stepF, Frag.durMs]
  | init => simp [stepF, (init_cacheOk f h).1]

/-- with well-formed caches, states equal up to the cache are indistinguishable by any run -/
theorem run_sameExceptCache (f g : Frag) (ops : List FOp) (h : f.sameExceptCache g)
    (hf : f.cacheOk) (hg : g.cacheOk) :
    (runF f ops).2 = (runF g ops).2 ∧ (runF f ops).1.sameExceptCache (runF g ops).1 := by
  induction ops generalizing f g with
  | nil => exact ⟨rfl, h⟩
  | cons op ops ih =>
    rw [runF_cons, runF_cons]
    simp only
    have hs : (stepF f op).2 = (stepF g op).2 ∧ (stepF f op).1.sameExceptCache (stepF g op).1 := by
      by_cases hop : op = .init
      · subst hop
        refine ⟨?_, ?_⟩
        · simp only [stepF]; rw [(init_cacheOk f hf).1, (init_cacheOk g hg).1, h.1]
        · obtain ⟨h1, h2, h3, h4, h5⟩ := h
          exact ⟨by simpa [stepF] using h1, by simpa [stepF] using h2, by simpa [stepF] using h3,
            by simpa [stepF] using h4, by simpa [stepF] using h5⟩
      · exact ⟨(step_sameExceptCache f g op hop h).1, (step_sameExceptCache f g op hop h).2.1⟩
    obtain ⟨ih1, ih2⟩ := ih _ _ hs.2 (step_cacheOk f op hf) (step_cacheOk g op hg)
    exact ⟨by rw [hs.1, ih1], ih2⟩

/-- every `init` operation of a run is answered `buildInit cfg`, and nothing else is an init reply -/
theorem run_init (f : Frag) (ops : List FOp) (h : f.cacheOk) (i : Nat) (op : FOp) (r : FReply)
    (hop : ops[i]? = some op) (hr : (runF f ops).2[i]? = some r) :
    (op = .init → r = .init (buildInit f.cfg)) ∧ (∀ b, r = .init b → op = .init ∧ b = buildInit f.cfg) := by
  induction ops generalizing f i with
  | nil => simp at hop
  | cons o ops ih =>
    rw [runF_cons] at hr
    cases i with
    | zero =>
      simp only [List.getElem?_cons_zero, Option.some.injEq] at hop hr
      subst hop hr
      obtain ⟨s1, s2⟩ := step_init_reply f o h
      refine ⟨s1, fun b hb => ?_⟩
      have ho := s2 b hb
      refine ⟨ho, ?_⟩
      have := s1 ho
      rw [this] at hb
      injection hb with hb
      exact hb.symm
    | succ i =>
      simp only [List.getElem?_cons_succ] at hop hr
      have := ih (stepF f o).1 (step_cacheOk f o h) i hop hr
      rwa [step_cfg] at this

/-! ### more run lemmas -/

theorem runF_append (f : Frag) (a b : List FOp) :
    runF f (a ++ b) = ((runF (runF f a).1 b).1, (runF f a).2 ++ (runF (runF f a).1 b).2) := by
  induction a generalizing f with
  | nil => simp
  | cons op a ih => simp only [List.cons_append, runF_cons, ih]

theorem accepted_append (f : Frag) (a b : List FOp) :
    accepted f (a ++ b) = accepted f a ++ accepted (runF f a).1 b := by
  induction a generalizing f with
  | nil => simp
  | cons op a ih => simp only [List.cons_append, accepted_cons, runF_cons, ih, List.append_assoc]

theorem emitted_append (f : Frag) (a b : List FOp) :
    emitted f (a ++ b) = emitted f a ++ emitted (runF f a).1 b := by
  induction a generalizing f with
  | nil => simp
  | cons op a ih => simp only [List.cons_append, emitted_cons, runF_cons, ih, List.append_assoc]

theorem emitted_ne_nil (f : Frag) (ops : List FOp) : ∀ ss ∈ emitted f ops, ss ≠ [] := by
  induction ops generalizing f with
  | nil => simp
  | cons op ops ih =>
    intro ss hss
    rw [emitted_cons, List.mem_append] at hss
    rcases hss with h | h
    · rcases step_emit f op with ⟨h1, _⟩ | ⟨h1, hne, _⟩
      · rw [h1] at h; simp at h
      · rw [h1] at h; simp at h; rw [h]; exact hne
    · exact ih _ ss h

@[simp] theorem preStates_length (f : Frag) (ops : List FOp) : (preStates f ops).length = ops.length := by
  induction ops generalizing f with
  | nil => rfl
  | cons op ops ih => simp [preStates, ih]

/-- the i-th reply is the reply of the i-th operation executed in the i-th pre-state, which is the
    final state of the run of the first i operations -/
theorem run_reply_at (f : Frag) (ops : List FOp) (i : Nat) (op : FOp) (h : ops[i]? = some op) :
    (preStates f ops)[i]? = some (runF f (ops.take i)).1 ∧
    (runF f ops).2[i]? = some (stepF (runF f (ops.take i)).1 op).2 := by
  induction ops generalizing f i with
  | nil => simp at h
  | cons o ops ih =>
    cases i with
    | zero =>
      simp only [List.getElem?_cons_zero, Option.some.injEq] at h
      subst h
      simp [preStates, runF_cons]
    | succ i =>
      simp only [List.getElem?_cons_succ] at h
      have := ih (stepF f o).1 i h
      simpa [preStates, runF_cons] using this

/-- the replies to the operations other than `init` -/
def nonInitReplies (ops : List FOp) (rs : List FReply) : List FReply :=
  ((ops.zip rs).filter (fun p => p.1 ≠ FOp.init)).map (·.2)

/-- removing every `init` request from a run changes no other reply -/
theorem run_drop_init (f : Frag) (ops : List FOp) (h : f.cacheOk) :
    nonInitReplies ops (runF f ops).2 = (runF f (ops.filter (· ≠ .init))).2 := by
  induction ops generalizing f with
  | nil => rfl
  | cons op ops ih =>
    by_cases hop : op = .init
    · subst hop
      have e : nonInitReplies (FOp.init :: ops) (runF f (FOp.init :: ops)).2 =
          nonInitReplies ops (runF (stepF f .init).1 ops).2 := by
        simp [nonInitReplies, runF_cons]
      rw [e, ih _ (step_cacheOk f .init h)]
      have hs : (stepF f .init).1.sameExceptCache f := by
        obtain ⟨a1, a2, a3, a4, a5⟩ := init_sameExceptCache f
        exact ⟨a1.symm, a2.symm, a3.symm, a4.symm, a5.symm⟩
      simpa using (run_sameExceptCache _ _ (ops.filter (· ≠ .init)) hs (step_cacheOk f .init h) h).1
    · have e : nonInitReplies (op :: ops) (runF f (op :: ops)).2 =
          (stepF f op).2 :: nonInitReplies ops (runF (stepF f op).1 ops).2 := by
        simp [nonInitReplies, runF_cons, hop]
      rw [e, ih _ (step_cacheOk f op h)]
      simp [hop, runF_cons]

end Muxide
