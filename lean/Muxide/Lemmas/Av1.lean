import Muxide.Spec.Av1Syntax
/-
  Muxide.Lemmas.Av1 — the model's AV1 bit reader against the syntax encoder of
  `Muxide.Spec.Av1Syntax`: fixed-width fields, skips, `uvlc()`, and one lemma per syntax block.

  The parser `parseSeqHdrBits` is one monolithic `do` block whose `if`s are compiled to join
  points; it is restated (by `rfl`) as a chain of continuation-passing blocks (`levelK`,
  `frameSizeK`, …) that are *copies of the parser text* with the rest of the parser abstracted
  as `k`.  Each block lemma has the form `blockK (encodeBlock x ++ rest) k = k (value, rest)`.
-/
namespace Muxide.Av1Lemmas
open Muxide Muxide.Spec.Av1

@[simp] theorem rbit_cons (b : Bool) (r : Bits) : rbit (b :: r) = some (b, r) := rfl

@[simp] theorem length_natToBits (w v : Nat) : (natToBits w v).length = w := by
  induction w with
  | zero => rfl
  | succ w ih => simp [natToBits, ih]

theorem rbits_natToBits_mod (w v : Nat) (rest : Bits) :
    rbits w (natToBits w v ++ rest) = some (v % 2 ^ w, rest) := by
  induction w with
  | zero => simp [natToBits, rbits, Nat.mod_one]
  | succ w ih =>
    simp only [natToBits, List.cons_append, rbits, rbit_cons, ih]
    congr 2
    have h2 : v % 2 ^ (w + 1) = 2 ^ w * (v / 2 ^ w % 2) + v % 2 ^ w := by
      rw [Nat.pow_succ, Nat.mod_mul, Nat.add_comm]
    rw [h2]
    by_cases hb : v / 2 ^ w % 2 = 1
    · simp [hb]
    · have h0 : v / 2 ^ w % 2 = 0 := by omega
      simp [h0]

theorem rbits_natToBits (w v : Nat) (h : v < 2 ^ w) (rest : Bits) :
    rbits w (natToBits w v ++ rest) = some (v, rest) := by
  rw [rbits_natToBits_mod, Nat.mod_eq_of_lt h]

theorem skipBits_append (n : Nat) (l rest : Bits) (h : l.length = n) :
    skipBits n (l ++ rest) = some rest := by
  subst h
  simp [skipBits]

@[simp] theorem skipBits_natToBits (w v : Nat) (rest : Bits) :
    skipBits w (natToBits w v ++ rest) = some rest := skipBits_append _ _ _ (by simp)

@[simp] theorem skipBits_zero (r : Bits) : skipBits 0 r = some r := by simp [skipBits]

@[simp] theorem skipBits_succ_cons (n : Nat) (b : Bool) (r : Bits) :
    skipBits (n + 1) (b :: r) = skipBits n r := by
  simp [skipBits]

theorem skipUvlcAux_replicate (k : Nat) : ∀ (fuel lz : Nat) (r : Bits), k < fuel → lz + k ≤ 32 →
    skipUvlcAux fuel (List.replicate k false ++ true :: r) lz =
      if lz + k > 0 ∧ lz + k < 32 then skipBits (lz + k) r else some r := by
  induction k with
  | zero =>
    intro fuel lz r hf _
    obtain ⟨f, rfl⟩ : ∃ f, fuel = f + 1 := ⟨fuel - 1, by omega⟩
    simp [skipUvlcAux]
  | succ k ih =>
    intro fuel lz r hf hl
    obtain ⟨f, rfl⟩ : ∃ f, fuel = f + 1 := ⟨fuel - 1, by omega⟩
    have : ¬ (lz + 1 > 32) := by omega
    simp only [List.replicate_succ, List.cons_append, skipUvlcAux, rbit_cons, this, if_false]
    rw [ih f (lz + 1) r (by omega) (by omega)]
    have e : lz + 1 + k = lz + (k + 1) := by omega
    simp [e]

/-- `uvlc()` with at most 31 leading zeros: the code skips exactly the coded element -/
theorem skipUvlc_encode (u : Uvlc) (h : u.WF) (rest : Bits) :
    skipUvlc (encodeUvlc u ++ rest) = some rest := by
  obtain ⟨hz, _⟩ := h
  have hz' : u.z < 32 := by omega
  simp only [skipUvlc, encodeUvlc, hz', if_true, List.append_assoc, List.cons_append]
  rw [skipUvlcAux_replicate u.z 34 0 _ (by omega) (by omega)]
  by_cases h0 : u.z = 0
  · simp [h0, natToBits]
  · have : 0 < u.z := by omega
    simp [this, hz']

/-- `uvlc()` with exactly 32 leading zeros (value 2^32 − 1): the syntax has NO value bits and the code
    reads none (before the repair in /repo it skipped 32 further bits) -/
theorem skipUvlc_z32 (x : Nat) (rest : Bits) :
    skipUvlc (encodeUvlc ⟨32, x⟩ ++ rest) = some rest := by
  simp only [skipUvlc, encodeUvlc, Nat.lt_irrefl, if_false, List.append_assoc, List.singleton_append,
    List.append_nil]
  rw [skipUvlcAux_replicate 32 34 0 _ (by omega) (by omega)]
  simp

/-- more than 32 leading zeros: the code gives up -/
theorem skipUvlc_z33 (z x : Nat) (hz : 33 ≤ z) (rest : Bits) :
    skipUvlc (encodeUvlc ⟨z, x⟩ ++ rest) = none := by
  obtain ⟨k, rfl⟩ : ∃ k, z = 33 + k := ⟨z - 33, by omega⟩
  simp only [skipUvlc, encodeUvlc]
  rw [show 33 + k = k + 33 by omega]
  simp [List.replicate_succ, skipUvlcAux]
/-! ### the parser, blockwise -/

variable {α : Type}

def timingK (tip : Bool) (r : Bits) (k : Bits → Option α) : Option α := do
  let r ← if tip then do
      let r ← skipBits 32 r
      let r ← skipBits 32 r
      let (epi, r) ← rbit r
      if epi then skipUvlc r else some r
    else some r
  k r

def dmiK (tip : Bool) (r : Bits) (k : Bool → Nat → Bits → Option α) : Option α := do
  let (dmip, r) ← if true ∧ ¬ tip then some (false, r) else rbit r
  let (bdl, r) ← if dmip then do
      let (x, r) ← rbits 5 r
      let r ← skipBits 32 r
      let r ← skipBits 5 r
      let r ← skipBits 5 r
      some (x + 1, r)
    else some (0, r)
  k dmip bdl r

def opsK (dmip : Bool) (bdl : Nat) (r : Bits) (k : (Nat × Nat) × Bits → Option α) : Option α := do
  let (iddp, r) ← rbit r
  let (cnt, r) ← rbits 5 r
  let (l0, t0, r) ← parseOpPoints (cnt + 1) 0 r dmip bdl iddp 0 0
  k ((l0, t0), r)

def levelK (reduced : Bool) (r : Bits) (k : (Nat × Nat) × Bits → Option α) : Option α := do
  let ((lvl, tier), r) ← if reduced then do
      let (l, r) ← rbits 5 r
      some ((l, 0), r)
    else do
      let (tip, r) ← rbit r
      let r ← if tip then do
          let r ← skipBits 32 r
          let r ← skipBits 32 r
          let (epi, r) ← rbit r
          if epi then skipUvlc r else some r
        else some r
      let (dmip, r) ← if true ∧ ¬ tip then some (false, r) else rbit r
      let (bdl, r) ← if dmip then do
          let (x, r) ← rbits 5 r
          let r ← skipBits 32 r
          let r ← skipBits 5 r
          let r ← skipBits 5 r
          some (x + 1, r)
        else some (0, r)
      let (iddp, r) ← rbit r
      let (cnt, r) ← rbits 5 r
      let (l0, t0, r) ← parseOpPoints (cnt + 1) 0 r dmip bdl iddp 0 0
      some ((l0, t0), r)
  k ((lvl, tier), r)

theorem levelK_true (r : Bits) (k : (Nat × Nat) × Bits → Option α) :
    levelK true r k = (do let (l, r) ← rbits 5 r; k ((l, 0), r)) := by
  rfl

theorem levelK_false (r : Bits) (k : (Nat × Nat) × Bits → Option α) :
    levelK false r k = (do
      let (tip, r) ← rbit r
      timingK tip r fun r => dmiK tip r fun dmip bdl r => opsK dmip bdl r k) := by
  rfl

def frameSizeK (r : Bits) (k : Bits → Option α) : Option α := do
  let (fwb, r) ← rbits 4 r
  let (fhb, r) ← rbits 4 r
  let (_, r) ← rbits (fwb + 1) r
  let (_, r) ← rbits (fhb + 1) r
  k r

def frameIdK (reduced : Bool) (r : Bits) (k : Bits → Option α) : Option α := do
  let r ← if ¬ reduced then do
      let (fidp, r) ← rbit r
      if fidp then do
        let (_, r) ← rbits 4 r
        let (_, r) ← rbits 3 r
        some r
      else some r
    else some r
  k r

def toolsK (reduced : Bool) (r : Bits) (k : Bits → Option α) : Option α := do
  let r ← if ¬ reduced then do
      let r ← skipBits 4 r
      let (eoh, r) ← rbit r
      let r ← if eoh then skipBits 2 r else some r
      let (scsct, r) ← rbit r
      let (sfsct, r) ← if scsct then some (2, r) else (rbit r).map (fun (b, r) => (b2n b, r))
      let r ← if sfsct > 0 then do
          let (scim, r) ← rbit r
          if ¬ scim then skipBits 1 r else some r
        else some r
      if eoh then skipBits 3 r else some r
    else some r
  k r

theorem parseSeqHdrBits_blocks (r : Bits) :
    parseSeqHdrBits true r = (do
      let (profile, r) ← rbits 3 r
      let (_, r) ← rbit r
      let (reduced, r) ← rbit r
      levelK reduced r fun ((lvl, tier), r) =>
      frameSizeK r fun r =>
      frameIdK reduced r fun r => do
      let r ← skipBits 3 r
      toolsK reduced r fun r => do
      let r ← skipBits 3 r
      let (cc, r) ← parseColorConfig r profile
      let _ ← rbit r
      some (profile, lvl, tier, cc)) := by
  rfl
/-! ### block lemmas -/

/-- the `n` the code uses for `decoder_buffer_delay` / `encoder_buffer_delay` -/
def bdlOf : Option DecoderModelInfo → Nat
  | none => 0
  | some d => d.bufferDelayLengthMinus1 + 1

def lvl0 : List OpPoint → Nat
  | o :: _ => o.seqLevelIdx
  | [] => 0

def tier0 : List OpPoint → Nat
  | o :: _ => b2n o.seqTier
  | [] => 0

theorem seqLevelIdx0_eq (s : SeqHdr) : s.seqLevelIdx0 = lvl0 s.opPoints := rfl
theorem seqTier0_eq (s : SeqHdr) : s.seqTier0 = tier0 s.opPoints := rfl

theorem parseOpPoint_encode (dm : Option DecoderModelInfo) (iddp : Bool) (o : OpPoint)
    (h : o.WF dm iddp) (rest : Bits) :
    parseOpPoint (encodeOpPoint dm iddp o ++ rest) dm.isSome (bdlOf dm) iddp
      = some (o.seqLevelIdx, b2n o.seqTier, rest) := by
  obtain ⟨idc, lvl, tier, odm, idd⟩ := o
  obtain ⟨h1, h2, h3, h4, h5⟩ := h
  simp only at h1 h2 h3 h4 h5
  have hl := rbits_natToBits 5 lvl h2
  by_cases h7 : 7 < lvl
  · cases dm <;> cases odm <;> cases idd <;> cases iddp <;>
      simp_all [parseOpPoint, encodeOpPoint, encodeOpParams, bdlOf, b2n, rbits_natToBits]
  · have : tier = false := h3 (by omega)
    subst this
    cases dm <;> cases odm <;> cases idd <;> cases iddp <;>
      simp [parseOpPoint, encodeOpPoint, encodeOpParams, bdlOf, b2n, hl, h7] at h4 h5 ⊢

theorem parseOpPoints_tail (dm : Option DecoderModelInfo) (iddp : Bool) (ops : List OpPoint)
    (h : ∀ o ∈ ops, o.WF dm iddp) (rest : Bits) (i l0 t0 : Nat) :
    parseOpPoints ops.length (i + 1) (ops.flatMap (encodeOpPoint dm iddp) ++ rest)
        dm.isSome (bdlOf dm) iddp l0 t0 = some (l0, t0, rest) := by
  induction ops generalizing i with
  | nil => simp [parseOpPoints]
  | cons o ops ih =>
    simp only [List.length_cons, List.flatMap_cons, List.append_assoc, parseOpPoints]
    rw [parseOpPoint_encode dm iddp o (h o (by simp))]
    simp only [Nat.succ_ne_zero, if_false]
    exact ih (fun o ho => h o (by simp [ho])) (i + 1)

theorem parseOpPoints_encode (dm : Option DecoderModelInfo) (iddp : Bool) (o : OpPoint)
    (ops : List OpPoint) (h : ∀ o' ∈ o :: ops, o'.WF dm iddp) (rest : Bits) (l0 t0 : Nat) :
    parseOpPoints (ops.length + 1) 0 ((o :: ops).flatMap (encodeOpPoint dm iddp) ++ rest)
        dm.isSome (bdlOf dm) iddp l0 t0 = some (o.seqLevelIdx, b2n o.seqTier, rest) := by
  simp only [List.flatMap_cons, List.append_assoc, parseOpPoints]
  rw [parseOpPoint_encode dm iddp o (h o (by simp))]
  simp only [if_true]
  exact parseOpPoints_tail dm iddp ops (fun o ho => h o (by simp [ho])) rest 0 _ _

theorem opsK_encode (dm : Option DecoderModelInfo) (iddp : Bool) (ops : List OpPoint)
    (h1 : 1 ≤ ops.length) (h32 : ops.length ≤ 32) (h : ∀ o ∈ ops, o.WF dm iddp) (rest : Bits)
    (k : (Nat × Nat) × Bits → Option α) :
    opsK dm.isSome (bdlOf dm) (iddp :: (natToBits 5 (ops.length - 1) ++
        (ops.flatMap (encodeOpPoint dm iddp) ++ rest))) k
      = k ((lvl0 ops, tier0 ops), rest) := by
  cases ops with
  | nil => simp at h1
  | cons o ops =>
    simp only [List.length_cons] at h32
    have e1 := rbits_natToBits 5 ops.length (by omega)
    have e2 := parseOpPoints_encode dm iddp o ops h
    simp only [List.flatMap_cons, List.append_assoc] at e2
    simp [opsK, e1, e2, lvl0, tier0]

theorem timingK_false (r : Bits) (k : Bits → Option α) : timingK false r k = k r := rfl

theorem timingK_encode (t : TimingInfo) (h : t.WF) (rest : Bits) (k : Bits → Option α) :
    timingK true (encodeTimingInfo t ++ rest) k = k rest := by
  obtain ⟨nu, ts, ntpp⟩ := t
  obtain ⟨-, -, h3⟩ := h
  cases ntpp with
  | none => simp [timingK, encodeTimingInfo]
  | some u =>
    have := skipUvlc_encode u h3
    simp [timingK, encodeTimingInfo, this]

theorem dmiK_notip (r : Bits) (k : Bool → Nat → Bits → Option α) : dmiK false r k = k false 0 r := rfl

theorem dmiK_tip_none (r : Bits) (k : Bool → Nat → Bits → Option α) :
    dmiK true (false :: r) k = k false 0 r := rfl

theorem dmiK_tip_some (d : DecoderModelInfo) (h : d.WF) (rest : Bits)
    (k : Bool → Nat → Bits → Option α) :
    dmiK true (true :: (encodeDecoderModelInfo d ++ rest)) k
      = k true (d.bufferDelayLengthMinus1 + 1) rest := by
  obtain ⟨h1, -, -, -⟩ := h
  simp [dmiK, encodeDecoderModelInfo, rbits_natToBits 5 _ h1]

/-- the `else` branch of `if (reduced_still_picture_header)` -/
theorem levelK_false_encode (s : SeqHdr) (h : s.WF) (rest : Bits)
    (k : (Nat × Nat) × Bits → Option α) :
    levelK false (encodeOperatingInfo s ++ rest) k = k ((s.seqLevelIdx0, s.seqTier0), rest) := by
  obtain ⟨-, ht, hd, h1, h32, hops, -⟩ := h
  rw [levelK_false, seqLevelIdx0_eq, seqTier0_eq]
  unfold encodeOperatingInfo
  generalize s.decoderModel = dm at *
  generalize s.timing = tm at *
  have hk := opsK_encode dm s.initialDisplayDelayPresentFlag s.opPoints h1 h32 hops rest k
  cases tm with
  | none =>
    simp only at ht
    subst ht
    simpa [timingK_false, dmiK_notip, bdlOf] using hk
  | some t =>
    simp only at ht
    cases dm with
    | none => simpa [timingK_encode t ht, dmiK_tip_none, bdlOf] using hk
    | some d => simpa [timingK_encode t ht, dmiK_tip_some d hd, bdlOf] using hk

theorem levelK_true_encode (l : Nat) (h : l < 2 ^ 5) (rest : Bits)
    (k : (Nat × Nat) × Bits → Option α) :
    levelK true (natToBits 5 l ++ rest) k = k ((l, 0), rest) := by
  rw [levelK_true, rbits_natToBits 5 l h]
  rfl

theorem frameSizeK_encode (s : SeqHdr) (h : s.WF) (rest : Bits) (k : Bits → Option α) :
    frameSizeK (encodeFrameSize s ++ rest) k = k rest := by
  obtain ⟨-, -, -, -, -, -, h1, h2, h3, h4, -⟩ := h
  simp [frameSizeK, encodeFrameSize, rbits_natToBits _ _ h1, rbits_natToBits _ _ h2,
    rbits_natToBits _ _ h3, rbits_natToBits _ _ h4]

theorem frameIdK_true (r : Bits) (k : Bits → Option α) : frameIdK true r k = k r := rfl

theorem frameIdK_false_encode (s : SeqHdr) (h : s.WF) (rest : Bits) (k : Bits → Option α) :
    frameIdK false (encodeFrameId s ++ rest) k = k rest := by
  obtain ⟨-, -, -, -, -, -, -, -, -, -, h1, -⟩ := h
  unfold encodeFrameId
  generalize s.frameId = f at *
  cases f with
  | none => simp [frameIdK]
  | some f =>
    simp only at h1
    simp [frameIdK, rbits_natToBits _ _ h1.1, rbits_natToBits _ _ h1.2]

theorem toolsK_true (r : Bits) (k : Bits → Option α) : toolsK true r k = k r := rfl

theorem natToBits_one (v : Nat) : natToBits 1 v = [decide (v % 2 = 1)] := by
  simp [natToBits]

theorem toolsK_false_encode (s : SeqHdr) (h : s.ToolsWF) (rest : Bits) (k : Bits → Option α) :
    toolsK false (encodeInterTools s ++ rest) k = k rest := by
  obtain ⟨h1, h2, h3⟩ := h
  unfold encodeInterTools
  generalize s.orderHint = oh at *
  generalize s.seqChooseScreenContentTools = csct at *
  generalize s.seqForceScreenContentTools = fsct at *
  generalize s.seqChooseIntegerMv = cim at *
  generalize s.seqForceIntegerMv = fim at *
  cases csct
  · simp only [Bool.false_eq_true, if_false] at h1
    obtain rfl | rfl : fsct = 0 ∨ fsct = 1 := by omega
    · cases oh <;> simp [toolsK, natToBits_one, b2n]
    · cases cim <;> cases oh <;> simp [toolsK, natToBits_one, b2n]
  · simp only [if_true] at h1
    subst h1
    cases cim <;> cases oh <;> simp [toolsK, natToBits_one, b2n]
/-! ### `color_config()` -/

def ccHeadK (profile : Nat) (r : Bits) (k : Bool → Bool → Bool → Bits → Option α) : Option α := do
  let (hbd, r) ← rbit r
  let (tw, r) ← if profile = 2 ∧ hbd then rbit r else some (false, r)
  let (mono, r) ← if profile = 1 then some (false, r) else rbit r
  k hbd tw mono r

def ccDescK (r : Bits) (k : Nat → Nat → Nat → Bits → Option α) : Option α := do
  let (cdp, r) ← rbit r
  let ((cp, tc, mc), r) ← if cdp then do
      let (cp, r) ← rbits 8 r
      let (tc, r) ← rbits 8 r
      let (mc, r) ← rbits 8 r
      some ((cp, tc, mc), r)
    else some ((2, 2, 2), r)
  k cp tc mc r

def ccSubK (profile bitDepth : Nat) (mono : Bool) (cp tc mc : Nat) (r : Bits)
    (k : Bool → Bool → Bits → Option α) : Option α := do
  let ((sx, sy), r) ←
    if mono then do
      let (_, r) ← rbit r
      some ((true, true), r)
    else if cp = 1 ∧ tc = 13 ∧ mc = 0 then some ((false, false), r)
    else do
      let (_, r) ← rbit r
      if profile = 0 then some ((true, true), r)
      else if profile = 1 then some ((false, false), r)
      else if bitDepth = 12 then do
        let (sx, r) ← rbit r
        let (sy, r) ← if sx then rbit r else some (false, r)
        some ((sx, sy), r)
      else some ((true, false), r)
  k sx sy r

def ccTailK (mono sx sy : Bool) (r : Bits) (k : Nat → Bits → Option α) : Option α := do
  let (csp, r) ← if sx ∧ sy then rbits 2 r else some (0, r)
  let r ← if ¬ mono then (rbit r).map (·.2) else some r
  k csp r

theorem parseColorConfig_blocks (r : Bits) (profile : Nat) :
    parseColorConfig r profile =
      ccHeadK profile r fun hbd tw mono r =>
      ccDescK r fun cp tc mc r =>
      ccSubK profile (if profile = 2 ∧ tw then 12 else if hbd then 10 else 8) mono cp tc mc r
        fun sx sy r =>
      ccTailK mono sx sy r fun csp r =>
      some (⟨hbd, tw, mono, sx, sy, csp⟩, r) := by
  rfl

def ccHeadBits (p : Nat) (c : ColorConfig) : Bits :=
  [c.highBitdepth] ++ (if p = 2 ∧ c.highBitdepth then [c.twelveBit] else []) ++
    (if p ≠ 1 then [c.monoChrome] else [])

def ccDescBits (c : ColorConfig) : Bits :=
  match c.colorDescription with
  | none => [false]
  | some d =>
    true :: (natToBits 8 d.colorPrimaries ++ natToBits 8 d.transferCharacteristics ++
             natToBits 8 d.matrixCoefficients)

def ccSubBits (p bd : Nat) (sx sy : Bool) : Bits :=
  if p = 0 then [] else if p = 1 then []
  else if bd = 12 then [sx] ++ (if sx then [sy] else []) else []

def ccCspBits (sx sy : Bool) (csp : Nat) : Bits :=
  if sx ∧ sy then natToBits 2 csp else []

theorem encodeColorConfig_eq (p : Nat) (c : ColorConfig) (rest : Bits) :
    encodeColorConfig p c ++ rest =
      ccHeadBits p c ++ (ccDescBits c ++
        (if c.monoChrome then c.colorRange :: rest
         else if c.isSrgb then c.separateUvDeltaQ :: rest
         else c.colorRange :: (ccSubBits p (c.bitDepth p) c.subsamplingX c.subsamplingY ++
           (ccCspBits c.subsamplingX c.subsamplingY c.chromaSamplePosition ++
             c.separateUvDeltaQ :: rest)))) := by
  unfold encodeColorConfig ccHeadBits ccDescBits ccSubBits ccCspBits
  by_cases hm : c.monoChrome = true
  · simp [hm]
    cases c.colorDescription <;> rfl
  · by_cases hs : c.isSrgb <;> simp [hm, hs] <;> cases c.colorDescription <;> rfl

theorem ccHeadK_encode (p : Nat) (hbd tw mono : Bool) (h1 : tw = true → p = 2 ∧ hbd = true)
    (h2 : p = 1 → mono = false) (rest : Bits) (k : Bool → Bool → Bool → Bits → Option α) :
    ccHeadK p ([hbd] ++ (if p = 2 ∧ hbd then [tw] else []) ++ (if p ≠ 1 then [mono] else []) ++ rest) k
      = k hbd tw mono rest := by
  by_cases p1 : p = 1
  · have := h2 p1
    subst this
    subst p1
    cases tw
    · cases hbd <;> simp [ccHeadK]
    · simp at h1
  · by_cases p2 : p = 2
    · subst p2
      cases hbd
      · cases tw
        · simp [ccHeadK]
        · simp at h1
      · simp [ccHeadK]
    · cases tw
      · cases hbd <;> simp [ccHeadK, p1, p2]
      · exact absurd (h1 rfl).1 p2

theorem ccHeadK_encode' (p : Nat) (c : ColorConfig) (h1 : c.twelveBit = true → p = 2 ∧ c.highBitdepth = true)
    (h2 : p = 1 → c.monoChrome = false) (rest : Bits) (k : Bool → Bool → Bool → Bits → Option α) :
    ccHeadK p (ccHeadBits p c ++ rest) k = k c.highBitdepth c.twelveBit c.monoChrome rest :=
  ccHeadK_encode p _ _ _ h1 h2 rest k

theorem ccDescK_encode (c : ColorConfig) (p : Nat) (h : c.WF p) (rest : Bits)
    (k : Nat → Nat → Nat → Bits → Option α) :
    ccDescK (ccDescBits c ++ rest) k
      = k c.colorPrimaries c.transferCharacteristics c.matrixCoefficients rest := by
  obtain ⟨-, -, h3, -⟩ := h
  unfold ccDescBits ColorConfig.colorPrimaries ColorConfig.transferCharacteristics
    ColorConfig.matrixCoefficients
  generalize c.colorDescription = cd at *
  cases cd with
  | none => simp [ccDescK]
  | some d =>
    simp only at h3
    simp [ccDescK, rbits_natToBits _ _ h3.1, rbits_natToBits _ _ h3.2.1, rbits_natToBits _ _ h3.2.2]

theorem ccSubK_mono (p bd cp tc mc : Nat) (b : Bool) (r : Bits) (k : Bool → Bool → Bits → Option α) :
    ccSubK p bd true cp tc mc (b :: r) k = k true true r := by
  simp [ccSubK]

theorem ccSubK_srgb (p bd : Nat) (r : Bits) (k : Bool → Bool → Bits → Option α) :
    ccSubK p bd false 1 13 0 r k = k false false r := by
  simp [ccSubK]

theorem ccSubK_other (p bd cp tc mc : Nat) (hs : ¬ (cp = 1 ∧ tc = 13 ∧ mc = 0)) (cr sx sy : Bool)
    (h : if p = 0 then sx = true ∧ sy = true
         else if p = 1 then sx = false ∧ sy = false
         else if bd = 12 then (sx = false → sy = false)
         else sx = true ∧ sy = false)
    (rest : Bits) (k : Bool → Bool → Bits → Option α) :
    ccSubK p bd false cp tc mc (cr :: (ccSubBits p bd sx sy ++ rest)) k = k sx sy rest := by
  simp only [ccSubK, ccSubBits, Bool.false_eq_true, if_false, hs]
  by_cases p0 : p = 0
  · simp only [p0, if_true] at h
    simp [p0, h.1, h.2]
  · by_cases p1 : p = 1
    · simp only [p1, if_true] at h
      simp [p1, h.1, h.2]
    · by_cases b12 : bd = 12
      · simp only [p0, p1, b12, if_true, if_false] at h
        cases sx
        · simp [p0, p1, b12, h rfl]
        · simp [p0, p1, b12]
      · simp only [p0, p1, b12, if_false] at h
        simp [p0, p1, b12, h.1, h.2]

theorem ccTailK_color (sx sy : Bool) (csp : Nat) (h : csp < 2 ^ 2)
    (h0 : ¬ (sx = true ∧ sy = true) → csp = 0) (suv : Bool) (rest : Bits)
    (k : Nat → Bits → Option α) :
    ccTailK false sx sy (ccCspBits sx sy csp ++ suv :: rest) k = k csp rest := by
  by_cases hxy : sx = true ∧ sy = true
  · simp [ccTailK, ccCspBits, hxy, rbits_natToBits 2 csp h]
  · have := h0 hxy
    subst this
    simp [ccTailK, ccCspBits, hxy]

/-- monochrome: the code reads a 2-bit `chroma_sample_position` that the syntax does not have
    (and, correctly, no `separate_uv_delta_q`) -/
theorem ccTailK_mono (b0 b1 : Bool) (rest : Bits) (k : Nat → Bits → Option α) :
    ccTailK true true true (b0 :: b1 :: rest) k = k (2 * b2n b0 + b2n b1) rest := by
  cases b0 <;> cases b1 <;> simp [ccTailK, rbits, b2n]

theorem ccTailK_mono_short (r : Bits) (h : r.length < 2) (k : Nat → Bits → Option α) :
    ccTailK true true true r k = none := by
  match r, h with
  | [], _ => simp [ccTailK, rbits, rbit]
  | [b], _ => simp [ccTailK, rbits, rbit]

/-- `color_config()`, every non-monochrome branch -/
theorem parseColorConfig_encode (p : Nat) (c : ColorConfig) (h : c.WF p)
    (hm : c.monoChrome = false) (rest : Bits) :
    parseColorConfig (encodeColorConfig p c ++ rest) p = some (c.toCfg, rest) := by
  have hw := h
  obtain ⟨h1, h2, h3, h4, h5⟩ := h
  rw [parseColorConfig_blocks, encodeColorConfig_eq,
    ccHeadK_encode' p c h1 h2, ccDescK_encode c p hw]
  simp only [hm, Bool.false_eq_true, if_false] at h5 ⊢
  by_cases hs : c.isSrgb
  · simp only [hs, if_true] at h5 ⊢
    obtain ⟨e1, e2, e3⟩ := hs
    obtain ⟨-, g2, g3, g4⟩ := h5
    rw [e1, e2, e3, ccSubK_srgb]
    have := ccTailK_color false false c.chromaSamplePosition h4 (fun _ => g4) c.separateUvDeltaQ rest
      (fun csp r => some ((⟨c.highBitdepth, c.twelveBit, false, false, false, csp⟩ : ColorCfg), r))
    simp only [ccCspBits, Bool.false_eq_true, and_self, if_false, List.nil_append] at this
    rw [this]
    simp [ColorConfig.toCfg, hm, g2, g3]
  · simp only [hs, if_false] at h5 ⊢
    obtain ⟨g1, g2⟩ := h5
    have hb : (if p = 2 ∧ c.twelveBit = true then 12 else if c.highBitdepth = true then 10 else 8)
        = c.bitDepth p := rfl
    rw [hb, ccSubK_other p _ _ _ _ hs c.colorRange c.subsamplingX c.subsamplingY g1,
      ccTailK_color c.subsamplingX c.subsamplingY c.chromaSamplePosition h4 g2]
    simp [ColorConfig.toCfg, hm]

/-- `color_config()` with `mono_chrome = 1`: the code consumes two bits more than the syntax and
    reports them as `chroma_sample_position` -/
theorem parseColorConfig_mono (p : Nat) (c : ColorConfig) (h : c.WF p)
    (hm : c.monoChrome = true) (b0 b1 : Bool) (rest : Bits) :
    parseColorConfig (encodeColorConfig p c ++ b0 :: b1 :: rest) p
      = some ({ c.toCfg with csp := 2 * b2n b0 + b2n b1 }, rest) := by
  have hw := h
  obtain ⟨h1, h2, h3, h4, h5⟩ := h
  rw [parseColorConfig_blocks, encodeColorConfig_eq,
    ccHeadK_encode' p c h1 h2, ccDescK_encode c p hw]
  simp only [hm, if_true] at h5 ⊢
  rw [ccSubK_mono, ccTailK_mono]
  simp [ColorConfig.toCfg, hm, h5.1, h5.2.1]

theorem parseColorConfig_mono_short (p : Nat) (c : ColorConfig) (h : c.WF p)
    (hm : c.monoChrome = true) (pad : Bits) (hp : pad.length < 2) :
    parseColorConfig (encodeColorConfig p c ++ pad) p = none := by
  have hw := h
  obtain ⟨h1, h2, h3, h4, h5⟩ := h
  rw [parseColorConfig_blocks, encodeColorConfig_eq,
    ccHeadK_encode' p c h1 h2, ccDescK_encode c p hw]
  simp only [hm, if_true]
  rw [ccSubK_mono, ccTailK_mono_short _ hp]
/-! ### the whole header up to `color_config()` -/

/-- the bits of `sequence_header_obu()` that precede `color_config()` -/
def preColorBits (s : SeqHdr) : Bits :=
  natToBits 3 s.seqProfile ++ [s.stillPicture, s.reducedStillPictureHeader] ++
  (if s.reducedStillPictureHeader then natToBits 5 s.seqLevelIdx0 else encodeOperatingInfo s) ++
  encodeFrameSize s ++
  (if s.reducedStillPictureHeader then [] else encodeFrameId s) ++
  [s.use128x128Superblock, s.enableFilterIntra, s.enableIntraEdgeFilter] ++
  (if s.reducedStillPictureHeader then [] else encodeInterTools s) ++
  [s.enableSuperres, s.enableCdef, s.enableRestoration]

theorem encodeSeqHdr_eq (s : SeqHdr) (pad : Bits) :
    encodeSeqHdr s ++ pad =
      preColorBits s ++ (encodeColorConfig s.seqProfile s.color ++ s.filmGrainParamsPresent :: pad) := by
  simp [encodeSeqHdr, preColorBits]

/-- the part of the parser after the last `skipBits 3` -/
def colorTail (profile lvl tier : Nat) (r : Bits) : Option (Nat × Nat × Nat × ColorCfg) := do
  let (cc, r) ← parseColorConfig r profile
  let _ ← rbit r
  some (profile, lvl, tier, cc)

theorem parseSeqHdrBits_blocks' (r : Bits) :
    parseSeqHdrBits true r = (do
      let (profile, r) ← rbits 3 r
      let (_, r) ← rbit r
      let (reduced, r) ← rbit r
      levelK reduced r fun ((lvl, tier), r) =>
      frameSizeK r fun r =>
      frameIdK reduced r fun r => do
      let r ← skipBits 3 r
      toolsK reduced r fun r => do
      let r ← skipBits 3 r
      colorTail profile lvl tier r) := by
  rfl

/-- every block before `color_config()`, all branches -/
theorem parseSeqHdrBits_preColor (s : SeqHdr) (h : s.WF) (tail : Bits) :
    parseSeqHdrBits true (preColorBits s ++ tail)
      = colorTail s.seqProfile s.seqLevelIdx0 s.seqTier0 tail := by
  have hw := h
  obtain ⟨hp, -, -, -, -, hops, -, -, -, -, -, hr, -⟩ := h
  rw [parseSeqHdrBits_blocks']
  unfold preColorBits
  simp only [List.append_assoc, List.cons_append, List.nil_append]
  rw [rbits_natToBits 3 _ hp]
  cases hred : s.reducedStillPictureHeader with
  | true =>
    rw [hred] at hr
    simp only [if_true] at hr
    obtain ⟨-, -, -, ⟨l, hl⟩, -⟩ := hr
    have hl5 : l < 2 ^ 5 := by
      have := hops ⟨0, l, false, none, none⟩ (by simp [hl])
      exact this.2.1
    have e0 : s.seqLevelIdx0 = l := by simp [SeqHdr.seqLevelIdx0, hl]
    have e1 : s.seqTier0 = 0 := by simp [SeqHdr.seqTier0, hl, b2n]
    simp only [if_true, e0, e1, bind, Option.bind, rbit_cons]
    rw [levelK_true_encode l hl5, frameSizeK_encode s hw, frameIdK_true]
    simp only [skipBits_succ_cons, skipBits_zero, List.nil_append]
    rw [toolsK_true]
    simp only [skipBits_succ_cons, skipBits_zero]
  | false =>
    rw [hred] at hr
    simp only [Bool.false_eq_true, if_false] at hr
    simp only [Bool.false_eq_true, if_false, bind, Option.bind, rbit_cons]
    rw [levelK_false_encode s hw, frameSizeK_encode s hw, frameIdK_false_encode s hw]
    simp only [skipBits_succ_cons, skipBits_zero]
    rw [toolsK_false_encode s hr]
    simp only [skipBits_succ_cons, skipBits_zero]
/-! ### OBU framing: `leb128()`, `obu_header()`, the OBU iterator -/

theorem readLeb128Aux_lebBytes (gs : List Nat) : ∀ (fuel v sh i : Nat) (rest : Bytes),
    gs ≠ [] → gs.length ≤ fuel → (∀ g ∈ gs, g < 128) →
    readLeb128Aux fuel (lebBytes gs ++ rest) v sh i
      = some (v + lebValue gs * 2 ^ sh, i + gs.length) := by
  induction gs with
  | nil => intro _ _ _ _ _ h; exact absurd rfl h
  | cons g gs ih =>
    intro fuel v sh i rest _ hf hg
    obtain ⟨f, rfl⟩ : ∃ f, fuel = f + 1 := ⟨fuel - 1, by simp at hf; omega⟩
    have hg0 : g < 128 := hg g (by simp)
    cases gs with
    | nil =>
      have e : (UInt8.ofNat g).toNat = g := by rw [UInt8.toNat_ofNat']; omega
      simp [lebBytes, readLeb128Aux, lebValue, e, hg0, Nat.mod_eq_of_lt hg0]
    | cons g' gs =>
      have e : (UInt8.ofNat (g + 128)).toNat = g + 128 := by rw [UInt8.toNat_ofNat']; omega
      have e2 : (g + 128) % 128 = g := by omega
      have hn : ¬ (g + 128 < 128) := by omega
      simp only [lebBytes, List.cons_append, readLeb128Aux, e, e2, hn, if_false]
      rw [ih f _ (sh + 7) (i + 1) rest (by simp) (by simp at hf ⊢; omega)
        (fun x hx => hg x (by simp [hx]))]
      have ev : lebValue (g :: g' :: gs) = g + 128 * lebValue (g' :: gs) := rfl
      rw [ev]
      generalize lebValue (g' :: gs) = L
      have ea : v + g * 2 ^ sh + L * 2 ^ (sh + 7) = v + (g + 128 * L) * 2 ^ sh := by
        rw [Nat.pow_add]
        generalize 2 ^ sh = P
        grind
      rw [ea]
      simp only [List.length_cons]
      congr 2
      omega

/-- `read_leb128` decodes every `leb128()` of 1..8 bytes (minimal or not) -/
theorem readLeb128_lebBytes (gs : List Nat) (h : LebWF gs) (rest : Bytes) :
    readLeb128 (lebBytes gs ++ rest) = some (lebValue gs, gs.length) := by
  obtain ⟨h1, h8, hg⟩ := h
  have := readLeb128Aux_lebBytes gs 8 0 0 0 rest (by intro h0; simp [h0] at h1) h8 hg
  simpa [readLeb128] using this

theorem lebValue_leb128Groups (n : Nat) : lebValue (leb128Groups n) = n := by
  fun_induction leb128Groups n with
  | case1 n h => simp [lebValue]
  | case2 n h ih => simp only [lebValue, ih]; omega

theorem leb128Groups_lt (n : Nat) : ∀ g ∈ leb128Groups n, g < 128 := by
  fun_induction leb128Groups n with
  | case1 n h => simpa using h
  | case2 n h ih =>
    intro g hg
    simp only [List.mem_cons] at hg
    rcases hg with rfl | hg
    · omega
    · exact ih g hg

theorem leb128Groups_length (k : Nat) : ∀ n, n < 128 ^ (k + 1) → (leb128Groups n).length ≤ k + 1 := by
  induction k with
  | zero =>
    intro n hn
    rw [leb128Groups]
    simp at hn
    simp [hn]
  | succ k ih =>
    intro n hn
    rw [leb128Groups]
    split
    · simp
    · have : n / 128 < 128 ^ (k + 1) := by
        rw [Nat.div_lt_iff_lt_mul (by omega)]
        rw [Nat.pow_succ] at hn
        exact hn
      have := ih _ this
      simp only [List.length_cons]
      omega

theorem leb128Groups_ne_nil (n : Nat) : 1 ≤ (leb128Groups n).length := by
  rw [leb128Groups]; split <;> simp

theorem lebWF_leb128Groups (n : Nat) (h : n < 2 ^ 56) : LebWF (leb128Groups n) :=
  ⟨leb128Groups_ne_nil n, leb128Groups_length 7 n (by simpa using h), leb128Groups_lt n⟩

/-- `read_leb128 ∘ leb128 = id` below 2^56 -/
theorem readLeb128_leb128 (n : Nat) (h : n < 2 ^ 56) (rest : Bytes) :
    readLeb128 (leb128 n ++ rest) = some (n, (leb128 n).length) := by
  have hw := lebWF_leb128Groups n h
  have hl : (leb128 n).length = (leb128Groups n).length := by
    unfold leb128
    generalize leb128Groups n = gs
    induction gs with
    | nil => rfl
    | cons g gs ih => cases gs <;> simp_all [lebBytes]
  rw [hl, leb128, readLeb128_lebBytes _ hw, lebValue_leb128Groups]

theorem lebBytes_length (gs : List Nat) : (lebBytes gs).length = gs.length := by
  induction gs with
  | nil => rfl
  | cons g gs ih => cases gs <;> simp_all [lebBytes]

theorem hdr_arith (ty e r : Nat) (ht : ty < 16) (he : e = 0 ∨ e = 4) (hr : r ≤ 1) :
    let h := ty * 8 + e + 2 + r
    h < 128 ∧ h / 8 % 16 = ty ∧ (h / 4 % 2 = 1 ↔ e = 4) ∧ h / 2 % 2 = 1 := by
  intro h
  rcases he with rfl | rfl <;> refine ⟨by omega, by omega, ?_, by omega⟩ <;> omega

theorem headerByte_toNat (o : Obu) (ht : o.obuType < 16) :
    o.headerByte.toNat
      = o.obuType * 8 + (if o.extension.isSome then 4 else 0) + 2 + b2n o.reservedBit := by
  unfold Obu.headerByte
  rw [UInt8.toNat_ofNat']
  have : b2n o.reservedBit ≤ 1 := by cases o.reservedBit <;> simp [b2n]
  split <;> omega

/-- `obu_header()` + `obu_size`: type, extension flag, header size and payload size -/
theorem parseObuHeader_obu (o : Obu) (h : o.WF) (post : Bytes) :
    parseObuHeader (o.bytes ++ post)
      = some ⟨o.obuType, o.extension.isSome, o.headerSize, o.payload.length⟩ := by
  obtain ⟨ht, hl, hv⟩ := h
  have hb := headerByte_toNat o ht
  have hr : b2n o.reservedBit ≤ 1 := by cases o.reservedBit <;> simp [b2n]
  have hgl := lebBytes_length o.sizeGroups
  have h1 := hl.1
  cases hx : o.extension with
  | none =>
    rw [hx] at hb
    simp only [Option.isSome_none, Bool.false_eq_true, if_false] at hb
    obtain ⟨a1, a2, a3, a4⟩ := hdr_arith o.obuType 0 _ ht (Or.inl rfl) hr
    have a3' : ¬ ((o.obuType * 8 + 0 + 2 + b2n o.reservedBit) / 4 % 2 = 1) := by
      rw [a3]; omega
    have hlen : ¬ ((lebBytes o.sizeGroups).length + (o.payload.length + post.length) + 1 ≤ 1) := by
      omega
    simp only [Obu.bytes, hx, Option.toList_none, List.nil_append, List.cons_append,
      parseObuHeader, hb, Option.isSome_none, Obu.headerSize, Bool.false_eq_true, if_false]
    simp only [ge_iff_le, Nat.not_le.mpr a1, a2, a3', a4, false_and, if_false, if_true,
      List.length_cons, List.length_append, hlen, List.drop_succ_cons, List.drop_zero,
      List.append_assoc, readLeb128_lebBytes _ hl, hv, decide_false]
  | some e =>
    rw [hx] at hb
    simp only [Option.isSome_some, if_true] at hb
    obtain ⟨a1, a2, a3, a4⟩ := hdr_arith o.obuType 4 _ ht (Or.inr rfl) hr
    have a3' : (o.obuType * 8 + 4 + 2 + b2n o.reservedBit) / 4 % 2 = 1 := a3.2 rfl
    have hlen : ¬ ((lebBytes o.sizeGroups).length + (o.payload.length + post.length) + 1 + 1 ≤ 2) := by
      omega
    have hlen2 : ¬ ((lebBytes o.sizeGroups).length + (o.payload.length + post.length) + 1 + 1 < 2) := by
      omega
    simp only [Obu.bytes, hx, Option.toList_some, List.cons_append, List.nil_append,
      parseObuHeader, hb, Option.isSome_some, Obu.headerSize, if_true]
    simp only [ge_iff_le, Nat.not_le.mpr a1, a2, a3', a4, true_and, if_false, if_true,
      List.length_cons, List.length_append, hlen, hlen2, List.drop_succ_cons, List.drop_zero,
      List.append_assoc, readLeb128_lebBytes _ hl, hv, decide_true]

def obuInfo (o : Obu) : ObuInfo := ⟨o.obuType, o.extension.isSome, o.headerSize, o.payload.length⟩

theorem obu_bytes_length (o : Obu) : o.bytes.length = o.headerSize + o.payload.length := by
  unfold Obu.bytes Obu.headerSize
  cases o.extension <;> simp [lebBytes_length] <;> omega

theorem obusAux_obu (o : Obu) (h : o.WF) (post : Bytes) (fuel : Nat) :
    obusAux (fuel + 1) (o.bytes ++ post) = (obuInfo o, o.bytes) :: obusAux fuel post := by
  have hl := obu_bytes_length o
  have hne : o.bytes ++ post ≠ [] := by simp [Obu.bytes]
  have ht : (obuInfo o).totalSize = o.bytes.length := by simp [ObuInfo.totalSize, obuInfo, hl]
  rw [obusAux]
  simp only [hne, if_false, parseObuHeader_obu o h post]
  change (if (obuInfo o).totalSize > _ then _
    else (obuInfo o, List.take (obuInfo o).totalSize _) :: obusAux fuel (List.drop (obuInfo o).totalSize _)) = _
  rw [ht]
  simp

theorem extractAv1Aux_obus (pre : List Obu) (sh : Obu) (post : Bytes)
    (hpre : ∀ o ∈ pre, o.WF ∧ o.obuType ≠ 1) (hsh : sh.WF) (ht : sh.obuType = 1) :
    ∀ fuel, pre.length + 1 ≤ fuel →
      extractAv1Aux (obusAux fuel (pre.flatMap Obu.bytes ++ (sh.bytes ++ post)))
        = parseSequenceHeader sh.bytes sh.headerSize := by
  induction pre with
  | nil =>
    intro fuel hf
    obtain ⟨f, rfl⟩ : ∃ f, fuel = f + 1 := ⟨fuel - 1, by simp at hf; omega⟩
    simp [obusAux_obu sh hsh, extractAv1Aux, obuInfo, ht]
  | cons o pre ih =>
    intro fuel hf
    obtain ⟨f, rfl⟩ : ∃ f, fuel = f + 1 := ⟨fuel - 1, by simp at hf; omega⟩
    obtain ⟨ho, hty⟩ := hpre o (by simp)
    simp only [List.flatMap_cons, List.append_assoc]
    rw [obusAux_obu o ho]
    simp only [extractAv1Aux, obuInfo, hty, if_false]
    exact ih (fun x hx => hpre x (by simp [hx])) f (by simp at hf; omega)

theorem flatMap_bytes_length (pre : List Obu) : pre.length ≤ (pre.flatMap Obu.bytes).length := by
  induction pre with
  | nil => simp
  | cons o pre ih =>
    have := obu_bytes_length o
    simp only [List.flatMap_cons, List.length_append, List.length_cons]
    have : 1 ≤ o.headerSize := by unfold Obu.headerSize; split <;> omega
    omega

/-- `extract_av1_config` on `OBUs without a sequence header ++ sequence header OBU ++ anything`
    is `parse_sequence_header` of exactly that OBU -/
theorem extractAv1_obus (pre : List Obu) (sh : Obu) (post : Bytes)
    (hpre : ∀ o ∈ pre, o.WF ∧ o.obuType ≠ 1) (hsh : sh.WF) (ht : sh.obuType = 1) :
    extractAv1 (pre.flatMap Obu.bytes ++ sh.bytes ++ post)
      = parseSequenceHeader sh.bytes sh.headerSize := by
  have hne : pre.flatMap Obu.bytes ++ (sh.bytes ++ post) ≠ [] := by simp [Obu.bytes]
  unfold extractAv1 obus
  simp only [List.append_assoc, hne, if_false]
  apply extractAv1Aux_obus pre sh post hpre hsh ht
  have := flatMap_bytes_length pre
  simp only [List.length_append]
  omega

theorem obu_bytes_drop (o : Obu) : o.bytes.drop o.headerSize = o.payload := by
  have hl := lebBytes_length o.sizeGroups
  unfold Obu.bytes Obu.headerSize
  cases o.extension with
  | none =>
    simp only [Option.isSome_none, Bool.false_eq_true, if_false, Option.toList_none, List.nil_append]
    rw [Nat.add_comm, List.drop_succ_cons, ← hl, List.drop_left]
  | some e =>
    simp only [Option.isSome_some, if_true, Option.toList_some, List.cons_append, List.nil_append]
    rw [show 2 + o.sizeGroups.length = o.sizeGroups.length + 1 + 1 by omega, List.drop_succ_cons,
      List.drop_succ_cons, ← hl, List.drop_left]

end Muxide.Av1Lemmas
