import Muxide.Model.Mp4
/- Muxide.Lemmas.Schedule — the interleave schedule: `Ent.le` is a total preorder, the entries of
   one track, and the per-track filter of the merged schedule. -/
namespace Muxide

theorem Ent.le_iff (a b : Ent) :
    Ent.le a b = true ↔
      (a.ts < b.ts ∨ (a.ts = b.ts ∧ (a.kind < b.kind ∨ (a.kind = b.kind ∧ a.idx ≤ b.idx)))) := by
  simp [Ent.le]

theorem Ent.le_trans (a b c : Ent) : Ent.le a b = true → Ent.le b c = true → Ent.le a c = true := by
  simp [Ent.le]; omega

theorem Ent.le_total (a b : Ent) : (Ent.le a b || Ent.le b a) = true := by
  simp [Ent.le]; omega

/-- `Ent.le` is antisymmetric: the sort key (ts, kind, idx) is the whole entry -/
theorem Ent.le_antisymm (a b : Ent) : Ent.le a b = true → Ent.le b a = true → a = b := by
  cases a; cases b
  simp [Ent.le]; omega

@[simp] theorem entsOf_length (k : Nat) (s : List Sample) : (entsOf k s).length = s.length := by
  simp [entsOf]

theorem entsOf_getElem (k : Nat) (s : List Sample) (i : Nat) (h : i < s.length) :
    (entsOf k s)[i]'(by simpa using h) = ⟨s[i].dts, k, i⟩ := by
  simp [entsOf]

theorem entsOf_getElem? (k : Nat) (s : List Sample) (i : Nat) :
    (entsOf k s)[i]? = s[i]?.map fun x => ⟨x.dts, k, i⟩ := by
  by_cases h : i < s.length
  · rw [List.getElem?_eq_getElem (by simpa using h), entsOf_getElem k s i h]
    simp [h]
  · rw [List.getElem?_eq_none (by simpa using h), List.getElem?_eq_none (by omega)]
    rfl

theorem mem_entsOf {k : Nat} {s : List Sample} {e : Ent} (h : e ∈ entsOf k s) :
    e.kind = k ∧ ∃ hi : e.idx < s.length, e.ts = s[e.idx].dts := by
  obtain ⟨i, hi, rfl⟩ := List.getElem_of_mem h
  have hi' : i < s.length := by simpa using hi
  rw [entsOf_getElem k s i hi']
  exact ⟨rfl, hi', rfl⟩

/-- entries of a track whose decode timestamps never decrease are sorted -/
theorem entsOf_pairwise (k : Nat) (s : List Sample) (h : s.Pairwise (fun a b => a.dts ≤ b.dts)) :
    (entsOf k s).Pairwise (fun a b => Ent.le a b = true) := by
  rw [List.pairwise_iff_getElem]
  intro i j hi hj hij
  have hi' : i < s.length := by simpa using hi
  have hj' : j < s.length := by simpa using hj
  rw [entsOf_getElem k s i hi', entsOf_getElem k s j hj']
  have := (List.pairwise_iff_getElem.mp h) i j hi' hj' hij
  simp [Ent.le]; omega

theorem schedule_perm (vs aus : List Sample) :
    (schedule vs aus).Perm (entsOf 0 vs ++ entsOf 1 aus) := List.mergeSort_perm _ _

theorem schedule_sorted (vs aus : List Sample) :
    (schedule vs aus).Pairwise (fun a b => Ent.le a b = true) :=
  List.pairwise_mergeSort Ent.le_trans Ent.le_total _

theorem schedule_length (vs aus : List Sample) :
    (schedule vs aus).length = vs.length + aus.length := by
  rw [(schedule_perm vs aus).length_eq]; simp

open List in
/-- a sorted sub-block of the input that is singled out by a predicate survives `mergeSort`
    unchanged as the `p`-filter of the result -/
theorem filter_mergeSort_left (xs ys : List Ent) (p : Ent → Bool)
    (hx : ∀ e ∈ xs, p e = true) (hy : ∀ e ∈ ys, p e = false)
    (hs : xs.Pairwise (fun a b => Ent.le a b = true)) :
    ((xs ++ ys).mergeSort Ent.le).filter p = xs := by
  have hsub : xs <+ (xs ++ ys).mergeSort Ent.le :=
    List.sublist_mergeSort Ent.le_trans Ent.le_total hs (List.sublist_append_left xs ys)
  have hf : xs <+ ((xs ++ ys).mergeSort Ent.le).filter p := by
    have := hsub.filter p
    rwa [List.filter_eq_self.mpr hx] at this
  have hperm : (((xs ++ ys).mergeSort Ent.le).filter p).Perm ((xs ++ ys).filter p) :=
    (List.mergeSort_perm _ _).filter p
  have hlen : (((xs ++ ys).mergeSort Ent.le).filter p).length = xs.length := by
    rw [hperm.length_eq, List.filter_append, List.filter_eq_self.mpr hx]
    have : ys.filter p = [] := by
      apply List.filter_eq_nil_iff.mpr
      intro e he; simp [hy e he]
    simp [this]
  exact (hf.eq_of_length hlen.symm).symm

open List in
theorem filter_mergeSort_right (xs ys : List Ent) (p : Ent → Bool)
    (hx : ∀ e ∈ xs, p e = false) (hy : ∀ e ∈ ys, p e = true)
    (hs : ys.Pairwise (fun a b => Ent.le a b = true)) :
    ((xs ++ ys).mergeSort Ent.le).filter p = ys := by
  have hsub : ys <+ (xs ++ ys).mergeSort Ent.le :=
    List.sublist_mergeSort Ent.le_trans Ent.le_total hs (List.sublist_append_right xs ys)
  have hf : ys <+ ((xs ++ ys).mergeSort Ent.le).filter p := by
    have := hsub.filter p
    rwa [List.filter_eq_self.mpr hy] at this
  have hperm : (((xs ++ ys).mergeSort Ent.le).filter p).Perm ((xs ++ ys).filter p) :=
    (List.mergeSort_perm _ _).filter p
  have hlen : (((xs ++ ys).mergeSort Ent.le).filter p).length = ys.length := by
    rw [hperm.length_eq, List.filter_append, List.filter_eq_self.mpr hy]
    have : xs.filter p = [] := by
      apply List.filter_eq_nil_iff.mpr
      intro e he; simp [hx e he]
    simp [this]
  exact (hf.eq_of_length hlen.symm).symm

theorem schedule_filter_video (vs aus : List Sample) (hv : vs.Pairwise (fun a b => a.dts ≤ b.dts)) :
    (schedule vs aus).filter (fun e => e.kind = 0) = entsOf 0 vs := by
  apply filter_mergeSort_left
  · intro e he; simp [(mem_entsOf he).1]
  · intro e he; simp [(mem_entsOf he).1]
  · exact entsOf_pairwise 0 vs hv

theorem schedule_filter_audio (vs aus : List Sample) (ha : aus.Pairwise (fun a b => a.dts ≤ b.dts)) :
    (schedule vs aus).filter (fun e => e.kind = 1) = entsOf 1 aus := by
  apply filter_mergeSort_right
  · intro e he; simp [(mem_entsOf he).1]
  · intro e he; simp [(mem_entsOf he).1]
  · exact entsOf_pairwise 1 aus ha

/-- every schedule entry is a video entry (kind 0) or an audio entry (kind 1) of an existing sample -/
theorem mem_schedule {vs aus : List Sample} {e : Ent} (h : e ∈ schedule vs aus) :
    (e.kind = 0 ∧ ∃ hi : e.idx < vs.length, e.ts = vs[e.idx].dts) ∨
    (e.kind = 1 ∧ ∃ hi : e.idx < aus.length, e.ts = aus[e.idx].dts) := by
  have := (schedule_perm vs aus).mem_iff.mp h
  rcases List.mem_append.mp this with h | h
  · exact Or.inl (mem_entsOf h)
  · exact Or.inr (mem_entsOf h)

/-- the kind-≠-0 filter is the kind-1 filter on a schedule -/
theorem schedule_filter_not_video (vs aus : List Sample) :
    (schedule vs aus).filter (fun e => !decide (e.kind = 0)) = (schedule vs aus).filter (fun e => e.kind = 1) := by
  apply List.filter_congr
  intro e he
  rcases mem_schedule he with ⟨h, _⟩ | ⟨h, _⟩ <;> simp [h]

theorem pairwise_lt_le {s : List Sample} (h : s.Pairwise (fun a b => a.dts < b.dts)) :
    s.Pairwise (fun a b => a.dts ≤ b.dts) :=
  h.imp (fun h => Nat.le_of_lt h)

/-- the schedule is *the* sorted arrangement of the entries: any sorted permutation of the
    entries of both tracks equals it (the sort key is the whole entry, so stability is moot) -/
theorem schedule_unique (vs aus : List Sample) (l : List Ent)
    (hp : l.Perm (entsOf 0 vs ++ entsOf 1 aus)) (hs : l.Pairwise (fun a b => Ent.le a b = true)) :
    schedule vs aus = l :=
  List.Perm.eq_of_pairwise (le := fun a b => Ent.le a b = true)
    (fun a b _ _ h1 h2 => Ent.le_antisymm a b h1 h2)
    (schedule_sorted vs aus) hs ((schedule_perm vs aus).trans hp.symm)

end Muxide
