import Muxide.Lemmas.Schedule
import Muxide.Spec.Reader
/- Muxide.Lemmas.Offsets — the cursor walk over the schedule (`assignOffsets`), the consecutive
   pieces of a concatenation, and the reader's chunk walk on the two chunk layouts. -/
namespace Muxide
open Muxide.Spec

/-- the successive cursor values of a walk that starts at `cur` and advances by `step x` -/
def cursors {α} (step : α → Nat) : List α → Nat → List Nat
  | [], _ => []
  | x :: xs, cur => cur :: cursors step xs (cur + step x)

@[simp] theorem cursors_length {α} (step : α → Nat) (l : List α) (c : Nat) :
    (cursors step l c).length = l.length := by
  induction l generalizing c with
  | nil => rfl
  | cons x xs ih => simp [cursors, ih]

/-- closed form: the j-th cursor value is the start plus the steps of the first j elements -/
theorem cursors_getElem {α} (step : α → Nat) (l : List α) (c : Nat) (j : Nat) (h : j < l.length) :
    (cursors step l c)[j]'(by simpa using h) = c + ((l.take j).map step).sum := by
  induction l generalizing c j with
  | nil => simp at h
  | cons x xs ih =>
    cases j with
    | zero => simp [cursors]
    | succ j =>
      simp only [cursors, List.getElem_cons_succ, List.take_succ_cons, List.map_cons, List.sum_cons]
      rw [ih (c + step x) j (by simpa using h)]
      omega

theorem cursors_map {α β} (g : α → β) (step : β → Nat) (l : List α) (c : Nat) :
    cursors step (l.map g) c = cursors (fun x => step (g x)) l c := by
  induction l generalizing c with
  | nil => rfl
  | cons x xs ih => simp [cursors, ih]

/-- `assignOffsets` = pair every entry with its cursor value and split by kind -/
theorem assignOffsets_eq (step : Ent → Nat) (l : List Ent) (c : Nat) :
    assignOffsets step l c =
      (((l.zip (cursors step l c)).filter (fun p => p.1.kind = 0)).map (·.2),
       ((l.zip (cursors step l c)).filter (fun p => !decide (p.1.kind = 0))).map (·.2)) := by
  induction l generalizing c with
  | nil => rfl
  | cons e es ih =>
    simp only [assignOffsets, cursors, List.zip_cons_cons, ih (c + step e)]
    by_cases hk : e.kind = 0 <;> simp [hk]

theorem filter_zip_map_fst {α β} (p : α → Bool) (l : List α) (m : List β) (h : l.length = m.length) :
    ((l.zip m).filter (fun q => p q.1)).map (·.1) = l.filter p := by
  induction l generalizing m with
  | nil => simp
  | cons x xs ih =>
    cases m with
    | nil => simp at h
    | cons y ys =>
      simp only [List.zip_cons_cons, List.filter_cons]
      by_cases hp : p x <;> simp [hp, ih ys (by simpa using h)]

/-- a list of pairs mapped to (second, g first) is the zip of the projections -/
theorem map_pair_eq_zip {α β γ} (g : α → γ) (L : List (α × β)) :
    L.map (fun q => (q.2, g q.1)) = List.zip (L.map (·.2)) ((L.map (·.1)).map g) := by
  induction L with
  | nil => rfl
  | cons q qs ih => simp [ih]

/-! ### slices of a concatenation -/

theorem slice_append_mid (pre x post : Bytes) : slice (pre ++ x ++ post) pre.length x.length = x := by
  simp [slice, List.append_assoc]

/-- every element of a concatenation is found at its cursor position -/
theorem slice_flatten {α} (f : α → Bytes) (l : List α) (pre post : Bytes) :
    ∀ q ∈ l.zip (cursors (fun e => (f e).length) l pre.length),
      slice (pre ++ (l.map f).flatten ++ post) q.2 (f q.1).length = f q.1 := by
  induction l generalizing pre with
  | nil => simp
  | cons x xs ih =>
    intro q hq
    simp only [cursors, List.zip_cons_cons, List.mem_cons] at hq
    rcases hq with rfl | hq
    · simp only [List.map_cons, List.flatten_cons]
      have : pre ++ (f x ++ (xs.map f).flatten) ++ post = pre ++ f x ++ ((xs.map f).flatten ++ post) := by
        simp [List.append_assoc]
      rw [this]
      exact slice_append_mid pre (f x) _
    · have := ih (pre ++ f x) q (by simpa using hq)
      simpa [List.append_assoc] using this

theorem entSize_eq (vs aus : List Sample) (e : Ent) : entSize vs aus e = (entData vs aus e).length := by
  unfold entSize entData
  split
  · cases vs[e.idx]? <;> simp
  · cases aus[e.idx]? <;> simp

theorem entSize_fun (vs aus : List Sample) : entSize vs aus = fun e => (entData vs aus e).length :=
  funext (entSize_eq vs aus)

theorem entsOf_map_entSize_video (vs aus : List Sample) :
    (entsOf 0 vs).map (entSize vs aus) = vs.map (·.data.length) := by
  apply List.ext_getElem (by simp)
  intro i h1 h2
  have hi : i < vs.length := by simpa using h2
  simp only [List.getElem_map]
  rw [entsOf_getElem 0 vs i hi]
  simp [entSize, hi]

theorem entsOf_map_entSize_audio (vs aus : List Sample) :
    (entsOf 1 aus).map (entSize vs aus) = aus.map (·.data.length) := by
  apply List.ext_getElem (by simp)
  intro i h1 h2
  have hi : i < aus.length := by simpa using h2
  simp only [List.getElem_map]
  rw [entsOf_getElem 1 aus i hi]
  simp [entSize, hi]

/-! ### consecutive pieces -/

/-- two byte ranges (offset, size) do not overlap -/
def RangesDisjoint (a b : Nat × Nat) : Prop := a.1 + a.2 ≤ b.1 ∨ b.1 + b.2 ≤ a.1

theorem RangesDisjoint.symm {a b : Nat × Nat} (h : RangesDisjoint a b) : RangesDisjoint b a := Or.symm h

/-- the consecutive pieces (offset, size) of a walk -/
def pieces {α} (step : α → Nat) (l : List α) (c : Nat) : List (Nat × Nat) :=
  (cursors step l c).zip (l.map step)

theorem pieces_cons {α} (step : α → Nat) (x : α) (xs : List α) (c : Nat) :
    pieces step (x :: xs) c = (c, step x) :: pieces step xs (c + step x) := by
  simp [pieces, cursors]

theorem pieces_lower {α} (step : α → Nat) (l : List α) (c : Nat) : ∀ r ∈ pieces step l c, c ≤ r.1 := by
  induction l generalizing c with
  | nil => simp [pieces, cursors]
  | cons x xs ih =>
    intro r hr
    rw [pieces_cons, List.mem_cons] at hr
    rcases hr with rfl | hr
    · exact Nat.le_refl _
    · have := ih _ r hr; omega

theorem pieces_upper {α} (step : α → Nat) (l : List α) (c : Nat) :
    ∀ r ∈ pieces step l c, r.1 + r.2 ≤ c + (l.map step).sum := by
  induction l generalizing c with
  | nil => simp [pieces, cursors]
  | cons x xs ih =>
    intro r hr
    rw [pieces_cons, List.mem_cons] at hr
    rcases hr with rfl | hr
    · simp
    · have := ih _ r hr; simp only [List.map_cons, List.sum_cons]; omega

theorem pieces_disjoint {α} (step : α → Nat) (l : List α) (c : Nat) : (pieces step l c).Pairwise RangesDisjoint := by
  induction l generalizing c with
  | nil => simp [pieces, cursors]
  | cons x xs ih =>
    rw [pieces_cons, List.pairwise_cons]
    refine ⟨?_, ih _⟩
    intro r hr
    have := pieces_lower step xs _ r hr
    exact Or.inl this

theorem pieces_sizes {α} (step : α → Nat) (l : List α) (c : Nat) :
    (pieces step l c).map (·.2) = l.map step := by
  simp [pieces, List.map_snd_zip]

/-- consecutive: each piece starts where the previous one ends -/
theorem pieces_consecutive {α} (step : α → Nat) (l : List α) (c : Nat) (j : Nat) (h : j + 1 < (pieces step l c).length) :
    (pieces step l c)[j + 1].1 = (pieces step l c)[j].1 + (pieces step l c)[j].2 := by
  have hl : j + 1 < l.length := by simpa [pieces] using h
  simp only [pieces, List.getElem_zip, List.getElem_map]
  rw [cursors_getElem step l c (j + 1) hl, cursors_getElem step l c j (by omega)]
  rw [List.take_succ_eq_append_getElem (by omega)]
  simp only [List.map_append, List.sum_append, List.map_cons, List.map_nil, List.sum_cons, List.sum_nil]
  omega

theorem sum_map_flatten_length {α} (f : α → Bytes) (l : List α) :
    ((l.map f).flatten).length = (l.map (fun e => (f e).length)).sum := by
  induction l with
  | nil => rfl
  | cons x xs ih => simp [ih]

/-! ### the reader's chunk walk -/

theorem place_eq (sizes : List Nat) (off : Nat) :
    walkChunks.place sizes off = (cursors id sizes off).zip sizes := by
  induction sizes generalizing off with
  | nil => rfl
  | cons s ss ih => simp [walkChunks.place, cursors, ih]

theorem spcOfChunk_single (n x c : Nat) (h : 1 ≤ c) : spcOfChunk [(1, n, x)] c = n := by
  simp [spcOfChunk, h]

/-- one chunk holding all samples: sample i is at `off + Σ_{j<i} size_j` -/
theorem walkChunks_single_chunk (n off : Nat) (sizes : List Nat) (h : sizes.length ≤ n) :
    walkChunks [(1, n, 1)] [off] 1 sizes = (cursors id sizes off).zip sizes := by
  simp only [walkChunks, spcOfChunk_single n 1 1 (Nat.le_refl 1)]
  rw [List.take_of_length_le h, place_eq]
  simp

/-- one sample per chunk: sample i is at chunk offset i -/
theorem walkChunks_one_per_chunk (offs : List Nat) (c : Nat) (hc : 1 ≤ c) (sizes : List Nat)
    (h : offs.length = sizes.length) :
    walkChunks [(1, 1, 1)] offs c sizes = List.zip offs sizes := by
  induction offs generalizing c sizes with
  | nil => simp [walkChunks]
  | cons o os ih =>
    cases sizes with
    | nil => simp at h
    | cons s ss =>
      simp only [walkChunks, spcOfChunk_single 1 1 c hc]
      simp only [List.take_succ_cons, List.take_zero, List.drop_succ_cons, List.drop_zero]
      rw [ih (c + 1) (by omega) ss (by simpa using h)]
      simp [walkChunks.place]

/-! ### closed forms and resolution lemmas used by C01 -/

theorem cursors_eq_range {α} (step : α → Nat) (l : List α) (c : Nat) :
    cursors step l c = (List.range l.length).map fun j => c + ((l.take j).map step).sum := by
  apply List.ext_getElem (by simp)
  intro i h1 h2
  rw [cursors_getElem step l c i (by simpa using h1)]
  simp

theorem pieces_closed {α} (step : α → Nat) (l : List α) (c : Nat) (j : Nat) (h : j < (pieces step l c).length) :
    (pieces step l c)[j].1 = c + (((pieces step l c).take j).map (·.2)).sum := by
  have hl : j < l.length := by simpa [pieces] using h
  rw [List.map_take, pieces_sizes, ← List.map_take]
  simp only [pieces, List.getElem_zip]
  exact cursors_getElem step l c j hl

/-- the i-th entry selected by `p` from the walk over the media data resolves to its own bytes -/
theorem zip_filter_resolves (vs aus : List Sample) (sched : List Ent) (pre post : Bytes) (p : Ent → Bool)
    (i : Nat)
    (hi : i < ((sched.zip (cursors (entSize vs aus) sched pre.length)).filter (fun q => p q.1)).length) :
    slice (pre ++ (sched.map (entData vs aus)).flatten ++ post)
      (((sched.zip (cursors (entSize vs aus) sched pre.length)).filter (fun q => p q.1))[i]).2
      (entData vs aus ((sched.zip (cursors (entSize vs aus) sched pre.length)).filter (fun q => p q.1))[i].1).length
      = entData vs aus ((sched.zip (cursors (entSize vs aus) sched pre.length)).filter (fun q => p q.1))[i].1 := by
  have hst := entSize_fun vs aus
  generalize entSize vs aus = st at hi hst ⊢
  subst hst
  have hm := (List.mem_filter.mp (List.getElem_mem hi)).1
  exact slice_flatten (entData vs aus) sched pre post _ hm

theorem entData_video (vs aus : List Sample) (t i : Nat) (h : i < vs.length) :
    entData vs aus ⟨t, 0, i⟩ = vs[i].data := by simp [entData, h]

theorem entData_audio (vs aus : List Sample) (t i : Nat) (h : i < aus.length) :
    entData vs aus ⟨t, 1, i⟩ = aus[i].data := by simp [entData, h]

/-- the offsets pushed for the entries selected by `p`, when those entries are exactly the
    entries of track `tr` in sample order: offset i resolves to sample i's bytes -/
theorem track_offsets_resolve (vs aus : List Sample) (pre post : Bytes) (p : Ent → Bool) (k : Nat)
    (tr : List Sample) (hfilter : (schedule vs aus).filter p = entsOf k tr)
    (hdata : ∀ i (h : i < tr.length), entData vs aus ⟨tr[i].dts, k, i⟩ = tr[i].data)
    (offs : List Nat)
    (hoffs : offs = (((schedule vs aus).zip (cursors (entSize vs aus) (schedule vs aus) pre.length)).filter
      (fun q => p q.1)).map (·.2)) :
    offs.length = tr.length ∧
    ∀ i (hi : i < tr.length) (h' : i < offs.length),
      slice (pre ++ ((schedule vs aus).map (entData vs aus)).flatten ++ post) offs[i] tr[i].data.length
        = tr[i].data := by
  subst hoffs
  have hfst := filter_zip_map_fst p (schedule vs aus) (cursors (entSize vs aus) (schedule vs aus) pre.length) (by simp)
  rw [hfilter] at hfst
  have hlen : (((schedule vs aus).zip (cursors (entSize vs aus) (schedule vs aus) pre.length)).filter
      (fun q => p q.1)).length = tr.length := by
    have := congrArg List.length hfst
    simpa using this
  refine ⟨by simpa using hlen, ?_⟩
  intro i hi h'
  have hiL : i < (((schedule vs aus).zip (cursors (entSize vs aus) (schedule vs aus) pre.length)).filter
      (fun q => p q.1)).length := by omega
  have h1 : (((schedule vs aus).zip (cursors (entSize vs aus) (schedule vs aus) pre.length)).filter
      (fun q => p q.1))[i].1 = ⟨tr[i].dts, k, i⟩ := by
    have := List.getElem_of_eq hfst (i := i) (by simpa using hiL)
    rw [List.getElem_map] at this
    rw [this, entsOf_getElem k tr i hi]
  have := zip_filter_resolves vs aus (schedule vs aus) pre post p i hiL
  rw [h1, hdata i hi] at this
  rw [List.getElem_map]
  exact this

/-- the (offset, size) ranges of the entries selected by `p` -/
theorem track_ranges_eq (vs aus : List Sample) (start : Nat) (p : Ent → Bool) (k : Nat)
    (tr : List Sample) (hfilter : (schedule vs aus).filter p = entsOf k tr)
    (hsize : (entsOf k tr).map (entSize vs aus) = tr.map (·.data.length)) :
    List.zip ((((schedule vs aus).zip (cursors (entSize vs aus) (schedule vs aus) start)).filter
        (fun q => p q.1)).map (·.2)) (tr.map (·.data.length))
      = (((schedule vs aus).zip (cursors (entSize vs aus) (schedule vs aus) start)).filter
        (fun q => p q.1)).map (fun q => (q.2, entSize vs aus q.1)) := by
  rw [map_pair_eq_zip (entSize vs aus)]
  rw [filter_zip_map_fst p (schedule vs aus) (cursors (entSize vs aus) (schedule vs aus) start) (by simp)]
  rw [hfilter, hsize]

theorem zip_map_pieces {α} (step : α → Nat) (l : List α) (c : Nat) :
    (l.zip (cursors step l c)).map (fun q => (q.2, step q.1)) = pieces step l c := by
  rw [map_pair_eq_zip step, List.map_snd_zip (by simp), List.map_fst_zip (by simp)]
  rfl

end Muxide
