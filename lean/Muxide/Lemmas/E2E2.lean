import Muxide.Props.C01E2E
/-
  Muxide.Lemmas.E2E2 — helper lemmas for the end-to-end read-back of everything a reader sees
  besides the sample payloads (Props/C03E2E.lean timing, Props/C18E2E.lean metadata,
  Props/C19E2E.lean headers and configuration):
  * the COMPLETE `Spec.Track` record that the independent reader's `decodeTrack` returns on the
    builders' `trak` trees (`videoTrackOf`, `audioTrackOf`), and the complete `Spec.Movie`
    (`mvhd` payload, tracks, `udta`) that `parseMovie` returns on a file whose moov is `bMoov …`;
  * the composition with C02 / C08 / C16 for the file written by `Writer.finalize`
    (`e2e_full`, `FullDecoded`): the movie the reader returns, as a function of the writer state.
  (Imports Props/C01E2E.lean for `fileOf`, `writtenMoov`, `MoovFits`, `file_layout`, `offsets_fit`.)
-/
namespace Muxide
open Muxide.Spec Box Muxide.Props.C08 Muxide.Props.C01E2E

/-! ### the records `decodeTrack` returns -/

/-- the decoded `stsc` table: empty when there is no chunk (or no sample per chunk), else one run -/
def stscTable (spc n : Nat) : List (Nat × Nat × Nat) :=
  if n % 2^32 = 0 ∨ spc = 0 then [] else [(1, spc, 1)]

/-- child types of the video sample table, in the order written -/
def videoStblTypes (t : Tables) : List Bytes :=
  [ascii "stsd", ascii "stts"] ++ (if t.hasBframes then [ascii "ctts"] else []) ++
  [ascii "stsc", ascii "stsz", ascii "stco"] ++ (if t.keyframes ≠ [] then [ascii "stss"] else [])

/-- child types of the audio sample table -/
def audioStblTypes : List Bytes := [ascii "stsd", ascii "stts", ascii "stsc", ascii "stsz", ascii "stco"]

/-- what the reader returns for the video `trak` built from the tables `t` -/
def videoTrackOf (W H : Nat) (t : Tables) (vc : VideoConfig) (lang : Option (List Nat)) : Track :=
  { tkhd := (bTkhd 1 0 W H (toMs t.totalDuration)).pre
    mdhd := (bMdhd 90000 t.totalDuration lang).pre
    hdlr := (bHdlr "vide" "VideoHandler").pre
    stsd := bStsd (bVideoEntry W H vc)
    stts := rle t.durations
    ctts := if t.hasBframes then some (rle t.ctsOffsets) else none
    stsc := stscTable t.samplesPerChunk t.chunkOffsets.length
    sizes := t.sizes
    stco := t.chunkOffsets
    stss := if t.keyframes ≠ [] then some t.keyframes else none
    elst := none
    stblTypes := videoStblTypes t
    mediaHeaderType := ascii "vmhd" }

/-- what the reader returns for the audio `trak` built from the tables `t` -/
def audioTrackOf (a : AudioTrack) (t : Tables) (lang : Option (List Nat)) : Track :=
  { tkhd := (bTkhd 2 0x0100 0 0 (toMs t.totalDuration)).pre
    mdhd := (bMdhd 90000 t.totalDuration lang).pre
    hdlr := (bHdlr "soun" "SoundHandler").pre
    stsd := bStsd (bAudioEntry a)
    stts := rle t.durations
    ctts := none
    stsc := stscTable t.samplesPerChunk t.chunkOffsets.length
    sizes := t.sizes
    stco := t.chunkOffsets
    stss := none
    elst := none
    stblTypes := audioStblTypes
    mediaHeaderType := ascii "smhd" }

/-- the video track decodes to `videoTrackOf` whenever its tables decode -/
theorem decodeTrack_video_full (W H : Nat) (t : Tables) (vc : VideoConfig) (lang : Option (List Nat))
    (h1 : decodeStts (bStts t.durations).pre = some (rle t.durations))
    (h2 : decodeCtts (bCtts t.ctsOffsets).pre = some (rle t.ctsOffsets))
    (h3 : decodeStsc (bStsc t.samplesPerChunk t.chunkOffsets.length).pre =
      some (stscTable t.samplesPerChunk t.chunkOffsets.length))
    (h4 : decodeStsz (bStsz t.sizes).pre = some t.sizes)
    (h5 : decodeU32Table (bStco t.chunkOffsets).pre = some t.chunkOffsets)
    (h6 : decodeU32Table (bStss t.keyframes).pre = some t.keyframes) :
    decodeTrack (bVideoTrak W H t vc lang) = some (videoTrackOf W H t vc lang) := by
  unfold bVideoTrak bVideoStbl videoTrackOf videoStblTypes
  rw [decodeTrack_vtrak]
  rw [bStsc_eq] at h3 ⊢
  have h2' : (decodeCtts (bCtts t.ctsOffsets).pre).map some = some (some (rle t.ctsOffsets)) := by rw [h2]; rfl
  have h6' : (decodeU32Table (bStss t.keyframes).pre).map some = some (some t.keyframes) := by rw [h6]; rfl
  by_cases hb : t.hasBframes = true <;> by_cases hk : t.keyframes = []
  all_goals
    simp only [hb, hk, ne_eq, not_true_eq_false, not_false_eq_true, if_true, if_false, List.append_nil,
      List.cons_append, List.nil_append, Bool.false_eq_true]
  · exact stblPart_of _ _ _ _ _ _ _ _ _ _ _ _ _ (some (rle t.ctsOffsets)) _ _ _ none rfl rfl rfl rfl rfl rfl rfl
      h1 h2' h3 h4 h5 rfl
  · exact stblPart_of _ _ _ _ _ _ _ _ _ _ _ _ _ (some (rle t.ctsOffsets)) _ _ _ (some t.keyframes)
      rfl rfl rfl rfl rfl rfl rfl h1 h2' h3 h4 h5 h6'
  · exact stblPart_of _ _ _ _ _ _ _ _ _ _ _ _ _ none _ _ _ none rfl rfl rfl rfl rfl rfl rfl
      h1 rfl h3 h4 h5 rfl
  · exact stblPart_of _ _ _ _ _ _ _ _ _ _ _ _ _ none _ _ _ (some t.keyframes) rfl rfl rfl rfl rfl rfl rfl
      h1 rfl h3 h4 h5 h6'

/-- the audio track decodes to `audioTrackOf` whenever its tables decode -/
theorem decodeTrack_audio_full (a : AudioTrack) (t : Tables) (lang : Option (List Nat))
    (h1 : decodeStts (bStts t.durations).pre = some (rle t.durations))
    (h3 : decodeStsc (bStsc t.samplesPerChunk t.chunkOffsets.length).pre =
      some (stscTable t.samplesPerChunk t.chunkOffsets.length))
    (h4 : decodeStsz (bStsz t.sizes).pre = some t.sizes)
    (h5 : decodeU32Table (bStco t.chunkOffsets).pre = some t.chunkOffsets) :
    decodeTrack (bAudioTrak a t lang) = some (audioTrackOf a t lang) := by
  unfold bAudioTrak bAudioStbl audioTrackOf audioStblTypes
  rw [decodeTrack_atrak]
  rw [bStsc_eq] at h3 ⊢
  exact stblPart_of _ _ _ _ _ _ _ _ _ _ _ _ _ none _ _ _ none rfl rfl rfl rfl rfl rfl rfl
    h1 rfl h3 h4 h5 rfl

/-! ### the movie `parseMovie` returns -/

/-- duration (ms) and next-track id that `bMoov` hands to `bMvhd` -/
def mvhdArgs (vt : Tables) (audio : Option (AudioTrack × Tables)) : Nat × Nat :=
  (max (toMs vt.totalDuration) (match audio with | some (_, at_) => toMs at_.totalDuration | none => 0),
   if audio.isSome then 3 else 2)

theorem child_mvhd_bMoov_eq (W H : Nat) (vt : Tables) (audio : Option (AudioTrack × Tables)) (vc : VideoConfig)
    (md : Option Metadata) :
    child? "mvhd" (bMoov W H vt audio vc md).kids = some (bMvhd (mvhdArgs vt audio).1 (mvhdArgs vt audio).2) := rfl

/-- the reader's `udta` lookup in the moov finds exactly the box `bUdta` built, or nothing -/
theorem child_udta_bMoov (W H : Nat) (vt : Tables) (audio : Option (AudioTrack × Tables)) (vc : VideoConfig)
    (md : Option Metadata) :
    child? "udta" (bMoov W H vt audio vc md).kids = md.bind bUdta := by
  unfold bMoov
  have hu := bind_bUdta_typ md
  generalize md.bind bUdta = u? at hu
  cases u? with
  | none =>
    rcases audio with _ | ⟨a, t⟩ <;> rfl
  | some u =>
    have := hu u rfl
    obtain ⟨t, p, k⟩ := u
    simp only [Box.typ] at this
    subst this
    rcases audio with _ | ⟨a, t⟩ <;> rfl

/-- `parseMovie` on a file whose moov is `bMoov …`: the complete movie record -/
theorem parseMovie_of_full (file : Bytes) (top : List Box) (W H : Nat) (vt : Tables)
    (audio : Option (AudioTrack × Tables)) (vc : VideoConfig) (md : Option Metadata) (tracks : List Track)
    (htop : parseFileTree file = some top)
    (hm : child? "moov" top = some (bMoov W H vt audio vc md))
    (ht : (bVideoTrak W H vt vc (md.bind (·.language)) :: audioTraks audio (md.bind (·.language))).mapM decodeTrack
       = some tracks) :
    parseMovie file = some ⟨top, bMoov W H vt audio vc md,
      (bMvhd (mvhdArgs vt audio).1 (mvhdArgs vt audio).2).pre, tracks, md.bind bUdta⟩ := by
  unfold parseMovie
  rw [htop]
  simp only [Option.bind_eq_bind, Option.bind_some]
  rw [hm, Option.bind_some]
  rw [child_mvhd_bMoov_eq, Option.bind_some, children_trak_bMoov, ht, Option.bind_some, child_udta_bMoov]

/-! ### the written file -/

/-- the video sample tables `moovOf` builds for the offsets `o` -/
def vTablesOf (w : Writer) (o : List Nat × List Nat) : Tables :=
  Tables.ofSamples w.vsRev.reverse o.1
    (match w.audio with
     | some _ => 1
     | none => if w.vsRev.reverse ≠ [] then w.vsRev.reverse.length else 0) w.vLastDelta

/-- the audio sample tables `moovOf` builds for the offsets `o` -/
def aTablesOf (w : Writer) (o : List Nat × List Nat) : Tables :=
  Tables.ofSamples w.asRev.reverse o.2 1 w.aLastDelta

theorem moovOf_eq (w : Writer) (width height : Nat) (md : Option Metadata) (vc : VideoConfig)
    (o : List Nat × List Nat) :
    moovOf w width height md vc o =
      bMoov width height (vTablesOf w o) (w.audio.map fun tr => (tr, aTablesOf w o)) vc md := by
  unfold moovOf vTablesOf aTablesOf
  cases w.audio <;> rfl

/-- total media duration (90 kHz ticks) of the video / audio track as written -/
def vDur (w : Writer) : Nat := (durationsOf w.vsRev.reverse w.vLastDelta).sum
def aDur (w : Writer) : Nat := (durationsOf w.asRev.reverse w.aLastDelta).sum

theorem vTablesOf_totalDuration (w : Writer) (o : List Nat × List Nat) :
    (vTablesOf w o).totalDuration = vDur w := rfl
theorem aTablesOf_totalDuration (w : Writer) (o : List Nat × List Nat) :
    (aTablesOf w o).totalDuration = aDur w := rfl

/-- the `mvhd` payload that is written: movie timescale 1000, duration the longer track in ms,
    next track id 3 with an audio track and 2 without -/
def mvhdOf (w : Writer) : Bytes :=
  (bMvhd (max (toMs (vDur w)) (match w.audio with | some _ => toMs (aDur w) | none => 0))
    (if w.audio.isSome then 3 else 2)).pre

/-- the tracks the reader returns, in order -/
def tracksOf (w : Writer) (width height : Nat) (md : Option Metadata) (o : List Nat × List Nat) : List Track :=
  videoTrackOf width height (vTablesOf w o) (vcOf w) (md.bind (·.language)) ::
    (match w.audio with
     | some tr => [audioTrackOf tr (aTablesOf w o) (md.bind (·.language))]
     | none => [])

/-- everything the reader returns for the finished file, in terms of the writer state -/
structure FullDecoded (w : Writer) (width height : Nat) (md : Option Metadata) (fast : Bool) (mv : Movie) : Prop where
  moov : mv.moov = writtenMoov w width height md fast
  mvhd : mv.mvhd = mvhdOf w
  tracks : mv.tracks = tracksOf w width height md (offsetsAt w (mediaStart w width height md fast))
  udta : mv.udta = md.bind bUdta

/-- exactness of the composition offset on every accepted frame: the offset fits an `i32`
    (checked when the frame is accepted), whatever the magnitude of the timestamps -/
theorem ctsOf_exact_i32 (pts dts : Nat)
    (h1 : -(2^31 : Int) ≤ (pts : Int) - dts) (h2 : (pts : Int) - dts ≤ 2^31 - 1) :
    ctsOf pts dts = some ((pts : Int) - dts) := by
  simp only [ctsOf]
  rw [toI32_roundtrip _ h1 h2]

/-- the composition offsets of the video tables are `pts - dts`, and `hasBframes` says one of them
    is non-zero — for every writer satisfying the timing invariant; no bound on the timestamps -/
theorem vTables_cts (w : Writer) (hv : VInv w) (offs : List Nat) (spc : Nat) :
    (Tables.ofSamples w.vsRev.reverse offs spc w.vLastDelta).ctsOffsets =
      w.vsRev.reverse.map (fun s => (s.pts : Int) - s.dts) ∧
    ((Tables.ofSamples w.vsRev.reverse offs spc w.vLastDelta).hasBframes = true ↔
      ∃ s ∈ w.vsRev.reverse, s.pts ≠ s.dts) := by
  apply Muxide.Props.C03.tables_ctts
  intro s hs
  have hs' : s ∈ w.vsRev := by simpa using hs
  exact ctsOf_exact_i32 _ _ (hv.cts s hs').1 (hv.cts s hs').2

theorem vTablesOf_cts (w : Writer) (hv : VInv w) (o : List Nat × List Nat) :
    (vTablesOf w o).ctsOffsets = w.vsRev.reverse.map (fun s => (s.pts : Int) - s.dts) ∧
    ((vTablesOf w o).hasBframes = true ↔ ∃ s ∈ w.vsRev.reverse, s.pts ≠ s.dts) :=
  vTables_cts w hv _ _

/-- the video track written for any chunk-offset vector whose entries and count fit 32 bits is
    decoded by the reader to the complete record `videoTrackOf` -/
theorem video_track_full (w : Writer) (hr : w.Reachable) (width height : Nat) (md : Option Metadata)
    (fast : Bool) (hok : (w.finalize width height md fast).2.res = .ok) (vc : VideoConfig)
    (lang : Option (List Nat)) (offs : List Nat) (spc : Nat) (hspc : spc < 2^32)
    (hoffs : ∀ x ∈ offs, x < 2^32) (hlen : offs.length < 2^32) :
    decodeTrack (bVideoTrak width height (Tables.ofSamples w.vsRev.reverse offs spc w.vLastDelta) vc lang) =
      some (videoTrackOf width height (Tables.ofSamples w.vsRev.reverse offs spc w.vLastDelta) vc lang) := by
  obtain ⟨d1, -, -, -, z1, -, c1, -, -, -, -⟩ := Props.C16.C16_finalize_values w hr width height md fast hok
  have c1' : w.vsRev.reverse.length < 2^32 := by simpa using c1
  have h1 := Props.C16.C16_stts _ d1 (by rw [durationsOf_length]; exact c1')
  have h2 := Props.C16.C16_ctts (Tables.ofSamples w.vsRev.reverse offs spc w.vLastDelta).ctsOffsets
    (by
      intro o ho
      simp only [Tables.ofSamples, List.mem_map] at ho
      obtain ⟨s, -, rfl⟩ := ho
      simp only [ctsOf, Option.getD_some]
      exact toI32_range _ (by omega))
    (by simpa [Tables.ofSamples] using c1)
  have h6 := Props.C16.C16_stss (keyframesOf w.vsRev.reverse)
    (by
      intro k hk
      have := (keyframesOf_range w.vsRev.reverse k hk).2
      omega)
    (Nat.lt_of_le_of_lt (keyframesOf_length_le _) c1')
  exact decodeTrack_video_full width height (Tables.ofSamples w.vsRev.reverse offs spc w.vLastDelta) vc lang
    h1 h2 (Props.C16.C16_stsc spc offs.length hspc)
    (Props.C16.C16_stsz _ z1 (by simpa [Tables.ofSamples] using c1))
    (Props.C16.C16_stco offs hoffs hlen) h6

/-- the same for the audio track -/
theorem audio_track_full (w : Writer) (hr : w.Reachable) (width height : Nat) (md : Option Metadata)
    (fast : Bool) (hok : (w.finalize width height md fast).2.res = .ok) (tr : AudioTrack)
    (hau : w.audio = some tr) (lang : Option (List Nat)) (offs : List Nat) (spc : Nat) (hspc : spc < 2^32)
    (hoffs : ∀ x ∈ offs, x < 2^32) (hlen : offs.length < 2^32) :
    decodeTrack (bAudioTrak tr (Tables.ofSamples w.asRev.reverse offs spc w.aLastDelta) lang) =
      some (audioTrackOf tr (Tables.ofSamples w.asRev.reverse offs spc w.aLastDelta) lang) := by
  obtain ⟨-, d2, -, -, -, z2, -, c2, -, -, -⟩ := Props.C16.C16_finalize_values w hr width height md fast hok
  have c2 := c2 (by simp [hau])
  have c2' : w.asRev.reverse.length < 2^32 := by simpa using c2
  have h1 := Props.C16.C16_stts _ d2 (by rw [durationsOf_length]; exact c2')
  exact decodeTrack_audio_full tr (Tables.ofSamples w.asRev.reverse offs spc w.aLastDelta) lang
    h1 (Props.C16.C16_stsc spc offs.length hspc)
    (Props.C16.C16_stsz _ z2 (by simpa [Tables.ofSamples] using c2))
    (Props.C16.C16_stco offs hoffs hlen)

/-- the movie read from any file whose top-level boxes contain the written moov -/
theorem movie_of_top_full (w : Writer) (hr : w.Reachable) (width height : Nat) (md : Option Metadata)
    (fast : Bool) (hok : (w.finalize width height md fast).2.res = .ok) (file : Bytes) (top : List Box)
    (htop : parseFileTree file = some top)
    (hm : child? "moov" top = some (writtenMoov w width height md fast)) :
    ∃ mv, parseMovie file = some mv ∧ FullDecoded w width height md fast mv := by
  obtain ⟨hov, hoa⟩ := offsets_fit w width height md fast hok
  obtain ⟨-, -, -, -, -, -, c1, c2, -, -, -⟩ := Props.C16.C16_finalize_values w hr width height md fast hok
  have hmoov : writtenMoov w width height md fast =
      moovOf w width height md (vcOf w) (offsetsAt w (mediaStart w width height md fast)) := rfl
  rw [hmoov] at hm
  generalize hs : mediaStart w width height md fast = start at hm hov hoa hmoov
  cases hau : w.audio with
  | some tr =>
    have c2 := c2 (by simp [hau])
    have hl := schedule_offsets_length (entSize w.vsRev.reverse w.asRev.reverse) w.vsRev.reverse w.asRev.reverse start
    have ho : offsetsAt w start = assignOffsets (entSize w.vsRev.reverse w.asRev.reverse)
        (schedule w.vsRev.reverse w.asRev.reverse) start := by simp only [offsetsAt, hau]
    rw [← ho] at hl
    have hvt := video_track_full w hr width height md fast hok (vcOf w) (md.bind (·.language))
      (offsetsAt w start).1 1 (by omega) hov (by rw [hl.1]; simpa using c1)
    have hat := audio_track_full w hr width height md fast hok tr hau (md.bind (·.language))
      (offsetsAt w start).2 1 (by omega) hoa (by rw [hl.2]; simpa using c2)
    have hm' : child? "moov" top = some (bMoov width height
        (Tables.ofSamples w.vsRev.reverse (offsetsAt w start).1 1 w.vLastDelta)
        (some (tr, Tables.ofSamples w.asRev.reverse (offsetsAt w start).2 1 w.aLastDelta)) (vcOf w) md) := by
      rw [hm]; simp only [moovOf, hau]
    have hp := parseMovie_of_full file top _ _ _ _ _ _ _ htop hm' (by
      rw [audioTraks, List.mapM_cons, hvt, List.mapM_cons, hat, List.mapM_nil]; rfl)
    subst hs
    refine ⟨_, hp, ?_, ?_, ?_, rfl⟩
    · rw [hmoov]; simp only [moovOf, hau]
    · simp only [mvhdOf, mvhdArgs, hau]; rfl
    · simp only [tracksOf, vTablesOf, aTablesOf, hau]
  | none =>
    have ho : offsetsAt w start = (if w.vsRev.reverse ≠ [] then [start] else [], []) := by
      simp only [offsetsAt, hau]
    have hvt := video_track_full w hr width height md fast hok (vcOf w) (md.bind (·.language))
      (offsetsAt w start).1 (if w.vsRev.reverse ≠ [] then w.vsRev.reverse.length else 0)
      (by split <;> simp <;> omega) hov (by rw [ho]; split <;> simp)
    have hm' : child? "moov" top = some (bMoov width height
        (Tables.ofSamples w.vsRev.reverse (offsetsAt w start).1
          (if w.vsRev.reverse ≠ [] then w.vsRev.reverse.length else 0) w.vLastDelta) none (vcOf w) md) := by
      rw [hm]; simp only [moovOf, hau]
    have hp := parseMovie_of_full file top _ _ _ _ _ _ _ htop hm' (by
      rw [audioTraks, List.mapM_cons, hvt, List.mapM_nil]; rfl)
    subst hs
    refine ⟨_, hp, ?_, ?_, ?_, rfl⟩
    · rw [hmoov]; simp only [moovOf, hau]
    · simp only [mvhdOf, mvhdArgs, hau]; rfl
    · simp only [tracksOf, vTablesOf, hau]

/-- the composition: the finished file parses, and the movie the reader returns is determined by
    the writer state -/
theorem e2e_full (w : Writer) (hr : w.Reachable) (width height : Nat) (md : Option Metadata)
    (fast : Bool) (hok : (w.finalize width height md fast).2.res = .ok)
    (hfit : MoovFits w width height md fast) :
    ∃ mv, parseMovie (fileOf w width height md fast) = some mv ∧ FullDecoded w width height md fast mv := by
  obtain ⟨-, hp, hfile⟩ := file_layout w hr width height md fast hok
  obtain ⟨p1, p2, p3⟩ := Props.C02.C02_progressive_parses (writtenMoov w width height md fast) (payloadOf w)
    (shape_moovOf _ _ _ _ _ _) hfit hp
  obtain ⟨m1, m2, m3⟩ := child_moov_top (writtenMoov w width height md fast) (payloadOf w) (moovOf_typ _ _ _ _ _ _)
  have key := movie_of_top_full w hr width height md fast hok (fileOf w width height md fast)
  cases fast with
  | true =>
    simp only [if_true] at hfile
    rw [hfile] at key ⊢
    exact key _ p1 m1
  | false =>
    simp only [Bool.false_eq_true, if_false] at hfile
    split at hfile
    · rw [hfile] at key ⊢
      exact key _ p3 m3
    · rw [hfile] at key ⊢
      exact key _ p2 m2

/-- for the movie the reader returns: its first track is the video record, and with an audio
    track configured its second track is the audio record -/
theorem e2e_tracks (w : Writer) (hr : w.Reachable) (width height : Nat) (md : Option Metadata)
    (fast : Bool) (hok : (w.finalize width height md fast).2.res = .ok)
    (hfit : MoovFits w width height md fast) (mv : Movie)
    (hmv : parseMovie (fileOf w width height md fast) = some mv) :
    FullDecoded w width height md fast mv ∧
    (∀ t, mv.tracks[0]? = some t →
      t = videoTrackOf width height (vTablesOf w (offsetsAt w (mediaStart w width height md fast))) (vcOf w)
        (md.bind (·.language))) ∧
    (∀ tr, w.audio = some tr → ∀ t, mv.tracks[1]? = some t →
      t = audioTrackOf tr (aTablesOf w (offsetsAt w (mediaStart w width height md fast)))
        (md.bind (·.language))) := by
  obtain ⟨mv', hmv', hd⟩ := e2e_full w hr width height md fast hok hfit
  have : mv' = mv := Option.some.inj (hmv'.symm.trans hmv)
  subst this
  refine ⟨hd, ?_, ?_⟩
  · intro t ht
    rw [hd.tracks, tracksOf] at ht
    simpa using ht.symm
  · intro tr hau t ht
    rw [hd.tracks, tracksOf, hau] at ht
    simpa using ht.symm

end Muxide
