import Muxide.Model.Sink
/- Muxide.Lemmas.Sink — `write_all` / chunk-sequence lemmas for an arbitrary sink. -/
namespace Muxide

variable {σ : Type}

/-- after `write_all`, the sink holds what it held plus a prefix of the buffer; the whole buffer
    iff the call succeeded -/
theorem writeAll_prefix (respond : Respond σ) (fuel : Nat) (s : Sink σ) (buf : Bytes) :
    ∃ k, k ≤ buf.length ∧ (writeAll respond fuel s buf).1.got = s.got ++ buf.take k ∧
      ((writeAll respond fuel s buf).2 = .ok () → k = buf.length) := by
  induction fuel generalizing s buf with
  | zero =>
    refine ⟨0, by omega, ?_, ?_⟩
    · simp [writeAll]; split <;> simp
    · simp [writeAll]; split <;> simp_all
  | succ fuel ih =>
    unfold writeAll
    split
    · next h => subst h; exact ⟨0, by simp, by simp, by simp⟩
    · split
      · next st' n hr =>
        split
        · exact ⟨0, by omega, by simp, by simp⟩
        · obtain ⟨k, hk, hg, hok⟩ := ih { st := st', got := s.got ++ buf.take (min n buf.length) } (buf.drop (min n buf.length))
          refine ⟨min n buf.length + k, ?_, ?_, ?_⟩
          · simp at hk; omega
          · rw [hg]; simp [List.append_assoc]
            rw [← List.take_add]
          · intro h; have := hok h; simp at this; omega
      · next st' hr =>
        obtain ⟨k, hk, hg, hok⟩ := ih { s with st := st' } buf
        exact ⟨k, hk, by simpa using hg, hok⟩
      · next st' kind hr => exact ⟨0, by omega, by simp, by simp⟩

open List in
/-- the accepted bytes are always the previous content plus a prefix of the concatenated chunks;
    all of them iff every `write_all` succeeded -/
theorem writeChunks_prefix (respond : Respond σ) (fuel : Nat) (s : Sink σ) (cs : List Bytes) (cnt : Nat) :
    ∃ p, p <+: cs.flatten ∧ (writeChunks respond fuel s cs cnt).1.got = s.got ++ p ∧
      ((writeChunks respond fuel s cs cnt).2.1 = .ok () → p = cs.flatten) := by
  induction cs generalizing s cnt with
  | nil => exact ⟨[], by simp, by simp [writeChunks], by simp⟩
  | cons c cs ih =>
    obtain ⟨k, hk, hg, hok⟩ := writeAll_prefix respond fuel s c
    unfold writeChunks
    split
    · next s' h =>
      have hk' : k = c.length := hok (by rw [h])
      have hs' : s'.got = s.got ++ c := by
        have : (writeAll respond fuel s c).1 = s' := by rw [h]
        rw [← this, hg, hk']; simp
      obtain ⟨p, hp, hg2, hok2⟩ := ih s' (cnt + c.length)
      refine ⟨c ++ p, ?_, ?_, ?_⟩
      · simp only [List.flatten_cons]; exact (List.prefix_append_right_inj c).mpr hp
      · rw [hg2, hs']; simp
      · intro h2; rw [hok2 h2]; simp
    · next s' e h =>
      have : (writeAll respond fuel s c).1 = s' := by rw [h]
      refine ⟨c.take k, ?_, ?_, ?_⟩
      · simp only [List.flatten_cons]
        exact (List.take_prefix k c).trans (List.prefix_append c _)
      · rw [← this, hg]
      · intro h2; simp at h2

/-- the byte count reported by `write_counted` on success is the total length of the chunks -/
theorem writeChunks_count_ok (respond : Respond σ) (fuel : Nat) (s : Sink σ) (cs : List Bytes) (cnt : Nat)
    (h : (writeChunks respond fuel s cs cnt).2.1 = .ok ()) :
    (writeChunks respond fuel s cs cnt).2.2 = cnt + (cs.map (·.length)).sum := by
  induction cs generalizing s cnt with
  | nil => simp [writeChunks]
  | cons c cs ih =>
    unfold writeChunks at h ⊢
    split
    · next s' hw =>
      rw [hw] at h
      simp only at h
      rw [ih s' (cnt + c.length) h]
      simp; omega
    · next s' e hw =>
      rw [hw] at h
      simp at h

end Muxide
