import Muxide.Model.Cli
import Muxide.Spec.Reader
import Muxide.Lemmas.Bytes
/-
  Muxide.Lemmas.Cli — helper lemmas for C20: what `hexVal`/`hexPair`/`hexPairs` accept, what a
  successful `parseBox`/`parseBoxes` says about the bytes (declared size = `Box.size`, the boxes
  tile the input), and the agreement of the CLI `info` walk with that reader.
-/
namespace Muxide
open Muxide.Spec

/-! ### hex decoding -/

/-- `hexVal` accepts exactly `0-9`, `A-F`, `a-f` -/
theorem hexVal_isSome_iff (c : Nat) :
    (hexVal c).isSome = true ↔ (48 ≤ c ∧ c ≤ 57) ∨ (65 ≤ c ∧ c ≤ 70) ∨ (97 ≤ c ∧ c ≤ 102) := by
  unfold hexVal
  split
  · simp; omega
  · split
    · simp; omega
    · split
      · simp; omega
      · simp; omega

theorem hexVal_plus : hexVal 43 = none := by decide

/-- a pair is decoded iff it is two hex digits (a leading `+` is refused) -/
theorem hexPair_isSome_iff (a b : Nat) :
    (hexPair a b).isSome = true ↔ (hexVal a).isSome = true ∧ (hexVal b).isSome = true := by
  unfold hexPair
  cases ha : hexVal a <;> cases hb : hexVal b <;> simp

/-- `hexPairs` accepts exactly the even-length strings of hex digits -/
theorem hexPairs_isSome_iff : ∀ (l : List Nat),
    (hexPairs l).isSome = true ↔ l.length % 2 = 0 ∧ ∀ c ∈ l, (hexVal c).isSome = true
  | [] => by simp [hexPairs]
  | [_] => by simp [hexPairs]
  | a :: b :: r => by
    have ih := hexPairs_isSome_iff r
    have hp := hexPair_isSome_iff a b
    have e : (hexPairs (a :: b :: r)).isSome = true ↔
        (hexPair a b).isSome = true ∧ (hexPairs r).isSome = true := by
      simp only [hexPairs]
      cases hexPair a b <;> cases hexPairs r <;> simp
    rw [e, hp, ih]
    simp only [List.length_cons, List.mem_cons, forall_eq_or_imp]
    constructor
    · rintro ⟨⟨h1, h2⟩, h3, h4⟩; exact ⟨by omega, h1, h2, h4⟩
    · rintro ⟨h1, h2, h3, h4⟩; exact ⟨⟨h2, h3⟩, by omega, h4⟩

theorem hexPairs_length : ∀ (l : List Nat) (d : Bytes), hexPairs l = some d → l.length = 2 * d.length
  | [], d, h => by simp [hexPairs] at h; subst h; rfl
  | [_], d, h => by simp [hexPairs] at h
  | a :: b :: r, d, h => by
    simp only [hexPairs] at h
    cases hp : hexPair a b with
    | none => simp [hp] at h
    | some v =>
      cases hr : hexPairs r with
      | none => simp [hp, hr] at h
      | some rest =>
        simp [hp, hr] at h
        subst h
        have := hexPairs_length r rest hr
        simp [this]; omega

/-! ### what a successful parse says about the bytes -/

theorem readU32_some (d : Bytes) (x : Nat) (r : Bytes) (h : readU32 d = some (x, r)) :
    r = d.drop 4 ∧ 4 ≤ d.length ∧ x < 2^32 := by
  match d, h with
  | a :: b :: c :: e :: rest, h =>
    simp only [readU32, Option.some.injEq, Prod.mk.injEq] at h
    obtain ⟨hx, hr⟩ := h
    have := a.toNat_lt; have := b.toNat_lt; have := c.toNat_lt; have := e.toNat_lt
    subst hr
    refine ⟨by simp, by simp, ?_⟩
    omega

theorem box_size_pos (b : Box) : 8 ≤ Box.size b := by
  cases b; simp [Box.size]; omega

theorem length_le_sizes : ∀ (bs : List Box), 8 * bs.length ≤ Box.sizes bs
  | [] => by simp [Box.sizes]
  | b :: bs => by
    have := box_size_pos b
    have := length_le_sizes bs
    simp only [Box.sizes, List.length_cons]; omega

/-- the facts the `info` walk needs about one parsed box -/
def BoxHeaderOk (d : Bytes) (b : Box) (rest : Bytes) : Prop :=
  ∃ sz r1, readU32 d = some (sz, r1) ∧ 8 ≤ sz ∧ sz ≤ d.length ∧ b.typ = r1.take 4 ∧
    Box.size b = sz ∧ rest = d.drop sz

theorem parse_sizes (sc : Schema) : ∀ (fuel : Nat),
    (∀ d b rest, parseBox sc fuel d = some (b, rest) → BoxHeaderOk d b rest) ∧
    (∀ d bs, parseBoxes sc fuel d = some bs → Box.sizes bs = d.length) := by
  intro fuel
  induction fuel with
  | zero => constructor <;> intros <;> simp_all [parseBox, parseBoxes]
  | succ fuel ih =>
    obtain ⟨ihb, ihl⟩ := ih
    constructor
    · intro d b rest h
      simp only [parseBox] at h
      cases hr : readU32 d with
      | none => simp [hr] at h
      | some p =>
        obtain ⟨sz, r1⟩ := p
        obtain ⟨hr1, hd4, _⟩ := readU32_some d sz r1 hr
        simp only [hr] at h
        by_cases h8 : sz < 8
        · simp [h8] at h
        · simp only [h8, if_false] at h
          by_cases hlen : r1.length < sz - 4
          · simp [hlen] at h
          · simp only [hlen, if_false] at h
            have hl1 : r1.length = d.length - 4 := by rw [hr1]; simp
            have hpl : ((r1.drop 4).take (sz - 8)).length = sz - 8 := by
              simp only [List.length_take, List.length_drop]; omega
            have hrest : (r1.drop 4).drop (sz - 8) = d.drop sz := by
              rw [hr1]; simp only [List.drop_drop]; congr 1; omega
            cases hs : sc (r1.take 4) with
            | none =>
              simp only [hs, Option.some.injEq, Prod.mk.injEq] at h
              obtain ⟨hb, hre⟩ := h
              subst hb
              refine ⟨sz, r1, hr, by omega, by omega, rfl, ?_, ?_⟩
              · simp only [Box.size, Box.sizes, hpl]; omega
              · rw [← hre, hrest]
            | some n =>
              simp only [hs] at h
              by_cases hn : ((r1.drop 4).take (sz - 8)).length < n
              · rw [if_pos hn] at h; exact absurd h (by simp)
              · simp only [hn, if_false] at h
                cases hk : parseBoxes sc fuel (((r1.drop 4).take (sz - 8)).drop n) with
                | none => simp [hk] at h
                | some ks =>
                  simp only [hk, Option.some.injEq, Prod.mk.injEq] at h
                  obtain ⟨hb, hre⟩ := h
                  subst hb
                  have hks := ihl _ _ hk
                  refine ⟨sz, r1, hr, by omega, by omega, rfl, ?_, ?_⟩
                  · simp only [Box.size, hks, List.length_take, List.length_drop] at hpl hn ⊢
                    omega
                  · rw [← hre, hrest]
    · intro d bs h
      simp only [parseBoxes] at h
      by_cases hd : d = []
      · simp [hd] at h; subst h; simp [hd, Box.sizes]
      · simp only [hd, if_false] at h
        cases hb : parseBox sc fuel d with
        | none => simp [hb] at h
        | some p =>
          obtain ⟨b, rest⟩ := p
          simp only [hb] at h
          cases hl : parseBoxes sc fuel rest with
          | none => simp [hl] at h
          | some bs' =>
            simp only [hl, Option.some.injEq] at h
            subst h
            obtain ⟨sz, r1, _, _, hle, _, hsz, hrest⟩ := ihb d b rest hb
            have := ihl rest bs' hl
            simp only [Box.sizes, hsz, this, hrest, List.length_drop]
            omega

theorem parseBox_header (sc : Schema) (fuel : Nat) (d : Bytes) (b : Box) (rest : Bytes)
    (h : parseBox sc fuel d = some (b, rest)) : BoxHeaderOk d b rest :=
  (parse_sizes sc fuel).1 d b rest h

/-- the boxes returned by `parseBoxes` tile the input exactly -/
theorem parseBoxes_sizes (sc : Schema) (fuel : Nat) (d : Bytes) (bs : List Box)
    (h : parseBoxes sc fuel d = some bs) : Box.sizes bs = d.length :=
  (parse_sizes sc fuel).2 d bs h

/-! ### the `info` walk against the reader -/

/-- the entries `info` should list for a box sequence starting at offset `o` -/
def infoEntriesOf : List Box → Nat → List InfoEntry
  | [], _ => []
  | b :: bs, o => ⟨b.typ, b.size, o, false⟩ :: infoEntriesOf bs (o + b.size)

theorem infoEntriesOf_layout : ∀ (bs : List Box) (o : Nat),
    (infoEntriesOf bs o).map (fun e => (e.typ, e.offset, e.size)) = topLayout bs o
  | [], _ => rfl
  | b :: bs, o => by simp [infoEntriesOf, topLayout, infoEntriesOf_layout bs]

theorem infoEntriesOf_valid : ∀ (bs : List Box) (o : Nat), ∀ e ∈ infoEntriesOf bs o, e.invalid = false
  | [], _ => by simp [infoEntriesOf]
  | b :: bs, o => by
    intro e he
    simp only [infoEntriesOf, List.mem_cons] at he
    rcases he with rfl | he
    · rfl
    · exact infoEntriesOf_valid bs _ e he

theorem infoWalk_parse (sc : Schema) : ∀ (fuel' fuel : Nat) (buf : Bytes) (off : Nat) (bs : List Box),
    parseBoxes sc fuel (buf.drop off) = some bs → off ≤ buf.length → bs.length < fuel' →
    infoWalk fuel' buf off = infoEntriesOf bs off := by
  intro fuel'
  induction fuel' with
  | zero => intro _ _ _ _ _ _ h; omega
  | succ fuel' ih =>
    intro fuel buf off bs h hoff hfuel
    cases fuel with
    | zero => simp [parseBoxes] at h
    | succ fuel =>
      simp only [parseBoxes] at h
      by_cases hd : buf.drop off = []
      · simp only [hd, if_true, Option.some.injEq] at h
        subst h
        have : buf.length ≤ off := by simpa using hd
        have hlt : off + 8 > buf.length := by omega
        simp [infoWalk, hlt, infoEntriesOf]
      · simp only [hd, if_false] at h
        cases hb : parseBox sc fuel (buf.drop off) with
        | none => simp [hb] at h
        | some p =>
          obtain ⟨b, rest⟩ := p
          simp only [hb] at h
          cases hl : parseBoxes sc fuel rest with
          | none => simp [hl] at h
          | some bs' =>
            simp only [hl, Option.some.injEq] at h
            subst h
            obtain ⟨sz, r1, hr, h8, hle, htyp, hsz, hrest⟩ := parseBox_header sc fuel _ b rest hb
            obtain ⟨hr1, _, _⟩ := readU32_some _ sz r1 hr
            simp only [List.length_drop] at hle
            have e1 : ¬ (off + 8 > buf.length) := by omega
            have e2 : ¬ (sz = 0) := by omega
            have e3 : ¬ (off + sz > buf.length) := by omega
            have et : (buf.drop (off + 4)).take 4 = b.typ := by
              rw [htyp, hr1, List.drop_drop]
            have hrest' : rest = buf.drop (off + sz) := by rw [hrest, List.drop_drop]
            rw [hrest'] at hl
            have := ih fuel buf (off + sz) bs' hl (by omega) (by simp at hfuel; omega)
            simp only [infoWalk, e1, if_false, hr, e2, e3, et, this, infoEntriesOf, hsz]

/-- `info` on a file the reader accepts (any schema, any fuel) lists exactly the reader's boxes -/
theorem infoBoxes_parse (sc : Schema) (fuel : Nat) (buf : Bytes) (bs : List Box)
    (h : parseBoxes sc fuel buf = some bs) : infoBoxes buf = infoEntriesOf bs 0 := by
  unfold infoBoxes
  apply infoWalk_parse sc _ fuel buf 0 bs (by simpa using h) (Nat.zero_le _)
  have h1 := parseBoxes_sizes sc fuel buf bs h
  have h2 := length_le_sizes bs
  omega

/-! ### the walk on arbitrary bytes -/

/-- offsets that tile from `o`: each entry starts where the previous one ends -/
def runningOffsets : List Nat → Nat → List Nat
  | [], _ => []
  | s :: ss, o => o :: runningOffsets ss (o + s)

theorem infoWalk_tiles : ∀ (fuel : Nat) (buf : Bytes) (off : Nat),
    let es := (infoWalk fuel buf off).filter (fun e => !e.invalid)
    es.map (·.offset) = runningOffsets (es.map (·.size)) off ∧
    (off ≤ buf.length → off + (es.map (·.size)).sum ≤ buf.length) := by
  intro fuel
  induction fuel with
  | zero => intro buf off; simp [infoWalk, runningOffsets]
  | succ fuel ih =>
    intro buf off
    unfold infoWalk
    split
    · simp [runningOffsets]
    · split
      · simp [runningOffsets]
      · next size rest hr =>
        split
        · simp [runningOffsets]
        · split
          · simp [runningOffsets]
          · next hfit =>
            have := ih buf (off + size)
            simp only [] at this
            obtain ⟨h1, h2⟩ := this
            simp only [List.filter_cons, Bool.not_false, if_true, List.map_cons, runningOffsets,
              List.sum_cons, h1, true_and]
            intro _
            have := h2 (by omega)
            omega

end Muxide
