import Muxide.Lemmas.Bytes
import Muxide.Spec.Reader
/-
  Muxide.Lemmas.Box — the generic round trip: the serialisation of any box tree that conforms
  to a container schema parses back (with the independent reader `Spec.parseBox`) to exactly
  that tree, consuming exactly its bytes.
-/
namespace Muxide
open Muxide.Spec

mutual
/-- `b` is well-formed with respect to the schema: 4-byte type, 32-bit size, leaves have no
    children, containers have exactly the schema's fixed-prefix length; recursively. -/
def Conforms (sc : Schema) : Box → Prop
  | Box.mk t p ks => t.length = 4 ∧ 8 + p.length + Box.sizes ks < 2^32 ∧
      (match sc t with
       | none => ks = []
       | some n => p.length = n) ∧ ConformsL sc ks
def ConformsL (sc : Schema) : List Box → Prop
  | [] => True
  | b :: bs => Conforms sc b ∧ ConformsL sc bs
end

mutual
def depth : Box → Nat
  | Box.mk _ _ ks => 1 + depthL ks
def depthL : List Box → Nat
  | [] => 0
  | b :: bs => max (depth b) (depthL bs) + 1
end

variable {sc : Schema}

mutual
theorem ser_len : ∀ (b : Box), Conforms sc b → (Box.ser b).length = Box.size b
  | Box.mk t p ks, h => by
    have hk := sers_len ks h.2.2.2
    simp [Box.ser, Box.size, h.1, hk]
    omega
theorem sers_len : ∀ (bs : List Box), ConformsL sc bs → (Box.sers bs).length = Box.sizes bs
  | [], _ => rfl
  | b :: bs, h => by simp [Box.sers, Box.sizes, ser_len b h.1, sers_len bs h.2]
end

theorem ser_ne_nil (b : Box) : Box.ser b ≠ [] := by
  cases b; simp [Box.ser, u32be]

mutual
theorem parseBox_ser : ∀ (b : Box) (rest : Bytes) (fuel : Nat), Conforms sc b → depth b < fuel →
    parseBox sc fuel (Box.ser b ++ rest) = some (b, rest)
  | Box.mk t p ks, rest, fuel, h, hf => by
    obtain ⟨ht, hsz, hsc, hks⟩ := h
    cases fuel with
    | zero => simp at hf
    | succ fuel =>
      have hl := sers_len ks hks
      simp only [Box.ser, List.append_assoc, parseBox]
      rw [readU32_u32be _ hsz]
      have h1 : ¬ (8 + p.length + Box.sizes ks < 8) := by omega
      have h2 : ¬ ((t ++ (p ++ (Box.sers ks ++ rest))).length < 8 + p.length + Box.sizes ks - 4) := by
        simp [ht, hl]; omega
      simp only [h1, h2, if_false]
      have e1 : (t ++ (p ++ (Box.sers ks ++ rest))).take 4 = t := by
        rw [← ht]; simp
      have e2 : (t ++ (p ++ (Box.sers ks ++ rest))).drop 4 = p ++ (Box.sers ks ++ rest) := by
        rw [← ht]; simp
      have e3 : 8 + p.length + Box.sizes ks - 8 = (p ++ Box.sers ks).length := by simp [hl]; omega
      rw [e1, e2, e3, ← List.append_assoc p, List.take_left', List.drop_left']
      · cases hs : sc t with
        | none =>
          rw [hs] at hsc; subst hsc
          simp [Box.sers]
        | some n =>
          rw [hs] at hsc; subst hsc
          simp only [List.length_append, Nat.not_lt_of_le (Nat.le_add_right _ _), if_false,
            List.drop_left, List.take_left]
          rw [parseBoxes_sers ks fuel hks (by simp [depth] at hf; omega)]
      · rfl
      · rfl
theorem parseBoxes_sers : ∀ (bs : List Box) (fuel : Nat), ConformsL sc bs → depthL bs < fuel →
    parseBoxes sc fuel (Box.sers bs) = some bs
  | [], fuel, _, hf => by
    cases fuel with
    | zero => simp at hf
    | succ fuel => simp [Box.sers, parseBoxes]
  | b :: bs, fuel, h, hf => by
    cases fuel with
    | zero => simp at hf
    | succ fuel =>
      simp only [Box.sers, parseBoxes]
      have hne : Box.ser b ++ Box.sers bs ≠ [] := by simp [ser_ne_nil]
      simp only [hne, if_false]
      simp [depthL] at hf
      rw [parseBox_ser b _ fuel h.1 (by omega)]
      simp only []
      rw [parseBoxes_sers bs fuel h.2 (by omega)]
end


/-! ### structure without the size bound -/
mutual
/-- `Conforms` minus the 32-bit size bounds -/
def Shape (sc : Schema) : Box → Prop
  | Box.mk t p ks => t.length = 4 ∧
      (match sc t with
       | none => ks = []
       | some n => p.length = n) ∧ ShapeL sc ks
def ShapeL (sc : Schema) : List Box → Prop
  | [] => True
  | b :: bs => Shape sc b ∧ ShapeL sc bs
end

theorem size_pos (b : Box) : 8 ≤ Box.size b := by
  cases b; simp [Box.size]; omega

mutual
/-- all sub-box sizes are bounded by the size of the root -/
theorem conforms_of_shape : ∀ (b : Box), Shape sc b → Box.size b < 2^32 → Conforms sc b
  | Box.mk t p ks, h, hs => by
    simp only [Box.size] at hs
    exact ⟨h.1, hs, h.2.1, conformsL_of_shapeL ks h.2.2 (by omega)⟩
theorem conformsL_of_shapeL : ∀ (bs : List Box), ShapeL sc bs → Box.sizes bs < 2^32 → ConformsL sc bs
  | [], _, _ => trivial
  | b :: bs, h, hs => by
    simp only [Box.sizes] at hs
    exact ⟨conforms_of_shape b h.1 (by omega), conformsL_of_shapeL bs h.2 (by omega)⟩
end

mutual
theorem shape_of_conforms : ∀ (b : Box), Conforms sc b → Shape sc b
  | Box.mk _ _ ks, h => ⟨h.1, h.2.2.1, shapeL_of_conformsL ks h.2.2.2⟩
theorem shapeL_of_conformsL : ∀ (bs : List Box), ConformsL sc bs → ShapeL sc bs
  | [], _ => trivial
  | b :: bs, h => ⟨shape_of_conforms b h.1, shapeL_of_conformsL bs h.2⟩
end

mutual
theorem ser_len_shape : ∀ (b : Box), Shape sc b → (Box.ser b).length = Box.size b
  | Box.mk t p ks, h => by
    have hk := sers_len_shape ks h.2.2
    simp [Box.ser, Box.size, h.1, hk]
    omega
theorem sers_len_shape : ∀ (bs : List Box), ShapeL sc bs → (Box.sers bs).length = Box.sizes bs
  | [], _ => rfl
  | b :: bs, h => by simp [Box.sers, Box.sizes, ser_len_shape b h.1, sers_len_shape bs h.2]
end

theorem shapeL_append (as bs : List Box) : ShapeL sc (as ++ bs) ↔ ShapeL sc as ∧ ShapeL sc bs := by
  induction as with
  | nil => simp [ShapeL]
  | cons a as ih => simp [ShapeL, ih, and_assoc]

theorem conformsL_append (as bs : List Box) : ConformsL sc (as ++ bs) ↔ ConformsL sc as ∧ ConformsL sc bs := by
  induction as with
  | nil => simp [ConformsL]
  | cons a as ih => simp [ConformsL, ih, and_assoc]

theorem sizes_append (as bs : List Box) : Box.sizes (as ++ bs) = Box.sizes as + Box.sizes bs := by
  induction as with
  | nil => simp [Box.sizes]
  | cons a as ih => simp [Box.sizes, ih]; omega

theorem sers_append (as bs : List Box) : Box.sers (as ++ bs) = Box.sers as ++ Box.sers bs := by
  induction as with
  | nil => simp [Box.sers]
  | cons a as ih => simp [Box.sers, ih]

theorem shape_leaf (t : String) (p : Bytes) (h4 : (ascii t).length = 4) (hs : sc (ascii t) = none) :
    Shape sc (Box.leaf t p) := by
  simp [Box.leaf, Shape, ShapeL, h4, hs]

theorem shape_node (t : String) (pre : Bytes) (kids : List Box) (n : Nat) (h4 : (ascii t).length = 4)
    (hs : sc (ascii t) = some n) (hp : pre.length = n) (hk : ShapeL sc kids) :
    Shape sc (Box.node t pre kids) := by
  simp [Box.node, Shape, h4, hs, hp, hk]

/-! ### fuel: nesting depth is bounded by the byte size -/
mutual
theorem depth_le_size : ∀ (b : Box), depth b + 7 ≤ Box.size b
  | Box.mk _ p ks => by
    have := depthL_le_sizes ks
    simp only [depth, Box.size]; omega
theorem depthL_le_sizes : ∀ (bs : List Box), depthL bs ≤ Box.sizes bs
  | [] => by simp [depthL]
  | b :: bs => by
    have h1 := depth_le_size b
    have h2 := depthL_le_sizes bs
    simp only [depthL, Box.sizes]; omega
end

/-- the file-level reader (`parseFileTree`, schema `isoSchema`, fuel from the file length) reads
    back any conforming top-level box sequence -/
theorem parseFileTree_sers (bs : List Box) (h : ConformsL isoSchema bs) :
    parseFileTree (Box.sers bs) = some bs := by
  unfold parseFileTree
  apply parseBoxes_sers bs _ h
  have := depthL_le_sizes bs
  rw [sers_len bs h]; omega

/-! ### type skeleton of a box tree -/
inductive Skel where
  | mk (typ : Bytes) (kids : List Skel)

/-- skeleton node with an ASCII four-character code -/
def S (t : String) (kids : List Skel := []) : Skel := .mk (ascii t) kids

mutual
def Box.skel : Box → Skel
  | Box.mk t _ ks => .mk t (Box.skels ks)
def Box.skels : List Box → List Skel
  | [] => []
  | b :: bs => Box.skel b :: Box.skels bs
end

theorem skels_append (as bs : List Box) : Box.skels (as ++ bs) = Box.skels as ++ Box.skels bs := by
  induction as with
  | nil => simp [Box.skels]
  | cons a as ih => simp [Box.skels, ih]

theorem skels_eq_map (bs : List Box) : Box.skels bs = bs.map Box.skel := by
  induction bs with
  | nil => rfl
  | cons a as ih => simp [Box.skels, ih]

def Skel.typ : Skel → Bytes | .mk t _ => t
def Skel.kids : Skel → List Skel | .mk _ k => k

theorem skel_typ (b : Box) : b.skel.typ = b.typ := by cases b; rfl
theorem skel_kids_typ (b : Box) : b.skel.kids.map Skel.typ = b.kids.map Box.typ := by
  cases b with
  | mk t p ks =>
    simp only [Box.skel, Skel.kids, Box.kids, skels_eq_map, List.map_map]
    apply List.map_congr_left; intro a _; exact skel_typ a

end Muxide
