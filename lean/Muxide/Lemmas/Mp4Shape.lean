import Muxide.Lemmas.Box
import Muxide.Model.Frag
/-
  Muxide.Lemmas.Mp4Shape — every box builder of the progressive and fragmented writers yields a
  tree of the shape `isoSchema` expects (4-byte types, leaves are schema leaves, containers have
  exactly the schema's fixed-prefix length).
-/
namespace Muxide
open Muxide.Spec Box

theorem visualEntryPrefix_length (w h : Nat) : (visualEntryPrefix w h).length = 78 := by
  simp [visualEntryPrefix]
theorem audioEntryPrefix_length (c r : Nat) : (audioEntryPrefix c r).length = 28 := by
  simp [audioEntryPrefix]
theorem fEntryPrefix_length (c : FragConfig) : (fEntryPrefix c).length = 78 := by
  simp [fEntryPrefix]

/-! ### progressive writer -/
theorem shape_bFtyp : Shape isoSchema bFtyp := shape_leaf _ _ (by decide) (by decide)
theorem shape_bMvhd (a b : Nat) : Shape isoSchema (bMvhd a b) := shape_leaf _ _ (by decide) (by decide)
theorem shape_bTkhd (a b c d e : Nat) : Shape isoSchema (bTkhd a b c d e) := shape_leaf _ _ (by decide) (by decide)
theorem shape_bMdhd (a b : Nat) (l : Option (List Nat)) : Shape isoSchema (bMdhd a b l) :=
  shape_leaf _ _ (by decide) (by decide)
theorem shape_bHdlr (a b : String) : Shape isoSchema (bHdlr a b) := shape_leaf _ _ (by decide) (by decide)
theorem shape_bVmhd : Shape isoSchema bVmhd := shape_leaf _ _ (by decide) (by decide)
theorem shape_bSmhd : Shape isoSchema bSmhd := shape_leaf _ _ (by decide) (by decide)
theorem shape_bUrl : Shape isoSchema bUrl := shape_leaf _ _ (by decide) (by decide)
theorem shape_bDref : Shape isoSchema bDref :=
  shape_node _ _ _ 8 (by decide) (by decide) (by simp) ⟨shape_bUrl, trivial⟩
theorem shape_bDinf : Shape isoSchema bDinf :=
  shape_node _ _ _ 0 (by decide) (by decide) (by simp) ⟨shape_bDref, trivial⟩
theorem shape_bStts (d : List Nat) : Shape isoSchema (bStts d) := shape_leaf _ _ (by decide) (by decide)
theorem shape_bCtts (d : List Int) : Shape isoSchema (bCtts d) := shape_leaf _ _ (by decide) (by decide)
theorem shape_bStsc (a b : Nat) : Shape isoSchema (bStsc a b) := by
  unfold bStsc; split <;> exact shape_leaf _ _ (by decide) (by decide)
theorem shape_bStsz (d : List Nat) : Shape isoSchema (bStsz d) := shape_leaf _ _ (by decide) (by decide)
theorem shape_bStco (d : List Nat) : Shape isoSchema (bStco d) := shape_leaf _ _ (by decide) (by decide)
theorem shape_bStss (d : List Nat) : Shape isoSchema (bStss d) := shape_leaf _ _ (by decide) (by decide)
theorem shape_bAvcC (c : AvcConfig) : Shape isoSchema (bAvcC c) := shape_leaf _ _ (by decide) (by decide)
theorem shape_bHvcC (c : HevcConfig) : Shape isoSchema (bHvcC c) := shape_leaf _ _ (by decide) (by decide)
theorem shape_bAv1C (c : Av1Config) : Shape isoSchema (bAv1C c) := shape_leaf _ _ (by decide) (by decide)
theorem shape_bVpcC (c : Vp9Config) : Shape isoSchema (bVpcC c) := shape_leaf _ _ (by decide) (by decide)

theorem shape_bVideoEntry (w h : Nat) (vc : VideoConfig) : Shape isoSchema (bVideoEntry w h vc) := by
  cases vc with
  | avc c => exact shape_node _ _ _ 78 (by decide) (by decide) (visualEntryPrefix_length w h) ⟨shape_bAvcC c, trivial⟩
  | hevc c => exact shape_node _ _ _ 78 (by decide) (by decide) (visualEntryPrefix_length w h) ⟨shape_bHvcC c, trivial⟩
  | av1 c => exact shape_node _ _ _ 78 (by decide) (by decide) (visualEntryPrefix_length w h) ⟨shape_bAv1C c, trivial⟩
  | vp9 c => exact shape_node _ _ _ 78 (by decide) (by decide) (visualEntryPrefix_length w h) ⟨shape_bVpcC c, trivial⟩

theorem shape_bEsds (a : AudioTrack) : Shape isoSchema (bEsds a) := shape_leaf _ _ (by decide) (by decide)
theorem shape_bDops (a : AudioTrack) : Shape isoSchema (bDops a) := shape_leaf _ _ (by decide) (by decide)
theorem shape_bMp4a (a : AudioTrack) : Shape isoSchema (bMp4a a) :=
  shape_node _ _ _ 28 (by decide) (by decide) (audioEntryPrefix_length _ _) ⟨shape_bEsds a, trivial⟩
theorem shape_bOpus (a : AudioTrack) : Shape isoSchema (bOpus a) :=
  shape_node _ _ _ 28 (by decide) (by decide) (audioEntryPrefix_length _ _) ⟨shape_bDops a, trivial⟩
theorem shape_bAudioEntry (a : AudioTrack) : Shape isoSchema (bAudioEntry a) := by
  unfold bAudioEntry; split
  · exact shape_bOpus a
  · exact shape_bMp4a a

theorem shape_bStsd (e : Box) (h : Shape isoSchema e) : Shape isoSchema (bStsd e) :=
  shape_node _ _ _ 8 (by decide) (by decide) (by simp) ⟨h, trivial⟩

theorem shape_bVideoStbl (w h : Nat) (t : Tables) (vc : VideoConfig) : Shape isoSchema (bVideoStbl w h t vc) := by
  refine shape_node _ _ _ 0 (by decide) (by decide) rfl ?_
  simp only [shapeL_append]
  refine ⟨⟨⟨⟨shape_bStsd _ (shape_bVideoEntry w h vc), shape_bStts _, trivial⟩, ?_⟩,
    ⟨shape_bStsc _ _, shape_bStsz _, shape_bStco _, trivial⟩⟩, ?_⟩
  · split
    · exact ⟨shape_bCtts _, trivial⟩
    · trivial
  · split
    · exact ⟨shape_bStss _, trivial⟩
    · trivial

theorem shape_bAudioStbl (a : AudioTrack) (t : Tables) : Shape isoSchema (bAudioStbl a t) :=
  shape_node _ _ _ 0 (by decide) (by decide) rfl
    ⟨shape_bStsd _ (shape_bAudioEntry a), shape_bStts _, shape_bStsc _ _, shape_bStsz _, shape_bStco _, trivial⟩

theorem shape_bVideoTrak (w h : Nat) (t : Tables) (vc : VideoConfig) (l : Option (List Nat)) :
    Shape isoSchema (bVideoTrak w h t vc l) :=
  shape_node _ _ _ 0 (by decide) (by decide) rfl ⟨shape_bTkhd _ _ _ _ _,
    shape_node _ _ _ 0 (by decide) (by decide) rfl ⟨shape_bMdhd _ _ _, shape_bHdlr _ _,
      shape_node _ _ _ 0 (by decide) (by decide) rfl ⟨shape_bVmhd, shape_bDinf, shape_bVideoStbl w h t vc, trivial⟩,
      trivial⟩, trivial⟩

theorem shape_bAudioTrak (a : AudioTrack) (t : Tables) (l : Option (List Nat)) :
    Shape isoSchema (bAudioTrak a t l) :=
  shape_node _ _ _ 0 (by decide) (by decide) rfl ⟨shape_bTkhd _ _ _ _ _,
    shape_node _ _ _ 0 (by decide) (by decide) rfl ⟨shape_bMdhd _ _ _, shape_bHdlr _ _,
      shape_node _ _ _ 0 (by decide) (by decide) rfl ⟨shape_bSmhd, shape_bDinf, shape_bAudioStbl a t, trivial⟩,
      trivial⟩, trivial⟩

theorem shape_bIlstItem_nam (v : Bytes) : Shape isoSchema (bIlstItem namType v) := by
  refine ⟨by decide, ?_, ⟨shape_leaf _ _ (by decide) (by decide), trivial⟩⟩
  have : isoSchema namType = some 0 := by decide
  simp [this]
theorem shape_bIlstItem_day (v : Bytes) : Shape isoSchema (bIlstItem dayType v) := by
  refine ⟨by decide, ?_, ⟨shape_leaf _ _ (by decide) (by decide), trivial⟩⟩
  have : isoSchema dayType = some 0 := by decide
  simp [this]
theorem shape_bMetaHdlr : Shape isoSchema bMetaHdlr := shape_leaf _ _ (by decide) (by decide)

theorem shape_bUdta (m : Metadata) (u : Box) (h : bUdta m = some u) : Shape isoSchema u := by
  simp only [bUdta, Option.ite_none_left_eq_some] at h
  obtain ⟨_, h⟩ := h
  injection h with h
  subst h
  refine shape_node _ _ _ 0 (by decide) (by decide) rfl
    ⟨shape_node _ _ _ 4 (by decide) (by decide) (by simp) ⟨shape_bMetaHdlr,
      shape_node _ _ _ 0 (by decide) (by decide) rfl ?_, trivial⟩, trivial⟩
  rw [shapeL_append]
  constructor
  · split
    · exact ⟨shape_bIlstItem_nam _, trivial⟩
    · trivial
  · split
    · exact ⟨shape_bIlstItem_day _, trivial⟩
    · trivial

theorem shape_bMoov (w h : Nat) (vt : Tables) (audio : Option (AudioTrack × Tables)) (vc : VideoConfig)
    (md : Option Metadata) : Shape isoSchema (bMoov w h vt audio vc md) := by
  refine shape_node _ _ _ 0 (by decide) (by decide) rfl ?_
  simp only [shapeL_append]
  refine ⟨⟨⟨shape_bMvhd _ _, shape_bVideoTrak _ _ _ _ _, trivial⟩, ?_⟩, ?_⟩
  · split
    · exact ⟨shape_bAudioTrak _ _ _, trivial⟩
    · trivial
  · split
    · next u hu =>
      cases md with
      | none => simp at hu
      | some m => exact ⟨shape_bUdta m u (by simpa using hu), trivial⟩
    · trivial

/-! ### fragmented writer -/
theorem shape_fFtyp : Shape isoSchema fFtyp := shape_leaf _ _ (by decide) (by decide)
theorem shape_fMvhd (t : Nat) : Shape isoSchema (fMvhd t) := shape_leaf _ _ (by decide) (by decide)
theorem shape_fTrex : Shape isoSchema fTrex := shape_leaf _ _ (by decide) (by decide)
theorem shape_fMvex : Shape isoSchema fMvex :=
  shape_node _ _ _ 0 (by decide) (by decide) rfl ⟨shape_fTrex, trivial⟩
theorem shape_fTkhd (c : FragConfig) : Shape isoSchema (fTkhd c) := shape_leaf _ _ (by decide) (by decide)
theorem shape_fVmhd : Shape isoSchema fVmhd := shape_leaf _ _ (by decide) (by decide)
theorem shape_fDinf : Shape isoSchema fDinf :=
  shape_node _ _ _ 0 (by decide) (by decide) rfl
    ⟨shape_node _ _ _ 8 (by decide) (by decide) (by simp) ⟨shape_leaf _ _ (by decide) (by decide), trivial⟩, trivial⟩
theorem shape_fAvcC (c : FragConfig) : Shape isoSchema (fAvcC c) := shape_leaf _ _ (by decide) (by decide)
theorem shape_fHvcC (c : FragConfig) : Shape isoSchema (fHvcC c) := shape_leaf _ _ (by decide) (by decide)
theorem shape_fAv1C (c : FragConfig) : Shape isoSchema (fAv1C c) := shape_leaf _ _ (by decide) (by decide)
theorem shape_fVpcC (c : FragConfig) : Shape isoSchema (fVpcC c) := shape_leaf _ _ (by decide) (by decide)

theorem shape_fSampleEntry (c : FragConfig) : Shape isoSchema (fSampleEntry c) := by
  unfold fSampleEntry
  split
  · exact shape_node _ _ _ 78 (by decide) (by decide) (fEntryPrefix_length c) ⟨shape_fAv1C c, trivial⟩
  split
  · exact shape_node _ _ _ 78 (by decide) (by decide) (fEntryPrefix_length c) ⟨shape_fVpcC c, trivial⟩
  split
  · exact shape_node _ _ _ 78 (by decide) (by decide) (fEntryPrefix_length c) ⟨shape_fHvcC c, trivial⟩
  · exact shape_node _ _ _ 78 (by decide) (by decide) (fEntryPrefix_length c) ⟨shape_fAvcC c, trivial⟩

theorem shape_fStbl (c : FragConfig) : Shape isoSchema (fStbl c) :=
  shape_node _ _ _ 0 (by decide) (by decide) rfl
    ⟨shape_node _ _ _ 8 (by decide) (by decide) (by simp) ⟨shape_fSampleEntry c, trivial⟩,
     shape_leaf _ _ (by decide) (by decide), shape_leaf _ _ (by decide) (by decide),
     shape_leaf _ _ (by decide) (by decide), shape_leaf _ _ (by decide) (by decide), trivial⟩

theorem shape_fTrak (c : FragConfig) : Shape isoSchema (fTrak c) :=
  shape_node _ _ _ 0 (by decide) (by decide) rfl ⟨shape_fTkhd c,
    shape_node _ _ _ 0 (by decide) (by decide) rfl ⟨shape_bMdhd _ _ _, shape_bHdlr _ _,
      shape_node _ _ _ 0 (by decide) (by decide) rfl ⟨shape_fVmhd, shape_fDinf, shape_fStbl c, trivial⟩,
      trivial⟩, trivial⟩

theorem shape_fMoov (c : FragConfig) : Shape isoSchema (fMoov c) :=
  shape_node _ _ _ 0 (by decide) (by decide) rfl ⟨shape_fMvhd _, shape_fMvex, shape_fTrak c, trivial⟩

theorem shape_fMfhd (q : Nat) : Shape isoSchema (fMfhd q) := shape_leaf _ _ (by decide) (by decide)
theorem shape_fTfhd : Shape isoSchema fTfhd := shape_leaf _ _ (by decide) (by decide)
theorem shape_fTfdt (b : Nat) : Shape isoSchema (fTfdt b) := shape_leaf _ _ (by decide) (by decide)
theorem shape_fTrun (s : List FSample) (o : Nat) : Shape isoSchema (fTrun s o) := shape_leaf _ _ (by decide) (by decide)
theorem shape_fMoof (s : List FSample) (q b o : Nat) : Shape isoSchema (fMoof s q b o) :=
  shape_node _ _ _ 0 (by decide) (by decide) rfl ⟨shape_fMfhd q,
    shape_node _ _ _ 0 (by decide) (by decide) rfl ⟨shape_fTfhd, shape_fTfdt b, shape_fTrun s o, trivial⟩, trivial⟩

theorem shape_mdat (p : Bytes) : Shape isoSchema (Box.mk (ascii "mdat") p []) := by
  have h1 : (ascii "mdat").length = 4 := by decide
  have h2 : isoSchema (ascii "mdat") = none := by decide
  simp [Shape, ShapeL, h1, h2]

end Muxide
