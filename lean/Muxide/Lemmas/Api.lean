import Muxide.Model.Api
/- Muxide.Lemmas.Api — helper lemmas about the writer / muxer state machine (C05, C04). -/
namespace Muxide

/-! ### `Mp4Writer::write_video_sample_with_dts` as "check, then push" -/

def missingCfgErr (c : VCodec) : WErr :=
  match c with
  | .av1 => .firstFrameMissingSequenceHeader
  | .vp9 => .firstFrameMissingVp9Config
  | _ => .firstFrameMissingSpsPps

def ctsBad (pts dts : Nat) : Prop := (pts : Int) - (dts : Int) > 2^31 - 1 ∨ (pts : Int) - (dts : Int) < -(2^31)
instance (pts dts : Nat) : Decidable (ctsBad pts dts) := by unfold ctsBad; infer_instance

/-- the error `write_video_sample_with_dts` reports, if any -/
def Writer.videoErr (w : Writer) (pts dts : Nat) (data : Bytes) (key : Bool) : Option WErr :=
  if w.finalized then some .alreadyFinalized else
  match w.vPrev with
  | some prev =>
    if dts ≤ prev then some .nonIncreasingTimestamp else
    if dts - prev > u32Max then some .durationOverflow else
    if (convertPayload w.codec data).length > u32Max then some .durationOverflow else
    if ctsBad pts dts then some .durationOverflow else none
  | none =>
    if ¬ key then some .firstFrameMustBeKeyframe else
    match extractConfig w.codec data with
    | .none => some (missingCfgErr w.codec)
    | .some _ =>
      if (convertPayload w.codec data).length > u32Max then some .durationOverflow else
      if ctsBad pts dts then some .durationOverflow else none

/-- the state after an accepted video sample -/
def Writer.videoPush (w : Writer) (pts dts : Nat) (data : Bytes) (key : Bool) : Writer :=
  let s : Sample := ⟨pts, dts, convertPayload w.codec data, key, none⟩
  match w.vPrev with
  | some prev =>
    { w with vsRev := s :: setLastDur w.vsRev (dts - prev), vLastDelta := some (dts - prev), vPrev := some dts }
  | none =>
    match extractConfig w.codec data with
    | .some c => { w with vConfig := some c, vsRev := s :: w.vsRev, vPrev := some dts }
    | .none => { w with vsRev := s :: w.vsRev, vPrev := some dts }

theorem Writer.writeVideo_eq (w : Writer) (pts dts : Nat) (d : Bytes) (k : Bool) :
    w.writeVideo pts dts d k =
      match w.videoErr pts dts d k with
      | some e => (w, .err e)
      | none => (w.videoPush pts dts d k, .ok) := by
  unfold Writer.writeVideo Writer.videoErr Writer.videoPush
  by_cases hf : w.finalized = true
  · simp [hf]
  · simp only [hf]
    cases hv : w.vPrev with
    | some prev =>
      simp only []
      by_cases h1 : dts ≤ prev
      · simp [h1]
      · by_cases h2 : dts - prev > u32Max
        · simp [h1, h2]
        · by_cases h3 : (convertPayload w.codec d).length > u32Max
          · simp [h1, h2, h3]
          · by_cases h4 : ctsBad pts dts
            · have h4' : (2147483647 < (pts:Int) - dts ∨ (pts:Int) - dts < -2147483648) := by
                unfold ctsBad at h4; omega
              simp [h1, h2, h3, h4, h4']
            · have h4' : ¬ (2147483647 < (pts:Int) - dts ∨ (pts:Int) - dts < -2147483648) := by
                unfold ctsBad at h4; omega
              simp [h1, h2, h3, h4, h4']
    | none =>
      simp only []
      by_cases h1 : k = true
      · cases hc : extractConfig w.codec d with
        | none => simp [h1, missingCfgErr]; cases w.codec <;> rfl
        | some c =>
          by_cases h3 : (convertPayload w.codec d).length > u32Max
          · simp [h1, h3]
          · by_cases h4 : ctsBad pts dts
            · have h4' : (2147483647 < (pts:Int) - dts ∨ (pts:Int) - dts < -2147483648) := by
                unfold ctsBad at h4; omega
              simp [h1, h3, h4, h4']
            · have h4' : ¬ (2147483647 < (pts:Int) - dts ∨ (pts:Int) - dts < -2147483648) := by
                unfold ctsBad at h4; omega
              simp [h1, h3, h4, h4']
              simpa using hf
      · simp [h1]

/-! ### `Mp4Writer::write_audio_sample` as "check, then push" -/

/-- payload conversion of `write_audio_sample` -/
def audioPayload (c : ACodec) (data : Bytes) : Except WErr Bytes :=
  match c with
  | .aac _ => match adtsToRaw data with
              | .ok r => .ok r
              | .error k => .error (.invalidAdts k)
  | .opus => if isValidOpus data then .ok data else .error .invalidOpusPacket
  | .none => .error .audioNotEnabled

/-- the error `write_audio_sample` reports, if any -/
def Writer.audioErr (w : Writer) (pts : Nat) (data : Bytes) : Option WErr :=
  if w.finalized then some .alreadyFinalized else
  match w.audio with
  | none => some .audioNotEnabled
  | some tr =>
    match (match w.aPrev with
      | some prev => if pts < prev then some WErr.nonIncreasingTimestamp else
                     if pts - prev > u32Max then some .durationOverflow else none
      | none => none) with
    | some e => some e
    | none =>
      match audioPayload tr.codec data with
      | .error e => some e
      | .ok sd => if sd.length > u32Max then some .durationOverflow else none

/-- the state after an accepted audio sample whose stored payload is `sd` -/
def Writer.audioPush (w : Writer) (pts : Nat) (sd : Bytes) : Writer :=
  let s : Sample := ⟨pts, pts, sd, false, none⟩
  match w.aPrev with
  | some prev =>
    { w with asRev := s :: setLastDur w.asRev (pts - prev), aLastDelta := some (pts - prev), aPrev := some pts }
  | none => { w with asRev := s :: w.asRev, aPrev := some pts }

def storedAudio (w : Writer) (data : Bytes) : Bytes :=
  match w.audio with
  | some tr => (match audioPayload tr.codec data with | .ok sd => sd | .error _ => [])
  | none => []

theorem Writer.writeAudio_eq (w : Writer) (pts : Nat) (d : Bytes) :
    w.writeAudio pts d =
      match w.audioErr pts d with
      | some e => (w, .err e)
      | none => (w.audioPush pts (storedAudio w d), .ok) := by
  unfold Writer.writeAudio Writer.audioErr Writer.audioPush storedAudio audioPayload
  by_cases hf : w.finalized = true
  · simp [hf]
  · simp only [hf]
    cases ha : w.audio with
    | none => simp
    | some tr =>
      simp only []
      cases hp : w.aPrev with
      | some prev =>
        simp only []
        by_cases h1 : pts < prev
        · simp [h1]
        · by_cases h2 : pts - prev > u32Max
          · simp [h1, h2]
          · cases hc : tr.codec with
            | none => simp [h1, h2]
            | opus =>
              by_cases hv : isValidOpus d = true
              · by_cases h3 : d.length > u32Max
                · simp [h1, h2, h3, hv]
                · simp [h1, h2, h3, hv]
              · simp [h1, h2, hv]
            | aac p =>
              cases hr : adtsToRaw d with
              | error e => simp [h1, h2]
              | ok sd =>
                by_cases h3 : sd.length > u32Max
                · simp [h1, h2, h3]
                · simp [h1, h2, h3]
      | none =>
        simp only []
        cases hc : tr.codec with
        | none => simp
        | opus =>
          by_cases hv : isValidOpus d = true
          · by_cases h3 : d.length > u32Max
            · simp [h3, hv]
            · simp [h3, hv]
              exact ⟨ha, by simpa using hf⟩
          · simp [hv]
        | aac p =>
          cases hr : adtsToRaw d with
          | error e => simp
          | ok sd =>
            by_cases h3 : sd.length > u32Max
            · simp [h3]
            · simp [h3]
              exact ⟨ha, by simpa using hf⟩

/-! ### the writer touches its state only when it accepts -/

theorem Writer.writeVideo_not_ok (w : Writer) (pts dts : Nat) (d : Bytes) (k : Bool)
    (h : (w.writeVideo pts dts d k).2 ≠ .ok) : (w.writeVideo pts dts d k).1 = w := by
  rw [Writer.writeVideo_eq] at h ⊢
  cases he : w.videoErr pts dts d k with
  | some e => rfl
  | none => rw [he] at h; exact absurd rfl h

theorem Writer.writeAudio_not_ok (w : Writer) (pts : Nat) (d : Bytes)
    (h : (w.writeAudio pts d).2 ≠ .ok) : (w.writeAudio pts d).1 = w := by
  rw [Writer.writeAudio_eq] at h ⊢
  cases he : w.audioErr pts d with
  | some e => rfl
  | none => rw [he] at h; exact absurd rfl h

/-- the writer never reports `panic` from a frame write -/
theorem Writer.writeVideo_ne_panic (w : Writer) (pts dts : Nat) (d : Bytes) (k : Bool) :
    (w.writeVideo pts dts d k).2 ≠ .panic := by
  rw [Writer.writeVideo_eq]
  cases w.videoErr pts dts d k <;> simp

theorem Writer.writeAudio_ne_panic (w : Writer) (pts : Nat) (d : Bytes) :
    (w.writeAudio pts d).2 ≠ .panic := by
  rw [Writer.writeAudio_eq]
  cases w.audioErr pts d <;> simp

/-! ### the API calls as "API checks, writer checks, push" -/

def prevLe (x : F64) (prev : Option F64) : Bool :=
  match prev with | some p => F64.le x p | none => false
def prevLt (x : F64) (prev : Option F64) : Bool :=
  match prev with | some p => F64.lt x p | none => false

/-- the API-level checks of `write_video` (before the writer is called) -/
def Muxer.wvPre (m : Muxer) (pts : F64) (data : Bytes) : Option MErr :=
  if data = [] then some .emptyVideoFrame else
  if ¬ pts.isFinite then some .invalidVideoPts else
  if pts.isNeg then some .negativeVideoPts else
  if ¬ ticksRepresentable pts then some .invalidVideoPts else
  if prevLe pts m.lastVideoPts then some .nonIncreasingVideoPts else none

theorem Muxer.writeVideo_eq (m : Muxer) (pts : F64) (d : Bytes) (k : Bool) :
    m.writeVideo pts d k =
      match m.wvPre pts d with
      | some e => (m, .err e (some m.vCount))
      | none =>
        match m.w.videoErr pts.ticks pts.ticks d k with
        | some e => (m, convertErr e m.vCount)
        | none => ({ m with w := m.w.videoPush pts.ticks pts.ticks d k,
                            firstVideoPts := some (m.firstVideoPts.getD pts),
                            lastVideoPts := some pts, vCount := m.vCount + 1 }, .ok) := by
  unfold Muxer.writeVideo Muxer.wvPre
  by_cases h1 : d = []
  · simp [h1]
  · by_cases h2 : pts.isFinite = true
    · by_cases h3 : pts.isNeg = true
      · simp [h1, h2, h3]
      · by_cases h4 : ticksRepresentable pts = true
        · have key : ∀ b : Bool, b = prevLe pts m.lastVideoPts →
              (if b = true then (m, Reply.err .nonIncreasingVideoPts (some m.vCount)) else
                match m.w.writeVideo pts.ticks pts.ticks d k with
                | (w', r) =>
                  match r with
                  | .ok => ({ m with w := w', firstVideoPts := some (m.firstVideoPts.getD pts), lastVideoPts := some pts, vCount := m.vCount + 1 }, Reply.ok)
                  | r => ({ m with w := w' }, wresReply r m.vCount)) =
              match (if prevLe pts m.lastVideoPts = true then some MErr.nonIncreasingVideoPts else none) with
              | some e => (m, .err e (some m.vCount))
              | none =>
                match m.w.videoErr pts.ticks pts.ticks d k with
                | some e => (m, convertErr e m.vCount)
                | none => ({ m with w := m.w.videoPush pts.ticks pts.ticks d k,
                                    firstVideoPts := some (m.firstVideoPts.getD pts),
                                    lastVideoPts := some pts, vCount := m.vCount + 1 }, .ok) := by
            intro b hb
            rw [← hb]
            cases b with
            | true => simp
            | false =>
              simp only [Bool.false_eq_true, if_false]
              rw [Writer.writeVideo_eq]
              cases m.w.videoErr pts.ticks pts.ticks d k with
              | some e => simp [wresReply]
              | none => simp
          simp only [h1, h2, h3, h4, if_false, not_true, Bool.false_eq_true]
          refine key _ ?_
          unfold prevLe
          cases m.lastVideoPts <;> rfl
        · simp [h1, h2, h3, h4]
    · simp [h1, h2]


def Muxer.wvdPre (m : Muxer) (pts dts : F64) (data : Bytes) : Option (MErr × Option Nat) :=
  if m.finished then some (.alreadyFinished, none) else
  if data = [] then some (.emptyVideoFrame, some m.vCount) else
  if ¬ pts.isFinite then some (.invalidVideoPts, some m.vCount) else
  if pts.isNeg then some (.negativeVideoPts, some m.vCount) else
  if ¬ ticksRepresentable pts then some (.invalidVideoPts, some m.vCount) else
  if ¬ dts.isFinite then some (.invalidVideoDts, some m.vCount) else
  if dts.isNeg then some (.negativeVideoDts, some m.vCount) else
  if ¬ ticksRepresentable dts then some (.invalidVideoDts, some m.vCount) else
  if prevLe dts m.lastVideoDts then some (.nonIncreasingDts, some m.vCount) else none

theorem Muxer.writeVideoDts_eq (m : Muxer) (pts dts : F64) (d : Bytes) (k : Bool) :
    m.writeVideoDts pts dts d k =
      match m.wvdPre pts dts d with
      | some (e, i) => (m, .err e i)
      | none =>
        match m.w.videoErr pts.ticks dts.ticks d k with
        | some e => (m, convertErr e m.vCount)
        | none => ({ m with w := m.w.videoPush pts.ticks dts.ticks d k,
                            firstVideoPts := some (m.firstVideoPts.getD pts),
                            lastVideoPts := some pts, lastVideoDts := some dts, vCount := m.vCount + 1 }, .ok) := by
  unfold Muxer.writeVideoDts Muxer.wvdPre prevLe
  simp only [Writer.writeVideo_eq]
  by_cases h0 : m.finished = true
  · simp [h0]
  by_cases h1 : d = []
  · simp [h0, h1]
  by_cases h2 : ¬ pts.isFinite = true
  · simp [h0, h1, h2]
  rw [Decidable.not_not] at h2
  by_cases h3 : pts.isNeg = true
  · simp [h0, h1, h2, h3]
  by_cases h4 : ¬ ticksRepresentable pts = true
  · simp [h0, h1, h2, h3, h4]
  rw [Decidable.not_not] at h4
  by_cases h5 : ¬ dts.isFinite = true
  · simp [h0, h1, h2, h3, h4, h5]
  rw [Decidable.not_not] at h5
  by_cases h6 : dts.isNeg = true
  · simp [h0, h1, h2, h3, h4, h5, h6]
  by_cases h7 : ¬ ticksRepresentable dts = true
  · simp [h0, h1, h2, h3, h4, h5, h6, h7]
  rw [Decidable.not_not] at h7
  cases hl : m.lastVideoDts with
  | none =>
    cases m.w.videoErr pts.ticks dts.ticks d k with
    | some e => simp [h0, h1, h2, h3, h4, h5, h6, h7, wresReply]; cases m; simp_all
    | none => simp [h0, h1, h2, h3, h4, h5, h6, h7]
  | some prev =>
    by_cases h8 : F64.le dts prev = true
    · simp [h0, h1, h2, h3, h4, h5, h6, h7, h8]
    · cases m.w.videoErr pts.ticks dts.ticks d k with
      | some e => simp [h0, h1, h2, h3, h4, h5, h6, h7, h8, wresReply]; cases m; simp_all
      | none => simp [h0, h1, h2, h3, h4, h5, h6, h7, h8]

def Muxer.waPre (m : Muxer) (pts : F64) (data : Bytes) : Option (MErr × Option Nat) :=
  if m.finished then some (.alreadyFinished, none) else
  if m.audioTrack.isNone then some (.audioNotConfigured, none) else
  if ¬ pts.isFinite then some (.invalidAudioPts, some m.aCount) else
  if pts.isNeg then some (.negativeAudioPts, some m.aCount) else
  if ¬ ticksRepresentable pts then some (.invalidAudioPts, some m.aCount) else
  if data = [] then some (.emptyAudioFrame, some m.aCount) else
  if prevLt pts m.lastAudioPts then some (.decreasingAudioPts, some m.aCount) else
  match m.firstVideoPts with
  | none => some (.audioBeforeFirstVideo, none)
  | some fv => if F64.lt pts fv then some (.audioBeforeFirstVideo, none) else none

theorem Muxer.writeAudio_eq (m : Muxer) (pts : F64) (d : Bytes) :
    m.writeAudio pts d =
      match m.waPre pts d with
      | some (e, i) => (m, .err e i)
      | none =>
        match m.w.audioErr pts.ticks d with
        | some e => (m, convertErr e m.aCount)
        | none => ({ m with w := m.w.audioPush pts.ticks (storedAudio m.w d),
                            lastAudioPts := some pts, aCount := m.aCount + 1 }, .ok) := by
  obtain ⟨w, width, height, at_, md, fast, fvp, lvp, lvd, lap, vc, ac, fin, cv, ca⟩ := m
  unfold Muxer.writeAudio Muxer.waPre prevLt
  simp only [Writer.writeAudio_eq]
  by_cases h0 : fin = true
  · simp [h0]
  by_cases h1 : at_.isNone = true
  · simp [h0, h1]
  by_cases h2 : ¬ pts.isFinite = true
  · simp [h0, h1, h2]
  by_cases h3 : pts.isNeg = true
  · simp [h0, h1, h2, h3]
  by_cases h4 : ¬ ticksRepresentable pts = true
  · simp [h0, h1, h2, h3, h4]
  by_cases h5 : d = []
  · simp [h0, h1, h2, h3, h4, h5]
  cases lap with
  | some prev =>
    by_cases h8 : F64.lt pts prev = true
    · simp [h0, h1, h2, h3, h4, h5, h8]
    · cases fvp with
      | none => simp [h0, h1, h2, h3, h4, h5, h8]
      | some fv =>
        by_cases h9 : F64.lt pts fv = true
        · simp [h0, h1, h2, h3, h4, h5, h8, h9]
        · cases w.audioErr pts.ticks d with
          | some e => simp [h0, h1, h2, h3, h4, h5, h8, h9, wresReply]
          | none => simp [h0, h1, h2, h3, h4, h5, h8, h9]
  | none =>
    cases fvp with
    | none => simp [h0, h1, h2, h3, h4, h5]
    | some fv =>
      by_cases h9 : F64.lt pts fv = true
      · simp [h0, h1, h2, h3, h4, h5, h9]
      · cases w.audioErr pts.ticks d with
        | some e => simp [h0, h1, h2, h3, h4, h5, h9, wresReply]
        | none => simp [h0, h1, h2, h3, h4, h5, h9]

end Muxide
