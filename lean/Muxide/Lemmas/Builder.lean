import Muxide.Spec.BuilderSpec
/-
  Lemmas about the builder state machine: every field of the state after a call sequence is the
  declarative "last call of its kind" of Spec.BuilderSpec.
-/
namespace Muxide
open Spec

theorem lastSome_cons {α β : Type} (f : α → Option β) (a : α) (l : List α) :
    lastSome f (a :: l) = (lastSome f l).or (f a) := by
  unfold lastSome
  rw [List.reverse_cons, List.findSome?_append]
  cases h : List.findSome? f l.reverse <;> cases h2 : f a <;> simp [h2]

theorem lastSome_nil {α β : Type} (f : α → Option β) : lastSome f ([] : List α) = none := rfl

/-- `effMetadata` started from a given earlier metadata value -/
def effMdFrom (base : Option Metadata) : List BOp → Option Metadata
  | [] => base
  | op :: before =>
    match op with
    | .withMetadata m => some m
    | .setCreateTime t => some { (effMdFrom base before).getD {} with ctime := some t }
    | .setLanguage l => some { (effMdFrom base before).getD {} with language := some l }
    | _ => effMdFrom base before

theorem effMetadata_eq (l : List BOp) : effMetadata l = effMdFrom none l := by
  induction l with
  | nil => rfl
  | cons op l ih => cases op <;> simp [effMetadata, effMdFrom, ih]

theorem effMdFrom_snoc (base : Option Metadata) (l : List BOp) (op : BOp) :
    effMdFrom base (l ++ [op]) = effMdFrom (effMdFrom base [op]) l := by
  induction l with
  | nil => rfl
  | cons x l ih => cases x <;> simp [effMdFrom, ih]

theorem step_md (b : Builder) (op : BOp) : (b.step op).md = effMdFrom b.md [op] := by
  cases op <;> rfl

theorem foldl_md (ops : List BOp) (b : Builder) :
    (ops.foldl Builder.step b).md = effMdFrom b.md ops.reverse := by
  induction ops generalizing b with
  | nil => rfl
  | cons op ops ih =>
    rw [List.foldl_cons, ih, List.reverse_cons, effMdFrom_snoc, step_md]

theorem step_video (b : Builder) (op : BOp) : (b.step op).video = (videoOf op).or b.video := by
  cases op <;> rfl

theorem step_audio (b : Builder) (op : BOp) : (b.step op).audio = (audioOf op).or b.audio := by
  cases op <;> rfl

theorem step_fast (b : Builder) (op : BOp) : (b.step op).fast = (fastOf op).getD b.fast := by
  cases op <;> rfl

theorem foldl_video (ops : List BOp) (b : Builder) :
    (ops.foldl Builder.step b).video = (lastSome videoOf ops).or b.video := by
  induction ops generalizing b with
  | nil => simp [lastSome_nil]
  | cons op ops ih =>
    rw [List.foldl_cons, ih, lastSome_cons, step_video]
    cases lastSome videoOf ops <;> simp

theorem foldl_audio (ops : List BOp) (b : Builder) :
    (ops.foldl Builder.step b).audio = (lastSome audioOf ops).or b.audio := by
  induction ops generalizing b with
  | nil => simp [lastSome_nil]
  | cons op ops ih =>
    rw [List.foldl_cons, ih, lastSome_cons, step_audio]
    cases lastSome audioOf ops <;> simp

theorem foldl_fast (ops : List BOp) (b : Builder) :
    (ops.foldl Builder.step b).fast = (lastSome fastOf ops).getD b.fast := by
  induction ops generalizing b with
  | nil => simp [lastSome_nil]
  | cons op ops ih =>
    rw [List.foldl_cons, ih, lastSome_cons, step_fast]
    cases lastSome fastOf ops <;> simp

theorem step_sps (b : Builder) (op : BOp) : (b.step op).sps = (spsOf op).or b.sps := by cases op <;> rfl
theorem step_pps (b : Builder) (op : BOp) : (b.step op).pps = (ppsOf op).or b.pps := by cases op <;> rfl
theorem step_vps (b : Builder) (op : BOp) : (b.step op).vps = (vpsOf op).or b.vps := by cases op <;> rfl
theorem step_av1 (b : Builder) (op : BOp) : (b.step op).av1 = (av1Of op).or b.av1 := by cases op <;> rfl
theorem step_vp9 (b : Builder) (op : BOp) : (b.step op).vp9 = (vp9Of op).or b.vp9 := by cases op <;> rfl

/-- generic form of the `foldl_*` lemmas: a field that every call either sets or leaves alone -/
theorem foldl_field {β : Type} (get : Builder → Option β) (f : BOp → Option β)
    (hstep : ∀ b op, get (b.step op) = (f op).or (get b)) (ops : List BOp) (b : Builder) :
    get (ops.foldl Builder.step b) = (lastSome f ops).or (get b) := by
  induction ops generalizing b with
  | nil => simp [lastSome_nil]
  | cons op ops ih =>
    rw [List.foldl_cons, ih, lastSome_cons, hstep]
    cases lastSome f ops <;> simp

theorem run_video (ops : List BOp) : (Builder.run ops).video = lastSome videoOf ops := by
  simpa [Builder.run, Builder.new] using foldl_field (·.video) videoOf step_video ops {}
theorem run_audio (ops : List BOp) : (Builder.run ops).audio = lastSome audioOf ops := by
  simpa [Builder.run, Builder.new] using foldl_field (·.audio) audioOf step_audio ops {}
theorem run_sps (ops : List BOp) : (Builder.run ops).sps = lastSome spsOf ops := by
  simpa [Builder.run, Builder.new] using foldl_field (·.sps) spsOf step_sps ops {}
theorem run_pps (ops : List BOp) : (Builder.run ops).pps = lastSome ppsOf ops := by
  simpa [Builder.run, Builder.new] using foldl_field (·.pps) ppsOf step_pps ops {}
theorem run_vps (ops : List BOp) : (Builder.run ops).vps = lastSome vpsOf ops := by
  simpa [Builder.run, Builder.new] using foldl_field (·.vps) vpsOf step_vps ops {}
theorem run_av1 (ops : List BOp) : (Builder.run ops).av1 = lastSome av1Of ops := by
  simpa [Builder.run, Builder.new] using foldl_field (·.av1) av1Of step_av1 ops {}
theorem run_vp9 (ops : List BOp) : (Builder.run ops).vp9 = lastSome vp9Of ops := by
  simpa [Builder.run, Builder.new] using foldl_field (·.vp9) vp9Of step_vp9 ops {}
theorem run_fast (ops : List BOp) : (Builder.run ops).fast = (lastSome fastOf ops).getD true := by
  simpa [Builder.run, Builder.new] using foldl_fast ops {}
theorem run_md (ops : List BOp) : (Builder.run ops).md = effMetadata ops.reverse := by
  rw [effMetadata_eq]; simpa [Builder.run, Builder.new] using foldl_md ops {}

end Muxide
