import Muxide.Lemmas.Records
import Muxide.Lemmas.Fields
import Muxide.Lemmas.Layout
import Muxide.Lemmas.Mp4Shape
import Muxide.Lemmas.Tables
import Muxide.Lemmas.WriterInv
/-
  Muxide.Lemmas.E2E — helper lemmas for the end-to-end read-back theorem (Props/C01E2E.lean):
  * what the independent reader's `decodeTrack` / `parseMovie` compute on the box trees that the
    builders `bVideoTrak`, `bAudioTrak`, `bMoov` produce (navigation is definitional; the table
    decoders are taken as hypotheses and discharged by C16 in the property file);
  * `Track.samples` in terms of the ranges and the sync flags;
  * the sync-sample table `keyframesOf` read back with `List.contains`;
  * the writer invariant "the oldest queued video frame is a key frame".
-/
namespace Muxide
open Muxide.Spec Box

/-! ### `decodeTrack` on the builders' output -/

/-- the sample-table part of `decodeTrack`, for a track without edit list -/
def stblPart (tkhd mdhd hdlr mh : Bytes) (sk : List Box) : Option Track := do
  let stsd ← child? "stsd" sk
  let stts ← (child? "stts" sk).bind (decodeStts ·.pre)
  let ctts ← match child? "ctts" sk with
    | none => some none
    | some b => (decodeCtts b.pre).map some
  let stsc ← (child? "stsc" sk).bind (decodeStsc ·.pre)
  let sizes ← (child? "stsz" sk).bind (decodeStsz ·.pre)
  let stco ← (child? "stco" sk).bind (decodeU32Table ·.pre)
  let stss ← match child? "stss" sk with
    | none => some none
    | some b => (decodeU32Table b.pre).map some
  some ⟨tkhd, mdhd, hdlr, stsd, stts, ctts, stsc, sizes, stco, stss, none, sk.map (·.typ), mh⟩

/-- navigation through trak / mdia / minf / dinf / stbl of a track with a video media header -/
theorem decodeTrack_vtrak (a b c d e f g : Nat) (l : Option (List Nat)) (s1 s2 : String) (sk : List Box) :
    decodeTrack (node "trak" [] [bTkhd a b c d e,
      node "mdia" [] [bMdhd f g l, bHdlr s1 s2, node "minf" [] [bVmhd, bDinf, node "stbl" [] sk]]]) =
    stblPart (bTkhd a b c d e).pre (bMdhd f g l).pre (bHdlr s1 s2).pre (ascii "vmhd") sk := rfl

/-- … and with a sound media header -/
theorem decodeTrack_atrak (a b c d e f g : Nat) (l : Option (List Nat)) (s1 s2 : String) (sk : List Box) :
    decodeTrack (node "trak" [] [bTkhd a b c d e,
      node "mdia" [] [bMdhd f g l, bHdlr s1 s2, node "minf" [] [bSmhd, bDinf, node "stbl" [] sk]]]) =
    stblPart (bTkhd a b c d e).pre (bMdhd f g l).pre (bHdlr s1 s2).pre (ascii "smhd") sk := rfl

/-- `bStsc` is a leaf of type `stsc` whatever its arguments -/
def stscPayload (spc n : Nat) : Bytes :=
  if n % 2^32 = 0 ∨ spc = 0 then u32be 0 ++ u32be 0
  else u32be 0 ++ u32be 1 ++ u32be 1 ++ u32be spc ++ u32be 1

theorem bStsc_eq (spc n : Nat) : bStsc spc n = leaf "stsc" (stscPayload spc n) := by
  unfold bStsc stscPayload; split <;> rfl

/-- the fields of a decoded track that the chunk walk uses -/
structure TrackTables (t : Track) (stsc : List (Nat × Nat × Nat)) (sizes stco : List Nat)
    (stss : Option (List Nat)) : Prop where
  stsc_eq : t.stsc = stsc
  sizes_eq : t.sizes = sizes
  stco_eq : t.stco = stco
  stss_eq : t.stss = stss

/-- an optional table: absent, or present and decodable -/
def optDecode {α} (f : Bytes → Option α) : Option Box → Option (Option α)
  | none => some none
  | some b => (f b.pre).map some

/-- `stblPart` from its seven lookups -/
theorem stblPart_of (tk mdh hd mh : Bytes) (sk : List Box) (sd tt scb zb cb : Box) (cs ss : Option Box)
    (st : List (Nat × Nat)) (cf : Option (List (Nat × Int))) (sc : List (Nat × Nat × Nat)) (zs co : List Nat)
    (sf : Option (List Nat))
    (c0 : child? "stsd" sk = some sd) (c1 : child? "stts" sk = some tt) (c2 : child? "ctts" sk = cs)
    (c3 : child? "stsc" sk = some scb) (c4 : child? "stsz" sk = some zb) (c5 : child? "stco" sk = some cb)
    (c6 : child? "stss" sk = ss)
    (h1 : decodeStts tt.pre = some st)
    (h2 : optDecode decodeCtts cs = some cf)
    (h3 : decodeStsc scb.pre = some sc)
    (h4 : decodeStsz zb.pre = some zs)
    (h5 : decodeU32Table cb.pre = some co)
    (h6 : optDecode decodeU32Table ss = some sf) :
    stblPart tk mdh hd mh sk = some ⟨tk, mdh, hd, sd, st, cf, sc, zs, co, sf, none, sk.map (·.typ), mh⟩ := by
  unfold stblPart
  simp only [c0, c1, c2, c3, c4, c5, c6, h1, h3, h4, h5, Option.bind_eq_bind, Option.bind_some]
  cases cs with
  | none =>
    simp only [optDecode, Option.some.injEq] at h2
    subst h2
    cases ss with
    | none => simp only [optDecode, Option.some.injEq] at h6; subst h6; rfl
    | some b => simp only [optDecode] at h6 ⊢; rw [h6]; rfl
  | some c =>
    simp only [optDecode] at h2 ⊢
    rw [h2]
    cases ss with
    | none => simp only [optDecode, Option.some.injEq] at h6; subst h6; rfl
    | some b => simp only [optDecode] at h6 ⊢; rw [h6]; rfl

/-- the video track decodes whenever its tables do; the decoded chunk tables are the decoded
    `stsc`, `stsz`, `stco`, and the `stss` iff one was written -/
theorem decodeTrack_video (W H : Nat) (t : Tables) (vc : VideoConfig) (lang : Option (List Nat))
    (st : List (Nat × Nat)) (ct : List (Nat × Int)) (sc : List (Nat × Nat × Nat))
    (h1 : decodeStts (bStts t.durations).pre = some st)
    (h2 : decodeCtts (bCtts t.ctsOffsets).pre = some ct)
    (h3 : decodeStsc (bStsc t.samplesPerChunk t.chunkOffsets.length).pre = some sc)
    (h4 : decodeStsz (bStsz t.sizes).pre = some t.sizes)
    (h5 : decodeU32Table (bStco t.chunkOffsets).pre = some t.chunkOffsets)
    (h6 : decodeU32Table (bStss t.keyframes).pre = some t.keyframes) :
    ∃ tr, decodeTrack (bVideoTrak W H t vc lang) = some tr ∧
      TrackTables tr sc t.sizes t.chunkOffsets (if t.keyframes ≠ [] then some t.keyframes else none) := by
  unfold bVideoTrak bVideoStbl
  rw [decodeTrack_vtrak]
  rw [bStsc_eq] at h3 ⊢
  have h2' : (decodeCtts (bCtts t.ctsOffsets).pre).map some = some (some ct) := by rw [h2]; rfl
  have h6' : (decodeU32Table (bStss t.keyframes).pre).map some = some (some t.keyframes) := by rw [h6]; rfl
  by_cases hb : t.hasBframes = true <;> by_cases hk : t.keyframes = []
  all_goals
    simp only [hb, hk, ne_eq, not_true_eq_false, not_false_eq_true, if_true, if_false, List.append_nil,
      List.cons_append, List.nil_append, Bool.false_eq_true]
  · exact ⟨_, stblPart_of _ _ _ _ _ _ _ _ _ _ _ _ st (some ct) sc _ _ none rfl rfl rfl rfl rfl rfl rfl
      h1 h2' h3 h4 h5 rfl, ⟨rfl, rfl, rfl, rfl⟩⟩
  · exact ⟨_, stblPart_of _ _ _ _ _ _ _ _ _ _ _ _ st (some ct) sc _ _ (some t.keyframes) rfl rfl rfl rfl rfl rfl rfl
      h1 h2' h3 h4 h5 h6', ⟨rfl, rfl, rfl, rfl⟩⟩
  · exact ⟨_, stblPart_of _ _ _ _ _ _ _ _ _ _ _ _ st none sc _ _ none rfl rfl rfl rfl rfl rfl rfl
      h1 rfl h3 h4 h5 rfl, ⟨rfl, rfl, rfl, rfl⟩⟩
  · exact ⟨_, stblPart_of _ _ _ _ _ _ _ _ _ _ _ _ st none sc _ _ (some t.keyframes) rfl rfl rfl rfl rfl rfl rfl
      h1 rfl h3 h4 h5 h6', ⟨rfl, rfl, rfl, rfl⟩⟩

/-- the audio track likewise (never a `ctts`, never an `stss`) -/
theorem decodeTrack_audio (a : AudioTrack) (t : Tables) (lang : Option (List Nat))
    (st : List (Nat × Nat)) (sc : List (Nat × Nat × Nat))
    (h1 : decodeStts (bStts t.durations).pre = some st)
    (h3 : decodeStsc (bStsc t.samplesPerChunk t.chunkOffsets.length).pre = some sc)
    (h4 : decodeStsz (bStsz t.sizes).pre = some t.sizes)
    (h5 : decodeU32Table (bStco t.chunkOffsets).pre = some t.chunkOffsets) :
    ∃ tr, decodeTrack (bAudioTrak a t lang) = some tr ∧ TrackTables tr sc t.sizes t.chunkOffsets none := by
  unfold bAudioTrak bAudioStbl
  rw [decodeTrack_atrak]
  rw [bStsc_eq] at h3 ⊢
  exact ⟨_, stblPart_of _ _ _ _ _ _ _ _ _ _ _ _ st none sc _ _ none rfl rfl rfl rfl rfl rfl rfl
      h1 rfl h3 h4 h5 rfl, ⟨rfl, rfl, rfl, rfl⟩⟩

/-! ### `parseMovie` on the builders' output -/

theorem bind_bUdta_typ (md : Option Metadata) (u : Box) (h : md.bind bUdta = some u) : u.typ = ascii "udta" := by
  cases md with
  | none => simp at h
  | some m => exact bUdta_typ m u (by simpa using h)

/-- the audio `trak` of the moov, if an audio track is configured -/
def audioTraks (audio : Option (AudioTrack × Tables)) (lang : Option (List Nat)) : List Box :=
  match audio with
  | some (a, at_) => [bAudioTrak a at_ lang]
  | none => []

theorem children_trak_bMoov (W H : Nat) (vt : Tables) (audio : Option (AudioTrack × Tables)) (vc : VideoConfig)
    (md : Option Metadata) :
    children "trak" (bMoov W H vt audio vc md).kids =
      bVideoTrak W H vt vc (md.bind (·.language)) :: audioTraks audio (md.bind (·.language)) := by
  unfold bMoov
  have hu := bind_bUdta_typ md
  generalize md.bind bUdta = u? at hu
  cases u? with
  | none =>
    rcases audio with _ | ⟨a, t⟩ <;> rfl
  | some u =>
    have := hu u rfl
    obtain ⟨t, p, k⟩ := u
    simp only [Box.typ] at this
    subst this
    rcases audio with _ | ⟨a, t⟩ <;> rfl

theorem child_mvhd_bMoov (W H : Nat) (vt : Tables) (audio : Option (AudioTrack × Tables)) (vc : VideoConfig)
    (md : Option Metadata) : ∃ m, child? "mvhd" (bMoov W H vt audio vc md).kids = some m := ⟨_, rfl⟩

theorem parseMovie_of (file : Bytes) (top : List Box) (W H : Nat) (vt : Tables)
    (audio : Option (AudioTrack × Tables)) (vc : VideoConfig) (md : Option Metadata) (tracks : List Track)
    (htop : parseFileTree file = some top)
    (hm : child? "moov" top = some (bMoov W H vt audio vc md))
    (ht : (bVideoTrak W H vt vc (md.bind (·.language)) :: audioTraks audio (md.bind (·.language))).mapM decodeTrack
       = some tracks) :
    ∃ mv, parseMovie file = some mv ∧ mv.tracks = tracks ∧ mv.top = top ∧
      mv.moov = bMoov W H vt audio vc md := by
  obtain ⟨m, hmv⟩ := child_mvhd_bMoov W H vt audio vc md
  unfold parseMovie
  rw [htop]
  simp only [Option.bind_eq_bind, Option.bind_some]
  rw [hm, Option.bind_some]
  rw [hmv, Option.bind_some, children_trak_bMoov, ht, Option.bind_some]
  exact ⟨_, rfl, rfl, rfl, rfl⟩

/-- the three top-level sequences a finished file can have: the moov is found in each -/
theorem child_moov_top (moov : Box) (payload : Bytes) (hm : moov.typ = ascii "moov") :
    child? "moov" [bFtyp, moov, mdatBox payload] = some moov ∧
    child? "moov" [bFtyp, mdatBox payload, moov] = some moov ∧
    child? "moov" [bFtyp, moov] = some moov := by
  obtain ⟨t, p, k⟩ := moov
  simp only [Box.typ] at hm
  subst hm
  exact ⟨rfl, rfl, rfl⟩

/-! ### `Track.samples` from ranges and sync flags -/

theorem samples_payload_sync (t : Track) (file : Bytes) (datas : List Bytes) (keys : List Bool)
    (h1 : t.ranges.map (fun r => slice file r.1 r.2) = datas) (h2 : t.syncFlags = keys) :
    (t.samples file).map (fun s => (s.1, s.2.1)) = datas.zip keys := by
  subst h1 h2
  unfold Track.samples
  rw [List.map_map]
  conv => rhs; rw [← List.map_id t.syncFlags, List.zip_map]
  apply List.map_congr_left
  rintro ⟨⟨o, s⟩, k⟩ _
  rfl

theorem samples_payload (t : Track) (file : Bytes) (datas : List Bytes)
    (h1 : t.ranges.map (fun r => slice file r.1 r.2) = datas) (h2 : datas.length ≤ t.syncFlags.length) :
    (t.samples file).map (·.1) = datas := by
  have h := samples_payload_sync t file datas t.syncFlags h1 rfl
  have := congrArg (List.map Prod.fst) h
  rw [List.map_map, List.map_fst_zip h2] at this
  exact this

theorem syncFlags_length (t : Track) : t.syncFlags.length = t.sizes.length := by
  unfold Track.syncFlags
  split <;> simp

/-! ### the sync-sample table -/

/-- sample `i` (0-based) is listed in the sync-sample table iff it is a key frame -/
theorem keyframesOf_contains (vs : List Sample) (i : Nat) (hi : i < vs.length) :
    (keyframesOf vs).contains (i + 1) = vs[i].key := by
  rw [Bool.eq_iff_iff, List.contains_iff_mem]
  simp only [keyframesOf, List.mem_map, List.mem_filter]
  constructor
  · rintro ⟨⟨j, s⟩, ⟨hm, hk⟩, hj⟩
    simp only [Nat.add_right_cancel_iff] at hj
    subst hj
    obtain ⟨n, hn, e⟩ := List.mem_iff_getElem.mp hm
    simp only [List.getElem_zip, List.getElem_range, Prod.mk.injEq] at e
    obtain ⟨rfl, rfl⟩ := e
    exact hk
  · intro hk
    refine ⟨(i, vs[i]), ⟨?_, hk⟩, rfl⟩
    apply List.mem_iff_getElem.mpr
    refine ⟨i, by simpa using hi, ?_⟩
    simp

/-- the reader's sync flags for the table `keyframesOf vs`, when it is present -/
theorem syncFlags_keyframes (vs : List Sample) :
    (List.range vs.length).map (fun i => (keyframesOf vs).contains (i + 1)) = vs.map (·.key) := by
  apply List.ext_getElem (by simp)
  intro i h1 h2
  have hi : i < vs.length := by simpa using h2
  simp only [List.getElem_map, List.getElem_range]
  exact keyframesOf_contains vs i hi

/-- a sample list whose first element is a key frame has a non-empty sync-sample table -/
theorem keyframesOf_ne_nil (vs : List Sample) (s : Sample) (h : vs.head? = some s) (hk : s.key = true) :
    keyframesOf vs ≠ [] := by
  cases vs with
  | nil => simp at h
  | cons a r =>
    simp only [List.head?_cons, Option.some.injEq] at h
    subst h
    have := keyframesOf_contains (a :: r) 0 (by simp)
    simp only [List.getElem_cons_zero, hk] at this
    intro e
    rw [e] at this
    simp at this

/-! ### the oldest queued video frame is a key frame -/

/-- key flags of the queued video frames, newest first: the last one (the oldest frame) is set -/
def FirstKey (w : Writer) : Prop := ∀ k, (w.vsRev.map (·.key)).getLast? = some k → k = true

theorem setLastDur_map_key (rev : List Sample) (d : Nat) :
    (setLastDur rev d).map (·.key) = rev.map (·.key) := by
  cases rev <;> simp [setLastDur]

theorem writeVideo_first_needs_key (w : Writer) (pts dts : Nat) (data : Bytes)
    (hp : w.vPrev = none) : (w.writeVideo pts dts data false).2 ≠ .ok := by
  unfold Writer.writeVideo
  split
  · simp
  · simp [hp]

theorem writeVideo_firstKey (w : Writer) (pts dts : Nat) (data : Bytes) (key : Bool) (hi : w.Inv)
    (h : FirstKey w) : FirstKey (w.writeVideo pts dts data key).1 := by
  rcases writeVideo_cases w pts dts data key with h' | ⟨hok, _, _, _, ⟨hp, c, e⟩ | ⟨prev, hp, _, _, e⟩⟩
  · rw [h'.1]; exact h
  · have hnil : w.vsRev = [] := by
      have := hi.vPrev
      rw [hp] at this
      cases hv : w.vsRev with
      | nil => rfl
      | cons a r => rw [hv] at this; simp at this
    have hk : key = true := by
      cases key with
      | true => rfl
      | false => exact absurd hok (writeVideo_first_needs_key w pts dts data hp)
    rw [e]
    intro k
    simp only [hnil, List.map_cons, List.map_nil, List.getLast?_singleton, Option.some.injEq]
    intro hk'; rw [← hk', hk]
  · have hne : w.vsRev ≠ [] := by
      intro hv
      have := hi.vPrev
      rw [hp, hv] at this
      simp at this
    rw [e]
    intro k
    simp only [List.map_cons, setLastDur_map_key]
    cases hv : w.vsRev.map (·.key) with
    | nil => simp at hv; exact absurd hv hne
    | cons a r =>
      rw [List.getLast?_cons_cons]
      intro hk
      exact h k (by rw [hv]; exact hk)

theorem writeAudio_vsRev (w : Writer) (pts : Nat) (data : Bytes) : (w.writeAudio pts data).1.vsRev = w.vsRev := by
  rcases writeAudio_sizes w pts data with e | ⟨_, _, _, _, _, e⟩
  · rw [e]
  · exact e

theorem Writer.Reachable.firstKey {w : Writer} (h : w.Reachable) : FirstKey w := by
  induction h with
  | init c a => intro k hk; simp at hk
  | @video w pts dts data key hr ih => exact writeVideo_firstKey w pts dts data key hr.inv ih
  | @audio w pts data _ ih =>
    unfold FirstKey; rw [writeAudio_vsRev]; exact ih
  | @fin w width height md fast _ ih =>
    unfold FirstKey; rw [finalize_fst]; exact ih

/-- in submission order: a reachable writer with at least one video frame has a non-empty
    sync-sample table (its first frame is a key frame) -/
theorem Writer.Reachable.keyframes_ne_nil {w : Writer} (h : w.Reachable) (hne : w.vsRev ≠ []) :
    keyframesOf w.vsRev.reverse ≠ [] := by
  have hk := h.firstKey
  cases hh : w.vsRev.reverse.head? with
  | none => simp at hh; exact absurd hh hne
  | some s =>
    refine keyframesOf_ne_nil _ s hh (hk s.key ?_)
    rw [List.head?_reverse] at hh
    rw [List.getLast?_map, hh]; rfl

end Muxide
