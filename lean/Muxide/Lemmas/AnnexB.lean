import Muxide.Lemmas.Framing
/- Muxide.Lemmas.AnnexB — the structural start-code scanner and NAL iterator of the model against
   the least-index specification of Muxide.Spec.Framing (helper lemmas for C14). -/
namespace Muxide
open Muxide.Spec

/-- length of the start code at the head of a byte string (4-byte form preferred), 0 if none -/
def headLen : Bytes → Nat
  | 0 :: 0 :: 0 :: 1 :: _ => 4
  | 0 :: 0 :: 1 :: _ => 3
  | _ => 0

theorem headLen_cons4 (a b c f : UInt8) (r : Bytes) :
    headLen (a :: b :: c :: f :: r) =
      if a = 0 ∧ b = 0 ∧ c = 0 ∧ f = 1 then 4 else if a = 0 ∧ b = 0 ∧ c = 1 then 3 else 0 := by
  unfold headLen
  split
  · simp_all
  · simp_all
  · next h1 h2 =>
    have h1' := h1 r
    have h2' := h2 (f :: r)
    rw [if_neg (by grind), if_neg (by grind)]

theorem headLen_cons3 (a b c : UInt8) :
    headLen [a, b, c] = if a = 0 ∧ b = 0 ∧ c = 1 then 3 else 0 := by
  unfold headLen
  split
  · simp_all
  · simp_all
  · next h1 h2 =>
    have h2' := h2 []
    simp at h2'
    rw [if_neg (by grind)]

theorem headLen_short (e : Bytes) (h : e.length < 3) : headLen e = 0 := by
  match e, h with
  | [], _ => simp [headLen]
  | [_], _ => simp [headLen]
  | [_, _], _ => simp [headLen]

theorem headLen_four (t : Bytes) : headLen (0 :: 0 :: 0 :: 1 :: t) = 4 := by simp [headLen]
theorem headLen_three (t : Bytes) : headLen (0 :: 0 :: 1 :: t) = 3 := by
  unfold headLen; split <;> simp_all

theorem headLen_eq_four {e : Bytes} (h : headLen e = 4) : ∃ t, e = 0 :: 0 :: 0 :: 1 :: t := by
  unfold headLen at h; split at h <;> simp_all
theorem headLen_eq_three {e : Bytes} (h : headLen e = 3) : ∃ t, e = 0 :: 0 :: 1 :: t := by
  unfold headLen at h; split at h <;> simp_all

theorem headLen_cases (e : Bytes) : headLen e = 0 ∨ headLen e = 3 ∨ headLen e = 4 := by
  unfold headLen; split <;> simp

theorem scLenAt_eq_headLen (d : Bytes) (i : Nat) : scLenAt d i = headLen (d.drop i) := by
  have h0 : d[i]? = (d.drop i)[0]? := by simp
  have h1 : d[i+1]? = (d.drop i)[1]? := by simp
  have h2 : d[i+2]? = (d.drop i)[2]? := by simp
  have h3 : d[i+3]? = (d.drop i)[3]? := by simp
  unfold scLenAt
  rw [h0, h1, h2, h3]
  generalize d.drop i = e
  match e with
  | [] => simp [headLen]
  | [a] => simp [headLen]
  | [a, b] => simp [headLen]
  | [a, b, c] => rw [headLen_cons3]; simp
  | a :: b :: c :: f :: r => rw [headLen_cons4]; simp

/-- one step of the structural scanner, in terms of `headLen` -/
theorem findSC_cons (b : UInt8) (rest : Bytes) :
    findSC (b :: rest) =
      if headLen (b :: rest) ≠ 0 then some (0, headLen (b :: rest))
      else (findSC rest).map fun (p, l) => (p + 1, l) := by
  rcases headLen_cases (b :: rest) with h | h | h
  · rw [findSC.eq_4, h]
    · simp
    · intro t hb hr; subst hb hr; rw [headLen_four] at h; omega
    · intro t hb hr; subst hb hr; rw [headLen_three] at h; omega
  · obtain ⟨t, ht⟩ := headLen_eq_three h
    rw [h, ht, findSC.eq_3]; simp
  · obtain ⟨t, ht⟩ := headLen_eq_four h
    rw [h, ht, findSC.eq_2]; simp


/-- least index of a suffix whose head is a start code — the specification's search, on a suffix -/
def firstFrom (e : Bytes) : Option (Nat × Nat) :=
  (List.range e.length).findSome? fun j =>
    if headLen (e.drop j) ≠ 0 then some (j, headLen (e.drop j)) else none

theorem findSC_eq_firstFrom (e : Bytes) : findSC e = firstFrom e := by
  induction e with
  | nil => simp [findSC, firstFrom]
  | cons b rest ih =>
    rw [findSC_cons, ih]
    unfold firstFrom
    rw [List.length_cons, List.range_succ_eq_map, List.findSome?_cons]
    by_cases h : headLen (b :: rest) = 0
    · simp [h, List.findSome?_map, Function.comp_def, List.map_findSome?]
      congr 1; funext x; split <;> simp
    · simp [h]

theorem firstSC_eq_firstFrom (d : Bytes) (k : Nat) :
    firstSC d k = (firstFrom (d.drop k)).map fun (p, l) => (p + k, l) := by
  unfold firstSC firstFrom
  simp [List.findSome?_map, Function.comp_def, scLenAt_eq_headLen]
  congr 1; funext x; rw [Nat.add_comm k x]; split <;> simp


theorem findSC_eq_none_iff (e : Bytes) : findSC e = none ↔ ∀ j, headLen (e.drop j) = 0 := by
  induction e with
  | nil => simp [findSC, headLen]
  | cons b rest ih =>
    rw [findSC_cons]
    constructor
    · intro h j
      split at h
      · simp at h
      · next h0 =>
        simp at h0
        cases j with
        | zero => simpa using h0
        | succ j => simp at h; simpa using ih.mp h j
    · intro h
      have h0 := h 0
      simp at h0
      simp [h0]
      exact ih.mpr fun j => by simpa using h (j + 1)

theorem findSC_eq_some_iff (e : Bytes) (p l : Nat) :
    findSC e = some (p, l) ↔
      headLen (e.drop p) = l ∧ l ≠ 0 ∧ ∀ j, j < p → headLen (e.drop j) = 0 := by
  induction e generalizing p with
  | nil => simp [findSC, headLen]; omega
  | cons b rest ih =>
    rw [findSC_cons]
    by_cases h0 : headLen (b :: rest) = 0
    · simp only [h0, ne_eq, not_true_eq_false, if_false]
      cases p with
      | zero =>
        simp
        intro h1; omega
      | succ p =>
        simp only [Option.map_eq_some_iff, Prod.exists, Prod.mk.injEq, List.drop_succ_cons]
        constructor
        · rintro ⟨p', l', hf, hp, hl⟩
          have hp' : p' = p := by omega
          subst hp' hl
          obtain ⟨a1, a2, a3⟩ := (ih p').mp hf
          refine ⟨a1, a2, fun j hj => ?_⟩
          cases j with
          | zero => simpa using h0
          | succ j => simpa using a3 j (by omega)
        · rintro ⟨a1, a2, a3⟩
          exact ⟨p, l, (ih p).mpr ⟨a1, a2, fun j hj => by simpa using a3 (j + 1) (by omega)⟩, rfl, rfl⟩
    · simp only [ne_eq, h0, not_false_eq_true, if_true, Option.some.injEq, Prod.mk.injEq]
      constructor
      · rintro ⟨rfl, rfl⟩
        simp [h0]
      · rintro ⟨a1, a2, a3⟩
        cases p with
        | zero => simpa using a1
        | succ p => exact absurd (by simpa using a3 0 (by omega)) h0

theorem findSC_bound {e : Bytes} {p l : Nat} (h : findSC e = some (p, l)) :
    p + l ≤ e.length ∧ (l = 3 ∨ l = 4) := by
  obtain ⟨a1, a2, _⟩ := (findSC_eq_some_iff e p l).mp h
  have hc := headLen_cases (e.drop p)
  refine ⟨?_, by omega⟩
  rcases hc with hc | hc | hc
  · omega
  · obtain ⟨t, ht⟩ := headLen_eq_three hc
    have := congrArg List.length ht
    simp at this; omega
  · obtain ⟨t, ht⟩ := headLen_eq_four hc
    have := congrArg List.length ht
    simp at this; omega

theorem nalsAux_nil (fuel : Nat) : nalsAux fuel [] = [] := by
  cases fuel <;> simp [nalsAux, findSC]

/-- the iterator on the suffix at `k` is the specification's split from offset `k`, for equal fuel -/
theorem nalsAux_eq_splitFrom (d : Bytes) (fuel k : Nat) :
    nalsAux fuel (d.drop k) = splitFrom d fuel k := by
  induction fuel generalizing k with
  | zero => simp [nalsAux, splitFrom]
  | succ fuel ih =>
    have hscan : ∀ k, firstSC d k = (findSC (d.drop k)).map fun (p, l) => (p + k, l) := by
      intro k; rw [firstSC_eq_firstFrom, findSC_eq_firstFrom]
    rw [nalsAux, splitFrom, hscan k]
    cases h1 : findSC (d.drop k) with
    | none => simp
    | some pl =>
      obtain ⟨p, l⟩ := pl
      simp only [Option.map_some, List.drop_drop, takeNal]
      rw [hscan (p + k + l)]
      have e1 : k + (p + l) = p + k + l := by omega
      rw [e1]
      cases h2 : findSC (d.drop (p + k + l)) with
      | none =>
        simp only [Option.map_none]
        rw [← ih d.length]
        simp [nalsAux_nil]
        rw [List.take_of_length_le (by simp)]
      | some ql =>
        obtain ⟨q, l'⟩ := ql
        simp only [Option.map_some]
        rw [← ih]
        rw [Nat.add_sub_cancel, Nat.add_comm q]

/-- every run the specification's split returns is a contiguous piece of the input -/
theorem splitFrom_infix (d : Bytes) (fuel k : Nat) : ∀ u ∈ splitFrom d fuel k, u <:+: d := by
  induction fuel generalizing k with
  | zero => simp [splitFrom]
  | succ fuel ih =>
    intro u hu
    rw [splitFrom] at hu
    split at hu
    · simp at hu
    · simp only [List.mem_cons] at hu
      rcases hu with rfl | hu
      · exact List.IsInfix.trans (List.take_prefix _ _).isInfix (List.drop_suffix _ _).isInfix
      · exact ih _ u hu

/-! ### units joined by start codes -/

theorem headLen_cons_ne (a : UInt8) (x : Bytes) (ha : a ≠ 0) : headLen (a :: x) = 0 := by
  unfold headLen; split <;> simp_all

theorem headLen_cons_cons_ne (a b : UInt8) (x : Bytes) (hb : b ≠ 0) : headLen (a :: b :: x) = 0 := by
  unfold headLen; split <;> simp_all

/-- appending anything after a non-zero last byte creates no start code at the head -/
theorem headLen_append_of_getLast (m x : Bytes) (hl : m.getLast? ≠ some 0) (hne : m ≠ [])
    (h : headLen m = 0) : headLen (m ++ x) = 0 := by
  match m, hne with
  | [a], _ => exact headLen_cons_ne a _ (by simpa using hl)
  | [a, b], _ => exact headLen_cons_cons_ne a b _ (by simpa using hl)
  | [a, b, c], _ =>
    have hc : c ≠ 0 := by simpa using hl
    rw [headLen_cons3] at h
    cases x with
    | nil => simpa [headLen_cons3] using h
    | cons f r =>
      simp only [List.cons_append, List.nil_append]
      rw [headLen_cons4]
      grind
  | a :: b :: c :: f :: r, _ =>
    rw [headLen_cons4] at h
    simp only [List.cons_append]
    rw [headLen_cons4]; exact h

/-- appending a zero byte creates no start code at the head -/
theorem headLen_append_zero (m : Bytes) (h : headLen m = 0) : headLen (m ++ [0]) = 0 := by
  match m with
  | [] => simp [headLen]
  | [a] => simp [headLen]
  | [a, b] => simp [headLen_cons3]
  | [a, b, c] =>
    rw [headLen_cons3] at h
    simp only [List.cons_append, List.nil_append]
    rw [headLen_cons4]
    grind
  | a :: b :: c :: f :: r =>
    rw [headLen_cons4] at h
    simp only [List.cons_append]
    rw [headLen_cons4]; exact h

theorem findSC_append_zero (e : Bytes) (h : findSC e = none) : findSC (e ++ [0]) = none := by
  rw [findSC_eq_none_iff] at h ⊢
  intro j
  by_cases hj : j ≤ e.length
  · rw [List.drop_append_of_le_length hj]
    exact headLen_append_zero _ (h j)
  · rw [List.drop_of_length_le (by simp; omega)]; simp [headLen]

theorem findSC_append_zeros (e : Bytes) (t : Nat) (h : findSC e = none) :
    findSC (e ++ List.replicate t 0) = none := by
  induction t with
  | zero => simpa using h
  | succ t ih =>
    rw [List.replicate_succ', ← List.append_assoc]
    exact findSC_append_zero _ ih

/-- a unit free of start codes and not ending in zero, followed by a start code: the scanner
    stops exactly at the end of the unit -/
theorem findSC_unit_append (n e : Bytes) (hl : n.getLast? ≠ some 0) (hn : findSC n = none)
    (he : headLen e ≠ 0) : findSC (n ++ e) = some (n.length, headLen e) := by
  rw [findSC_eq_some_iff]
  rw [findSC_eq_none_iff] at hn
  refine ⟨by simp, he, fun j hj => ?_⟩
  rw [List.drop_append_of_le_length (by omega)]
  apply headLen_append_of_getLast
  · rw [List.getLast?_drop]; split
    · simp
    · exact hl
  · simp; omega
  · exact hn j


/-- the two start-code forms -/
def IsSC (c : Bytes) : Prop := c = [0, 0, 1] ∨ c = [0, 0, 0, 1]

theorem IsSC.headLen {c : Bytes} (hc : IsSC c) (x : Bytes) : headLen (c ++ x) = c.length := by
  rcases hc with rfl | rfl
  · exact headLen_three x
  · exact headLen_four x

theorem IsSC.findSC {c : Bytes} (hc : IsSC c) (x : Bytes) : findSC (c ++ x) = some (0, c.length) := by
  rcases hc with rfl | rfl
  · exact findSC.eq_3 x
  · exact findSC.eq_2 x

theorem IsSC.length {c : Bytes} (hc : IsSC c) : c.length = 3 ∨ c.length = 4 := by
  rcases hc with rfl | rfl <;> simp

theorem takeNal_snd_length (b : Bytes) : (takeNal b).2.length ≤ b.length := by
  unfold takeNal; split <;> simp

/-- the iterator's result does not depend on the fuel once it exceeds the input length -/
theorem nalsAux_fuel (e : Bytes) (f1 f2 : Nat) (h1 : e.length < f1) (h2 : e.length < f2) :
    nalsAux f1 e = nalsAux f2 e := by
  induction f1 generalizing e f2 with
  | zero => omega
  | succ g1 ih =>
    cases f2 with
    | zero => omega
    | succ g2 =>
      rw [nalsAux, nalsAux]
      cases h : findSC e with
      | none => rfl
      | some pl =>
        obtain ⟨p, l⟩ := pl
        have hb := findSC_bound h
        have ht := takeNal_snd_length (e.drop (p + l))
        simp only [List.length_drop] at ht
        simp only
        rw [ih _ g2 (by omega) (by omega)]

/-- one iterator step over `start code ++ unit ++ remainder`, the remainder being empty or
    beginning with a start code -/
theorem nalsAux_step (f : Nat) (c n r : Bytes) (hc : IsSC c) (hl : n.getLast? ≠ some 0)
    (hn : findSC n = none) (hr : r = [] ∨ headLen r ≠ 0) :
    nalsAux (f + 1) (c ++ (n ++ r)) = n :: nalsAux f r := by
  rw [nalsAux, hc.findSC]
  simp only [Nat.zero_add, List.drop_left]
  rcases hr with rfl | hr
  · simp [takeNal, hn]
  · simp [takeNal, findSC_unit_append n r hl hn hr]

/-- the last unit may end in anything that creates no start code -/
theorem nalsAux_last (f : Nat) (c m : Bytes) (hc : IsSC c) (hm : findSC m = none) :
    nalsAux (f + 1) (c ++ m) = [m] := by
  rw [nalsAux, hc.findSC]
  simp [takeNal, hm, nalsAux_nil]

/-- start codes and units, concatenated -/
def joinSC (ps : List (Bytes × Bytes)) : Bytes := ps.flatMap fun (c, n) => c ++ n

theorem joinSC_cons (c n : Bytes) (ps : List (Bytes × Bytes)) :
    joinSC ((c, n) :: ps) = c ++ (n ++ joinSC ps) := by
  simp [joinSC]

theorem joinSC_head (ps : List (Bytes × Bytes)) (t : Bytes)
    (hps : ∀ q ∈ ps, IsSC q.1) (ht : t = [] ∨ headLen t ≠ 0) :
    joinSC ps ++ t = [] ∨ headLen (joinSC ps ++ t) ≠ 0 := by
  cases ps with
  | nil => simpa [joinSC] using ht
  | cons q ps =>
    right
    obtain ⟨c, n⟩ := q
    have hc : IsSC c := hps (c, n) (by simp)
    rw [joinSC_cons, List.append_assoc, hc.headLen]
    have := hc.length; omega

theorem nalsAux_join (ps : List (Bytes × Bytes)) (t : Bytes) (f : Nat)
    (hps : ∀ q ∈ ps, IsSC q.1 ∧ q.2.getLast? ≠ some 0 ∧ findSC q.2 = none)
    (ht : t = [] ∨ headLen t ≠ 0) :
    nalsAux (ps.length + f) (joinSC ps ++ t) = ps.map (·.2) ++ nalsAux f t := by
  induction ps with
  | nil => simp [joinSC]
  | cons q ps ih =>
    obtain ⟨c, n⟩ := q
    obtain ⟨hc, hl, hn⟩ := hps (c, n) (by simp)
    have hps' : ∀ q ∈ ps, IsSC q.1 ∧ q.2.getLast? ≠ some 0 ∧ findSC q.2 = none :=
      fun q hq => hps q (by simp [hq])
    have e : (ps.length + 1) + f = (ps.length + f) + 1 := by omega
    rw [joinSC_cons, List.length_cons, e, List.append_assoc, List.append_assoc,
      nalsAux_step _ c n _ hc hl hn (joinSC_head ps t (fun q hq => (hps' q hq).1) ht), ih hps']
    simp


theorem headLen_zero_zeros (z : Nat) (c x : Bytes) (hc : IsSC c)
    (h : headLen (0 :: (List.replicate z 0 ++ (c ++ x))) ≠ 0) :
    headLen (0 :: (List.replicate z 0 ++ (c ++ x))) = z + 1 + c.length := by
  match z with
  | 0 => rcases hc with rfl | rfl <;> simp_all [headLen_cons4]
  | 1 => rcases hc with rfl | rfl <;> simp_all [headLen_cons4, List.replicate_succ]
  | 2 => rcases hc with rfl | rfl <;> simp_all [headLen_cons4, List.replicate_succ]
  | z + 3 => simp_all [headLen_cons4, List.replicate_succ]

/-- zero bytes before a start code only move (and possibly lengthen) it: it still ends at the
    same place -/
theorem findSC_zeros_sc (z : Nat) (c x : Bytes) (hc : IsSC c) :
    ∃ p l, findSC (List.replicate z 0 ++ (c ++ x)) = some (p, l) ∧ p + l = z + c.length := by
  induction z with
  | zero => exact ⟨0, c.length, by simpa using hc.findSC x, by omega⟩
  | succ z ih =>
    obtain ⟨p, l, hf, hpl⟩ := ih
    rw [List.replicate_succ, List.cons_append, findSC_cons]
    by_cases h0 : headLen (0 :: (List.replicate z 0 ++ (c ++ x))) = 0
    · exact ⟨p + 1, l, by simp [h0, hf], by omega⟩
    · refine ⟨0, headLen (0 :: (List.replicate z 0 ++ (c ++ x))), by simp [h0], ?_⟩
      rw [headLen_zero_zeros z c x hc h0]; omega

theorem nalsAux_leading_zeros (f z : Nat) (c x : Bytes) (hc : IsSC c) :
    nalsAux (f + 1) (List.replicate z 0 ++ (c ++ x)) = nalsAux (f + 1) (c ++ x) := by
  obtain ⟨p, l, hf, hpl⟩ := findSC_zeros_sc z c x hc
  rw [nalsAux, nalsAux, hf, hc.findSC]
  have : List.drop (p + l) (List.replicate z 0 ++ (c ++ x)) = List.drop (0 + c.length) (c ++ x) := by
    rw [hpl, ← List.drop_drop]; simp
  simp only [this]

theorem findSC_zeros (z : Nat) : findSC (List.replicate z 0) = none := by
  simpa using findSC_append_zeros [] z (by simp [findSC])



theorem joinSC_append_head (ps : List (Bytes × Bytes)) (c m : Bytes)
    (hps : ∀ q ∈ ps, IsSC q.1) (hc : IsSC c) :
    ∃ c0 x, IsSC c0 ∧ joinSC ps ++ (c ++ m) = c0 ++ x := by
  cases ps with
  | nil => exact ⟨c, m, hc, by simp [joinSC]⟩
  | cons q ps =>
    obtain ⟨c1, n1⟩ := q
    exact ⟨c1, n1 ++ joinSC ps ++ (c ++ m), hps (c1, n1) (by simp), by
      rw [joinSC_cons]; simp⟩

theorem noSC_iff (n : Bytes) : (∀ i, scLenAt n i = 0) ↔ findSC n = none := by
  rw [findSC_eq_none_iff]
  simp only [scLenAt_eq_headLen]

end Muxide
