import Muxide.Model.Basic
/- Muxide.Lemmas.Bytes — read/write round trips of the fixed-width integer encodings. -/
namespace Muxide

theorem readU32_u32be (n : Nat) (h : n < 2^32) (rest : Bytes) :
    readU32 (u32be n ++ rest) = some (n, rest) := by
  simp [u32be, u8, readU32, UInt8.toNat_ofNat']
  omega

theorem readU16_u16be (n : Nat) (h : n < 2^16) (rest : Bytes) :
    readU16 (u16be n ++ rest) = some (n, rest) := by
  simp [u16be, u8, readU16, UInt8.toNat_ofNat']
  omega

theorem u32be_mod (n : Nat) : u32be n = u32be (n % 2^32) := by
  have a : n % 2^32 / 2^24 % 256 = n / 2^24 % 256 := by omega
  have b : n % 2^32 / 2^16 % 256 = n / 2^16 % 256 := by omega
  have c : n % 2^32 / 2^8 % 256 = n / 2^8 % 256 := by omega
  have d : n % 2^32 % 256 = n % 256 := by omega
  simp only [u32be, a, b, c, d]

theorem readU64_u64be (n : Nat) (h : n < 2^64) (rest : Bytes) :
    readU64 (u64be n ++ rest) = some (n, rest) := by
  have h1 : n / 2^32 < 2^32 := by omega
  simp only [readU64, u64be, List.append_assoc]
  rw [readU32_u32be _ h1, u32be_mod n]
  simp only []
  rw [readU32_u32be _ (by omega)]
  simp
  omega

theorem u32be_ne_nil (n : Nat) : u32be n ≠ [] := by simp [u32be]

end Muxide
