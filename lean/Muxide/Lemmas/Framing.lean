import Muxide.Lemmas.Bytes
import Muxide.Model.AnnexB
import Muxide.Model.Adts
import Muxide.Spec.Framing
/- Muxide.Lemmas.Framing — helper lemmas for C14 (length-prefix round trip, ADTS field arithmetic). -/
namespace Muxide
open Muxide.Spec

theorem parseLP_flatMap (xs : List Bytes) (hx : ∀ x ∈ xs, x.length < 2^32) (fuel : Nat) (hf : xs.length < fuel) :
    parseLP fuel (xs.flatMap fun n => u32be n.length ++ n) = some xs := by
  induction xs generalizing fuel with
  | nil => cases fuel <;> simp_all [parseLP]
  | cons x xs ih =>
    cases fuel with
    | zero => simp at hf
    | succ fuel =>
      have hx' : x.length < 2^32 := hx x (by simp)
      simp only [List.flatMap_cons, parseLP, List.append_assoc]
      rw [readU32_u32be _ hx']
      have hne : u32be x.length ++ (x ++ List.flatMap (fun n => u32be n.length ++ n) xs) ≠ [] := by simp [u32be]
      simp only [hne, if_false, List.length_append, List.drop_left, List.take_left, Nat.le_add_right, if_true]
      rw [ih (fun y hy => hx y (by simp [hy])) fuel (by simp at hf; omega)]
      simp

theorem flatMap_lp_length (xs : List Bytes) :
    (xs.flatMap fun n => u32be n.length ++ n).length = (xs.map fun n => 4 + n.length).sum := by
  induction xs with
  | nil => rfl
  | cons x xs ih => simp [List.flatMap_cons, ih]; omega

theorem length_le_sum_lp (xs : List Bytes) : xs.length ≤ (xs.map fun n => 4 + n.length).sum := by
  induction xs with
  | nil => simp
  | cons x xs ih => simp; omega

/-- seven explicit header bytes -/
theorem exists_seven (f : Bytes) (h : 7 ≤ f.length) :
    ∃ b0 b1 b2 b3 b4 b5 b6 rest, f = b0 :: b1 :: b2 :: b3 :: b4 :: b5 :: b6 :: rest := by
  match f, h with
  | b0 :: b1 :: b2 :: b3 :: b4 :: b5 :: b6 :: rest, _ => exact ⟨b0, b1, b2, b3, b4, b5, b6, rest, rfl⟩

theorem adtsToRaw_ok_iff (f r : Bytes) :
    adtsToRaw f = .ok r ↔ adtsGuards f ∧ r = (f.take (adtsFrameLength f)).drop (adtsHeaderLen f) := by
  unfold adtsToRaw adtsGuards
  repeat' split
  all_goals simp_all
  all_goals (first | omega | exact eq_comm | skip)

/-- the model's byte arithmetic computes the spec's bit fields -/
theorem adts_fields (b0 b1 b2 b3 b4 b5 b6 : UInt8) (rest : Bytes) :
    let f := b0 :: b1 :: b2 :: b3 :: b4 :: b5 :: b6 :: rest
    adtsHeaderBytes f = adtsHeaderLen f ∧ adtsDeclaredLength f = adtsFrameLength f ∧
    (bitField f 0 12 = 0xFFF ↔ (byteAt f 0 = 0xFF ∧ byteAt f 1 / 16 = 0xF)) ∧
    bitField f 12 1 = byteAt f 1 / 8 % 2 ∧ bitField f 13 2 = byteAt f 1 / 2 % 4 ∧
    bitField f 18 4 = byteAt f 2 / 4 % 16 ∧ bitField f 23 3 = adtsChannelConfig f := by
  intro f
  have l0 := b0.toNat_lt; have l1 := b1.toNat_lt; have l2 := b2.toNat_lt; have l3 := b3.toNat_lt
  have l4 := b4.toNat_lt; have l5 := b5.toNat_lt; have l6 := b6.toNat_lt
  have eH : headerNat f =
      b0.toNat * 2^48 + b1.toNat * 2^40 + b2.toNat * 2^32 + b3.toNat * 2^24 + b4.toNat * 2^16 +
      b5.toNat * 2^8 + b6.toNat := by
    simp [f, headerNat]; omega
  have ePA : adtsProtectionAbsent f = decide (b1.toNat % 2 = 1) := by
    simp only [adtsProtectionAbsent, bitField, eH]
    congr 1
    apply propext
    constructor <;> intro h <;> omega
  refine ⟨?_, ?_, ?_, ?_, ?_, ?_, ?_⟩
  · simp only [adtsHeaderBytes, adtsHeaderLen, ePA, byteAt, f]; simp
  · simp only [adtsDeclaredLength, bitField, eH, adtsFrameLength, byteAt, f]; simp; omega
  · simp only [bitField, eH, byteAt, f]; simp; constructor <;> intro h <;> omega
  · simp only [bitField, eH, byteAt, f]; simp; omega
  · simp only [bitField, eH, byteAt, f]; simp; omega
  · simp only [bitField, eH, byteAt, f]; simp; omega
  · simp only [bitField, eH, adtsChannelConfig, byteAt, f]; simp; omega

end Muxide
