/-
  Bit-field identities behind the ADTS header fields, in the shape the translated source (Generated/Adts.lean) has
  them: shifts as multiplication / division by powers of two with the wrap of the operand's width, masks as `&&&`.
  Proved by kernel evaluation over all byte values (`decide +kernel`: finite tables of at most 2^18 rows).
-/
namespace Muxide.Lemmas.AdtsBits

theorem and_1 (n : Nat) : n &&& 1 = n % 2 := Nat.and_two_pow_sub_one_eq_mod n 1
theorem and_3 (n : Nat) : n &&& 3 = n % 4 := Nat.and_two_pow_sub_one_eq_mod n 2
theorem and_15 (n : Nat) : n &&& 15 = n % 16 := Nat.and_two_pow_sub_one_eq_mod n 4

theorem sync_bits' : ∀ a, a < 256 → ∀ h, h < 16 →
    ((((a % 2 ^ 16) * 2 ^ 4 % 2 ^ 16) ||| h) ≠ 4095 ↔ ¬ (a = 0xFF ∧ h = 0xF)) := by
  decide +kernel

/-- the 12-bit syncword assembled from two bytes is 0xFFF iff the first byte is 0xFF and the high nibble of the second is 0xF -/
theorem sync_bits (a : Nat) (ha : a < 256) (b : Nat) (hb : b < 256) :
    ((((a % 2 ^ 16) * 2 ^ 4 % 2 ^ 16) ||| ((b % 2 ^ 16) / 2 ^ 4)) ≠ 4095 ↔ ¬ (a = 0xFF ∧ b / 16 = 0xF)) := by
  have e : (b % 2 ^ 16) / 2 ^ 4 = b / 16 := by rw [Nat.mod_eq_of_lt (by omega)]
  rw [e]; exact sync_bits' a ha (b / 16) (by omega)

theorem chan_bits : ∀ x, x < 2 → ∀ y, y < 4 → ((x * 2 ^ 2 % 2 ^ 8) ||| y) = x * 4 + y := by decide

theorem top3_bits : ∀ z, z < 256 → ((z &&& 224) % 2 ^ 64) / 2 ^ 5 = z / 32 := by decide +kernel

theorem len_bits' : ∀ x, x < 4 → ∀ y, y < 256 → ∀ w, w < 8 →
    ((((x % 2 ^ 64) * 2 ^ 11 % 2 ^ 64) ||| ((y % 2 ^ 64) * 2 ^ 3 % 2 ^ 64)) ||| w) = x * 2 ^ 11 + y * 2 ^ 3 + w := by
  decide +kernel

theorem len_bits (x : Nat) (hx : x < 4) (y : Nat) (hy : y < 256) (z : Nat) (hz : z < 256) :
    ((((x % 2 ^ 64) * 2 ^ 11 % 2 ^ 64) ||| ((y % 2 ^ 64) * 2 ^ 3 % 2 ^ 64)) ||| (((z &&& 224) % 2 ^ 64) / 2 ^ 5)) =
      x * 2 ^ 11 + y * 2 ^ 3 + z / 32 := by
  rw [top3_bits z hz]; exact len_bits' x hx y hy (z / 32) (by omega)

end Muxide.Lemmas.AdtsBits
