import Muxide.Lemmas.Frag
import Muxide.Lemmas.BoxRoundTrip
/-
  Muxide.Lemmas.FragRead — reading back a media segment built by `buildSegment`:
  sizes, schema conformance of the moof tree, trun rows, sample slices.
-/
namespace Muxide
open Muxide.Spec Box

/-! ### sizes -/

theorem trunRow_length (whole : List FSample) (i : Nat) (s : FSample) : (trunRow whole i s).length = 16 := by
  simp [trunRow]

theorem rows_length (whole : List FSample) (ps : List (Nat × FSample)) :
    (ps.flatMap fun (i, s) => trunRow whole i s).length = 16 * ps.length := by
  induction ps with
  | nil => rfl
  | cons p ps ih => simp [List.flatMap_cons, ih, trunRow_length]; omega

theorem fTrun_pre_length (ss : List FSample) (off : Nat) : (fTrun ss off).pre.length = 12 + 16 * ss.length := by
  simp only [fTrun, leaf, Box.pre, List.length_append, u32be_length]
  rw [rows_length]
  simp

/-- the mdat box that `buildSegment` writes by hand -/
def fMdat (ss : List FSample) : Box := Box.mk (ascii "mdat") (ss.flatMap (·.data)) []

theorem flatMap_data_length (ss : List FSample) :
    (ss.flatMap (·.data)).length = (ss.map (·.data.length)).sum := by
  induction ss with
  | nil => rfl
  | cons s ss ih => simp [List.flatMap_cons, ih]

theorem fMoof_size (ss : List FSample) (q b off : Nat) : (fMoof ss q b off).size = 88 + 16 * ss.length := by
  have := fTrun_pre_length ss off
  simp only [fTrun, leaf, Box.pre] at this
  simp only [fMoof, node, leaf, fMfhd, fTfhd, fTfdt, fTrun, Box.size, Box.sizes, this]
  simp
  omega

theorem fMoof_ser_length (ss : List FSample) (q b off : Nat) :
    (fMoof ss q b off).ser.length = 88 + 16 * ss.length := by
  have := fTrun_pre_length ss off
  simp only [fTrun, leaf, Box.pre] at this
  simp only [fMoof, node, leaf, fMfhd, fTfhd, fTfdt, fTrun, Box.ser, Box.sers, List.length_append, this]
  have e : (ascii "moof").length = 4 ∧ (ascii "mfhd").length = 4 ∧ (ascii "traf").length = 4 ∧
      (ascii "tfhd").length = 4 ∧ (ascii "tfdt").length = 4 ∧ (ascii "trun").length = 4 := by decide
  simp [e]
  omega

/-- the size of the moof does not depend on the value of the data offset (nor on seq / base) -/
theorem size_moof_indep (ss : List FSample) (q b off q' b' off' : Nat) :
    (fMoof ss q b off).ser.length = (fMoof ss q' b' off').ser.length := by
  rw [fMoof_ser_length, fMoof_ser_length]

/-- `buildSegment` is the serialisation of a moof box followed by an mdat box -/
theorem buildSegment_struct (ss : List FSample) (q b : Nat) :
    buildSegment ss q b =
      (fMoof ss q b ((fMoof ss q b 0).ser.length % 2^32 + 8)).ser ++
        u32be (8 + (ss.map (·.data.length)).sum) ++ ascii "mdat" ++ ss.flatMap (·.data) := rfl

theorem buildSegment_sers (ss : List FSample) (q b : Nat) :
    buildSegment ss q b =
      Box.sers [fMoof ss q b ((fMoof ss q b 0).ser.length % 2^32 + 8), fMdat ss] := by
  simp [buildSegment_struct, Box.sers, fMdat, Box.ser, Box.sizes]

theorem buildSegment_length (ss : List FSample) (q b : Nat) :
    (buildSegment ss q b).length = 88 + 16 * ss.length + 8 + (ss.map (·.data.length)).sum := by
  rw [buildSegment_struct]
  have e : (ascii "mdat").length = 4 := by decide
  simp [fMoof_ser_length, e]
  omega

/-! ### schema conformance -/

theorem fMoof_conforms (ss : List FSample) (q b off : Nat) (h : 88 + 16 * ss.length < 2^32) :
    Conforms isoSchema (fMoof ss q b off) := by
  have hp := fTrun_pre_length ss off
  simp only [fTrun, leaf, Box.pre] at hp
  have e : (ascii "moof").length = 4 ∧ (ascii "mfhd").length = 4 ∧ (ascii "traf").length = 4 ∧
      (ascii "tfhd").length = 4 ∧ (ascii "tfdt").length = 4 ∧ (ascii "trun").length = 4 := by decide
  have s : isoSchema (ascii "moof") = some 0 ∧ isoSchema (ascii "traf") = some 0 ∧
      isoSchema (ascii "mfhd") = none ∧ isoSchema (ascii "tfhd") = none ∧
      isoSchema (ascii "tfdt") = none ∧ isoSchema (ascii "trun") = none := by decide
  simp only [fMoof, node, leaf, fMfhd, fTfhd, fTfdt, fTrun, Conforms, ConformsL, Box.sizes, Box.size, hp, e, s]
  simp
  omega

theorem fMdat_conforms (ss : List FSample) (h : 8 + (ss.map (·.data.length)).sum < 2^32) :
    Conforms isoSchema (fMdat ss) := by
  have e : (ascii "mdat").length = 4 := by decide
  have s : isoSchema (ascii "mdat") = none := by decide
  simp only [fMdat, Conforms, ConformsL, Box.sizes, e, s, flatMap_data_length]
  simp
  omega

theorem parseFileTree_buildSegment (ss : List FSample) (q b : Nat)
    (h1 : 88 + 16 * ss.length < 2^32) (h2 : 8 + (ss.map (·.data.length)).sum < 2^32) :
    parseFileTree (buildSegment ss q b) =
      some [fMoof ss q b ((fMoof ss q b 0).ser.length % 2^32 + 8), fMdat ss] := by
  unfold parseFileTree
  rw [buildSegment_sers]
  apply parseBoxes_sers
  · exact ⟨fMoof_conforms ss q b _ h1, fMdat_conforms ss h2, trivial⟩
  · simp [depthL, depth, fMoof, fMdat, node, leaf, fMfhd, fTfhd, fTfdt, fTrun, maxDepth]
    omega

/-! ### composition offsets and trun rows -/

theorem toI32_lt (n : Nat) (h : n < 2^32) : -2^31 ≤ toI32 n ∧ toI32 n < 2^31 := by
  unfold toI32; split <;> omega

theorem ctsWrap_range (p d : Nat) : -2^31 ≤ ctsWrap p d ∧ ctsWrap p d < 2^31 := by
  unfold ctsWrap
  apply toI32_lt
  omega

theorem ctsWrap_exact (p d : Nat) (h1 : -2^31 ≤ (p : Int) - d) (h2 : (p : Int) - d < 2^31) :
    ctsWrap p d = (p : Int) - d := by
  unfold ctsWrap toI32
  split <;> omega

theorem toI32_wrap (z : Int) (h1 : -2^31 ≤ z) (h2 : z < 2^31) : toI32 (z % (2^32 : Int)).toNat = z := by
  unfold toI32
  split <;> omega

theorem readU32_i32be (z : Int) (rest : Bytes) :
    readU32 (i32be z ++ rest) = some ((z % (2^32 : Int)).toNat, rest) := by
  unfold i32be
  apply readU32_u32be
  omega

/-- the row the reader must see for sample `s` at index `i` -/
def specRow (whole : List FSample) (i : Nat) (s : FSample) : TrunRow :=
  ⟨some (trunDuration whole i % 2^32), some (s.data.length % 2^32),
   some (if s.sync then 0x02000000 else 0x01010000), some (ctsWrap s.pts s.dts)⟩

theorem readRows_rows (whole : List FSample) (ps : List (Nat × FSample)) (rest : Bytes) :
    readRows 0xF01 1 ps.length ((ps.flatMap fun p => trunRow whole p.1 p.2) ++ rest) =
      some (ps.map fun p => specRow whole p.1 p.2, rest) := by
  induction ps with
  | nil => simp [readRows]
  | cons p ps ih =>
    obtain ⟨i, s⟩ := p
    have hf : (if s.sync = true then 33554432 else 16842752 : Nat) < 2^32 := by split <;> omega
    simp only [List.flatMap_cons, List.length_cons, readRows, List.append_assoc, if_true]
    simp only [trunRow, List.append_assoc] at ih ⊢
    rw [u32be_mod (trunDuration whole i), u32be_mod s.data.length]
    rw [readU32_u32be _ (Nat.mod_lt _ (by decide))]
    simp only [Option.map_some, Option.bind_eq_bind, Option.bind_some]
    rw [readU32_u32be _ (Nat.mod_lt _ (by decide))]
    simp only [Option.map_some, Option.bind_some]
    rw [readU32_u32be _ hf]
    simp only [Option.map_some, Option.bind_some]
    rw [readU32_i32be]
    simp only [Option.map_some, Option.bind_some]
    rw [ih]
    have hc := ctsWrap_range s.pts s.dts
    have hw := toI32_wrap _ hc.1 hc.2
    simp [specRow]
    simpa using hw

/-! ### parsing the segment -/

theorem some_bind' {α β} (a : α) (f : α → Option β) : (some a >>= f) = f a := rfl

theorem child_moof (ss : List FSample) (q b off : Nat) :
    child? "moof" [fMoof ss q b off, fMdat ss] = some (fMoof ss q b off) := by
  have : (ascii "moof" = tag "moof") := by decide
  simp [child?, fMoof, node, Box.typ, this]

theorem fMoof_kids (ss : List FSample) (q b off : Nat) :
    (fMoof ss q b off).kids = [fMfhd q, node "traf" [] [fTfhd, fTfdt b, fTrun ss off]] := rfl

theorem child_mfhd (q : Nat) (t : Box) : child? "mfhd" [fMfhd q, t] = some (fMfhd q) := by
  have : (ascii "mfhd" = tag "mfhd") := by decide
  simp [child?, fMfhd, leaf, Box.typ, this]

theorem child_traf (q : Nat) (ks : List Box) : child? "traf" [fMfhd q, node "traf" [] ks] = some (node "traf" [] ks) := by
  have h1 : ¬ (ascii "mfhd" = tag "traf") := by decide
  have h2 : (ascii "traf" = tag "traf") := by decide
  simp [child?, fMfhd, leaf, node, Box.typ, h1, h2]

theorem traf_kids (ks : List Box) : (node "traf" [] ks).kids = ks := rfl

theorem child_tfhd (a c : Box) : child? "tfhd" [fTfhd, a, c] = some fTfhd := by
  have h2 : (ascii "tfhd" = tag "tfhd") := by decide
  simp [child?, fTfhd, leaf, Box.typ, h2]

theorem child_tfdt (b : Nat) (c : Box) : child? "tfdt" [fTfhd, fTfdt b, c] = some (fTfdt b) := by
  have h1 : ¬ (ascii "tfhd" = tag "tfdt") := by decide
  have h2 : (ascii "tfdt" = tag "tfdt") := by decide
  simp [child?, fTfhd, fTfdt, leaf, Box.typ, h1, h2]

theorem child_trun (b : Nat) (ss : List FSample) (off : Nat) :
    child? "trun" [fTfhd, fTfdt b, fTrun ss off] = some (fTrun ss off) := by
  have h1 : ¬ (ascii "tfhd" = tag "trun") := by decide
  have h2 : ¬ (ascii "tfdt" = tag "trun") := by decide
  have h3 : (ascii "trun" = tag "trun") := by decide
  simp [child?, fTfhd, fTfdt, fTrun, leaf, Box.typ, h1, h2, h3]

theorem fullBox_u32be (vf : Nat) (h : vf < 2^32) (rest : Bytes) :
    fullBox (u32be vf ++ rest) = some (vf / 2^24, vf % 2^24, rest) := by
  simp [fullBox, readU32_u32be _ h]

theorem mfhd_pre (q : Nat) : (fMfhd q).pre = u32be 0 ++ (u32be q ++ []) := by simp [fMfhd, leaf, Box.pre]
theorem tfhd_pre : fTfhd.pre = u32be 0x00020000 ++ (u32be 1 ++ []) := by simp [fTfhd, leaf, Box.pre]
theorem tfdt_pre (b : Nat) : (fTfdt b).pre = u32be 0x01000000 ++ (u64be b ++ []) := by simp [fTfdt, leaf, Box.pre]
theorem trun_pre (ss : List FSample) (off : Nat) : (fTrun ss off).pre =
    u32be 0x01000F01 ++ (u32be ss.length ++ (u32be off ++
      (((List.zip (List.range ss.length) ss).flatMap fun p => trunRow ss p.1 p.2) ++ []))) := by
  simp [fTrun, leaf, Box.pre]

theorem parseSegment_buildSegment (ss : List FSample) (q b : Nat)
    (h1 : 96 + 16 * ss.length < 2^31) (h2 : 8 + (ss.map (·.data.length)).sum < 2^32) (hb : b < 2^64) :
    parseSegment (buildSegment ss q b) =
      some ⟨[fMoof ss q b (96 + 16 * ss.length), fMdat ss], q % 2^32, 0x20000, 1, b,
        some (96 + 16 * ss.length : Nat), (List.zip (List.range ss.length) ss).map fun p => specRow ss p.1 p.2⟩ := by
  have hoff : (fMoof ss q b 0).ser.length % 2^32 + 8 = 96 + 16 * ss.length := by
    rw [fMoof_ser_length]; omega
  unfold parseSegment
  rw [parseFileTree_buildSegment ss q b (by omega) h2, hoff]
  rw [some_bind']
  rw [child_moof, some_bind', fMoof_kids, child_mfhd, some_bind', mfhd_pre, fullBox_u32be 0 (by omega), some_bind']
  dsimp only
  rw [u32be_mod q, readU32_u32be _ (Nat.mod_lt _ (by decide)), some_bind']
  dsimp only
  rw [child_traf, some_bind', traf_kids, child_tfhd, some_bind', tfhd_pre, fullBox_u32be _ (by omega), some_bind']
  dsimp only
  rw [readU32_u32be 1 (by omega), some_bind']
  dsimp only
  rw [child_tfdt, some_bind', tfdt_pre, fullBox_u32be _ (by omega), some_bind']
  dsimp only
  rw [if_pos (by decide), readU64_u64be b hb, some_bind']
  dsimp only
  rw [if_neg (by simp), child_trun, some_bind', trun_pre, fullBox_u32be _ (by omega), some_bind']
  dsimp only
  rw [readU32_u32be _ (by omega), some_bind']
  dsimp only
  rw [if_pos (by decide), readU32_u32be _ (by omega), Option.map_some, some_bind']
  dsimp only
  rw [if_neg (by decide), some_bind']
  dsimp only
  have hlen : ((List.range ss.length).zip ss).length = ss.length := by simp
  have hr := readRows_rows ss ((List.range ss.length).zip ss) []
  rw [hlen] at hr
  have e1 : (16781057 % 2 ^ 24) = 0xF01 := by decide
  have e2 : (16781057 / 2 ^ 24) = 1 := by decide
  rw [e1, e2, hr, some_bind']
  dsimp only
  rw [if_neg (by simp)]
  have e3 : toI32 (96 + 16 * ss.length) = ((96 + 16 * ss.length : Nat) : Int) := by
    unfold toI32; rw [if_pos h1]
  rw [e3]

/-! ### sample bytes -/

theorem go_slices (pre post : Bytes) (xs : List Bytes) :
    Segment.sampleBytes.go (pre ++ xs.flatten ++ post) (xs.map List.length) pre.length = xs := by
  induction xs generalizing pre with
  | nil => simp [Segment.sampleBytes.go]
  | cons x xs ih =>
    simp only [List.map_cons, Segment.sampleBytes.go, List.flatten_cons]
    congr 1
    · simp [slice]
    · have := ih (pre ++ x)
      simpa using this

theorem sizes_eq (whole : List FSample) (ps : List (Nat × FSample)) (h : ∀ p ∈ ps, p.2.data.length < 2^32) :
    (ps.map fun p => specRow whole p.1 p.2).map (fun r => r.size.getD 0) = ps.map (·.2.data.length) := by
  induction ps with
  | nil => rfl
  | cons p ps ih =>
    simp only [List.map_cons]
    rw [ih (fun p hp => h p (by simp [hp]))]
    simp [specRow, Nat.mod_eq_of_lt (h p (by simp))]

theorem zip_range_snd (ss : List FSample) : ((List.range ss.length).zip ss).map (·.2) = ss := by
  simp [List.map_snd_zip]

theorem le_sum_of_mem (l : List Nat) (x : Nat) (h : x ∈ l) : x ≤ l.sum := by
  induction l with
  | nil => simp at h
  | cons y l ih =>
    simp only [List.mem_cons] at h
    simp only [List.sum_cons]
    rcases h with rfl | h
    · omega
    · have := ih h; omega

theorem topLayout_moof (m d : Box) (h : m.typ = tag "moof") :
    ((topLayout [m, d] 0).find? (·.1 = tag "moof")).map (·.2.1) = some 0 := by
  simp [topLayout, h]

theorem sampleBytes_buildSegment (ss : List FSample) (q b : Nat)
    (h1 : 96 + 16 * ss.length < 2^31) (h2 : 8 + (ss.map (·.data.length)).sum < 2^32) (hb : b < 2^64) :
    (parseSegment (buildSegment ss q b)).bind (·.sampleBytes (buildSegment ss q b)) = some (ss.map (·.data)) := by
  rw [parseSegment_buildSegment ss q b h1 h2 hb, Option.bind_some]
  unfold Segment.sampleBytes
  dsimp only
  rw [topLayout_moof _ _ (show (fMoof ss q b (96 + 16 * ss.length)).typ = tag "moof" by simp only [fMoof, node, Box.typ]; decide)]
  dsimp only
  have hsz : ∀ p ∈ (List.range ss.length).zip ss, p.2.data.length < 2^32 := by
    intro p hp
    have hm : p.2 ∈ ss := (List.of_mem_zip hp).2
    have := le_sum_of_mem (ss.map (·.data.length)) p.2.data.length (List.mem_map_of_mem hm)
    omega
  rw [sizes_eq ss _ hsz]
  have e : ((List.range ss.length).zip ss).map (fun p => p.2.data.length) = ss.map (·.data.length) := by
    have := congrArg (List.map fun (s : FSample) => s.data.length) (zip_range_snd ss)
    simpa [List.map_map, Function.comp_def] using this
  rw [e]
  have hN : (((96 + 16 * ss.length : Nat) : Int) ≥ 0) := by omega
  have hl := buildSegment_length ss q b
  rw [if_pos ⟨by decide, hN⟩, if_pos (by rw [hl]; simp; omega)]
  congr 1
  have hpre : (0 + ((96 + 16 * ss.length : Nat) : Int).toNat) =
      ((fMoof ss q b ((fMoof ss q b 0).ser.length % 2^32 + 8)).ser ++
        u32be (8 + (ss.map (·.data.length)).sum) ++ ascii "mdat").length := by
    have e : (ascii "mdat").length = 4 := by decide
    rw [Int.toNat_natCast]
    simp [fMoof_ser_length, e]
    omega
  have := go_slices ((fMoof ss q b ((fMoof ss q b 0).ser.length % 2^32 + 8)).ser ++
        u32be (8 + (ss.map (·.data.length)).sum) ++ ascii "mdat") [] (ss.map (·.data))
  rw [hpre, buildSegment_struct]
  simpa [List.flatMap_def, List.map_map, Function.comp_def] using this

/-! ### durations, flags -/

/-- dts of the j-th sample (0 when out of range), as used by `trunDuration` -/
def dtsAt (ss : List FSample) (j : Nat) : Nat := (ss[j]?.map (·.dts)).getD 0

def lastDtsOf (ss : List FSample) : Nat := (ss.getLast?.map (·.dts)).getD 0

theorem firstDts_eq (ss : List FSample) : firstDts ss = dtsAt ss 0 := by
  simp [firstDts, dtsAt, List.head?_eq_getElem?]

theorem lastDtsOf_eq (ss : List FSample) : lastDtsOf ss = dtsAt ss (ss.length - 1) := by
  simp [lastDtsOf, dtsAt, List.getLast?_eq_getElem?]

theorem trunDuration_succ (ss : List FSample) (i : Nat) (h : i + 1 < ss.length) :
    trunDuration ss i = dtsAt ss (i + 1) - dtsAt ss i := by
  simp [trunDuration, h, dtsAt]

theorem dtsAt_mono (ss : List FSample) (hs : ss.Pairwise (fun a b => a.dts ≤ b.dts)) (i j : Nat)
    (hij : i ≤ j) (hj : j < ss.length) : dtsAt ss i ≤ dtsAt ss j := by
  have hi : i < ss.length := by omega
  simp only [dtsAt, List.getElem?_eq_getElem hi, List.getElem?_eq_getElem hj, Option.map_some, Option.getD_some]
  rcases Nat.lt_or_eq_of_le hij with h | h
  · exact (List.pairwise_iff_getElem.mp hs) i j hi hj h
  · subst h; exact Nat.le_refl _

/-- telescoping: the durations of the first m samples add up to dts_m − dts_0 -/
theorem trun_telescope (ss : List FSample) (hs : ss.Pairwise (fun a b => a.dts ≤ b.dts)) (m : Nat)
    (hm : m < ss.length) : dtsAt ss 0 + ((List.range m).map (trunDuration ss)).sum = dtsAt ss m := by
  induction m with
  | zero => simp
  | succ m ih =>
    rw [List.range_succ, List.map_append, List.sum_append, ← Nat.add_assoc, ih (by omega)]
    simp only [List.map_cons, List.map_nil, List.sum_cons, List.sum_nil, Nat.add_zero]
    rw [trunDuration_succ ss m hm]
    have := dtsAt_mono ss hs m (m + 1) (by omega) hm
    omega

/-- base + Σ durations of all but the last sample = dts of the last sample -/
theorem trun_span (ss : List FSample) (hs : ss.Pairwise (fun a b => a.dts ≤ b.dts)) (hne : ss ≠ []) :
    firstDts ss + ((List.range (ss.length - 1)).map (trunDuration ss)).sum = lastDtsOf ss := by
  rw [firstDts_eq, lastDtsOf_eq]
  have : 0 < ss.length := List.length_pos_iff.mpr hne
  exact trun_telescope ss hs _ (by omega)

theorem nonSync_flags (sync : Bool) : nonSync (if sync then 0x02000000 else 0x01010000) = !sync := by
  cases sync <;> decide

theorem rows_getElem (ss : List FSample) (i : Nat) (h : i < ss.length) :
    ((List.zip (List.range ss.length) ss).map fun p => specRow ss p.1 p.2)[i]? = some (specRow ss i ss[i]) := by
  simp [h]

/-! ### the mdat size field can wrap -/

theorem parseBox_small_size (fuel : Nat) (n : Nat) (h : n % 2^32 < 8) (rest : Bytes) :
    parseBox isoSchema fuel (u32be n ++ rest) = none := by
  cases fuel with
  | zero => rfl
  | succ fuel =>
    simp only [parseBox]
    rw [u32be_mod, readU32_u32be _ (Nat.mod_lt _ (by decide))]
    simp only
    rw [if_pos h]

theorem parseBoxes_head_none (sc : Schema) (fuel : Nat) (d : Bytes) (hb : parseBox sc fuel d = none) :
    parseBoxes sc (fuel + 1) d = if d = [] then some [] else none := by
  simp only [parseBoxes, hb]

theorem parseBoxes_tail_none (sc : Schema) (fuel : Nat) (d : Bytes) (b : Box) (rest : Bytes) (h : d ≠ [])
    (hb : parseBox sc fuel d = some (b, rest)) (hr : parseBoxes sc fuel rest = none) :
    parseBoxes sc (fuel + 1) d = none := by
  simp only [parseBoxes, h, if_false, hb, hr]

theorem parseBoxes_small_size (fuel : Nat) (n : Nat) (h : n % 2^32 < 8) (rest : Bytes) :
    parseBoxes isoSchema fuel (u32be n ++ rest) = none := by
  cases fuel with
  | zero => rfl
  | succ fuel =>
    have hne : u32be n ++ rest ≠ [] := by simp [u32be]
    rw [parseBoxes_head_none _ _ _ (parseBox_small_size _ _ h _), if_neg hne]

/-- when `8 + Σ payload` wraps the 32-bit mdat size field to a value below 8, the segment is not
    even a well-formed box sequence: the reader rejects it -/
theorem parseSegment_mdat_overflow (ss : List FSample) (q b : Nat) (h1 : 88 + 16 * ss.length < 2^32)
    (h2 : (8 + (ss.map (·.data.length)).sum) % 2^32 < 8) :
    parseSegment (buildSegment ss q b) = none := by
  have ht : parseFileTree (buildSegment ss q b) = none := by
    unfold parseFileTree
    rw [buildSegment_struct]
    have hd : depth (fMoof ss q b ((fMoof ss q b 0).ser.length % 2 ^ 32 + 8)) = 8 := by
      simp [depth, depthL, fMoof, node, leaf, fMfhd, fTfhd, fTfdt, fTrun]
    have hm : maxDepth = 16 := rfl
    have hne : (fMoof ss q b ((fMoof ss q b 0).ser.length % 2 ^ 32 + 8)).ser ++
          u32be (8 + (ss.map (·.data.length)).sum) ++ ascii "mdat" ++ ss.flatMap (·.data) ≠ [] := by
      simp [ser_ne_nil]
    generalize hL : ((fMoof ss q b ((fMoof ss q b 0).ser.length % 2 ^ 32 + 8)).ser ++
          u32be (8 + (ss.map (·.data.length)).sum) ++ ascii "mdat" ++ ss.flatMap (·.data)).length = L
    have hfu : 2 * maxDepth + L + 2 = (L + 33) + 1 := by rw [hm]; omega
    rw [hfu]
    apply parseBoxes_tail_none _ _ _ _ _ hne
    · simp only [List.append_assoc]
      exact parseBox_ser _ _ _ (fMoof_conforms ss q b _ h1) (by rw [hd]; omega)
    · exact parseBoxes_small_size _ _ h2 _
  unfold parseSegment
  rw [ht]
  rfl

end Muxide
