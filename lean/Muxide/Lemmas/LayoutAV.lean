import Muxide.Lemmas.Offsets
/- Muxide.Lemmas.Layout — serialised length of box trees; the length of the moov does not depend
   on the chunk-offset values; shape of the outputs of the two progressive finalize layouts. -/
namespace Muxide
open Box

theorem Box.ser_length (t p : Bytes) (ks : List Box) :
    (Box.mk t p ks).ser.length = 4 + t.length + p.length + (Box.sers ks).length := by
  simp [Box.ser]; omega

@[simp] theorem Box.sers_nil_length : (Box.sers []).length = 0 := by simp [Box.sers]

theorem Box.sers_cons_length (b : Box) (bs : List Box) :
    (Box.sers (b :: bs)).length = b.ser.length + (Box.sers bs).length := by
  simp [Box.sers]

theorem Box.sers_append_length (xs ys : List Box) :
    (Box.sers (xs ++ ys)).length = (Box.sers xs).length + (Box.sers ys).length := by
  induction xs with
  | nil => simp
  | cons b bs ih => simp [Box.sers_cons_length, ih]; omega

theorem flatMap_u32be_length (l : List Nat) : (l.flatMap u32be).length = 4 * l.length := by
  induction l with
  | nil => rfl
  | cons x xs ih => simp [List.flatMap_cons, ih]; omega

theorem bStco_ser_length (offs : List Nat) : (bStco offs).ser.length = 16 + 4 * offs.length := by
  simp only [bStco, Box.leaf, Box.ser_length, List.length_append, flatMap_u32be_length, u32be_length,
    Box.sers_nil_length]
  have : (ascii "stco").length = 4 := by decide
  omega

theorem bVideoStbl_ser_length (w h : Nat) (t : Tables) (vc : VideoConfig) (o' : List Nat)
    (ho : o'.length = t.chunkOffsets.length) :
    (bVideoStbl w h { t with chunkOffsets := o' } vc).ser.length = (bVideoStbl w h t vc).ser.length := by
  simp only [bVideoStbl, Box.node, Box.ser_length, Box.sers_append_length, Box.sers_cons_length,
    Box.sers_nil_length, bStco_ser_length, ho]

theorem bAudioStbl_ser_length (a : AudioTrack) (t : Tables) (o' : List Nat)
    (ho : o'.length = t.chunkOffsets.length) :
    (bAudioStbl a { t with chunkOffsets := o' }).ser.length = (bAudioStbl a t).ser.length := by
  simp only [bAudioStbl, Box.node, Box.ser_length, Box.sers_cons_length,
    Box.sers_nil_length, bStco_ser_length, ho]

theorem bVideoTrak_ser_length (w h : Nat) (t : Tables) (vc : VideoConfig) (lang : Option (List Nat))
    (o' : List Nat) (ho : o'.length = t.chunkOffsets.length) :
    (bVideoTrak w h { t with chunkOffsets := o' } vc lang).ser.length = (bVideoTrak w h t vc lang).ser.length := by
  simp only [bVideoTrak, Box.node, Box.ser_length, Box.sers_cons_length,
    Box.sers_nil_length, bVideoStbl_ser_length w h t vc o' ho, Tables.totalDuration]

theorem bAudioTrak_ser_length (a : AudioTrack) (t : Tables) (lang : Option (List Nat))
    (o' : List Nat) (ho : o'.length = t.chunkOffsets.length) :
    (bAudioTrak a { t with chunkOffsets := o' } lang).ser.length = (bAudioTrak a t lang).ser.length := by
  simp only [bAudioTrak, Box.node, Box.ser_length, Box.sers_cons_length,
    Box.sers_nil_length, bAudioStbl_ser_length a t o' ho, Tables.totalDuration]

/-- the serialised length of the moov depends on the chunk offsets only through their number -/
theorem bMoov_ser_length (w h : Nat) (vt : Tables) (au : Option (AudioTrack × Tables)) (vc : VideoConfig)
    (md : Option Metadata) (vo' ao' : List Nat) (hv : vo'.length = vt.chunkOffsets.length)
    (ha : ∀ x ∈ au, ao'.length = x.2.chunkOffsets.length) :
    (bMoov w h { vt with chunkOffsets := vo' }
        (au.map fun x => (x.1, { x.2 with chunkOffsets := ao' })) vc md).ser.length
      = (bMoov w h vt au vc md).ser.length := by
  cases au with
  | none =>
    simp only [bMoov, Option.map_none, Box.node, Box.ser_length, Box.sers_append_length, Box.sers_cons_length,
      Box.sers_nil_length, bVideoTrak_ser_length w h vt vc _ vo' hv, Tables.totalDuration]
  | some x =>
    obtain ⟨a, t⟩ := x
    have ha' : ao'.length = t.chunkOffsets.length := ha (a, t) rfl
    simp only [bMoov, Option.map_some, Box.node, Box.ser_length, Box.sers_append_length, Box.sers_cons_length,
      Box.sers_nil_length, bVideoTrak_ser_length w h vt vc _ vo' hv, bAudioTrak_ser_length a t _ ao' ha',
      Tables.totalDuration, Option.isSome_some]

/-! ### shape of the successful outputs of the two progressive layouts -/

theorem finalizeStandard_av_ok (w : Writer) (width height : Nat) (md : Option Metadata) (vc : VideoConfig)
    (tr : AudioTrack) (ha : w.audio = some tr)
    (hok : (finalizeStandard w width height md vc).res = .ok) :
    let vs := w.vsRev.reverse
    let aus := w.asRev.reverse
    let payload := (vs.map (·.data.length)).sum + (aus.map (·.data.length)).sum
    let o := assignOffsets (entSize vs aus) (schedule vs aus) (ftypLen + 8)
    8 + payload ≤ u32Max ∧
    (finalizeStandard w width height md vc).chunks =
      [bFtyp.ser] ++ mdatHeader payload ++ (schedule vs aus).map (entData vs aus) ++
      [(bMoov width height (Tables.ofSamples vs o.1 1 w.vLastDelta)
          (some (tr, Tables.ofSamples aus o.2 1 w.aLastDelta)) vc md).ser] := by
  intro vs aus payload o
  unfold finalizeStandard at hok ⊢
  simp only [ha] at hok ⊢
  split at hok
  · simp at hok
  · next h1 =>
    rw [if_neg h1]
    split at hok
    · simp at hok
    · next h1' =>
      rw [if_neg h1']
      split at hok
      · simp at hok
      · next h2 =>
        rw [if_neg h2]
        refine ⟨Nat.not_lt.mp h1, ?_⟩
        rfl

/-- a successful standard A/V finalize also passed the chunk-offset guard -/
theorem finalizeStandard_av_ok_offset (w : Writer) (width height : Nat) (md : Option Metadata) (vc : VideoConfig)
    (tr : AudioTrack) (ha : w.audio = some tr)
    (hok : (finalizeStandard w width height md vc).res = .ok) :
    ftypLen + 8 + ((w.vsRev.reverse.map (·.data.length)).sum + (w.asRev.reverse.map (·.data.length)).sum)
      ≤ u32Max := by
  unfold finalizeStandard at hok
  simp only [ha] at hok
  split at hok
  · simp at hok
  · split at hok
    · simp at hok
    · next h1' => exact Nat.not_lt.mp h1'

theorem finalizeStandard_video_ok (w : Writer) (width height : Nat) (md : Option Metadata) (vc : VideoConfig)
    (ha : w.audio = none)
    (hok : (finalizeStandard w width height md vc).res = .ok) :
    let vs := w.vsRev.reverse
    let payload := (vs.map (·.data.length)).sum
    (vs ≠ [] → 8 + payload ≤ u32Max) ∧
    (finalizeStandard w width height md vc).chunks =
      [bFtyp.ser] ++ (if vs ≠ [] then mdatHeader payload ++ vs.map (·.data) else []) ++
      [(bMoov width height (Tables.ofSamples vs (if vs ≠ [] then [ftypLen + 8] else [])
          (if vs ≠ [] then vs.length else 0) w.vLastDelta) none vc md).ser] := by
  intro vs payload
  unfold finalizeStandard at hok ⊢
  simp only [ha] at hok ⊢
  split at hok
  · simp at hok
  · next h1 =>
    rw [if_neg h1]
    split at hok
    · simp at hok
    · next h2 =>
      rw [if_neg h2]
      refine ⟨fun hne => Nat.not_lt.mp (fun hh => h1 ⟨hne, hh⟩), ?_⟩
      by_cases hne : w.vsRev.reverse ≠ []
      · simp only [vs, payload, if_pos hne]; simp
      · simp only [vs, payload, if_neg hne]; simp

theorem finalizeFastStart_av_ok (w : Writer) (width height : Nat) (md : Option Metadata) (vc : VideoConfig)
    (tr : AudioTrack) (ha : w.audio = some tr)
    (hok : (finalizeFastStart w width height md vc).res = .ok) :
    let vs := w.vsRev.reverse
    let aus := w.asRev.reverse
    let payload := (vs.map (·.data.length)).sum + (aus.map (·.data.length)).sum
    let ph := assignOffsets (fun _ => 1) (schedule vs aus) 0
    let placeholder := bMoov width height (Tables.ofSamples vs ph.1 1 w.vLastDelta)
      (some (tr, Tables.ofSamples aus ph.2 1 w.aLastDelta)) vc md
    let start := ftypLen + placeholder.ser.length + 8
    let o := assignOffsets (entSize vs aus) (schedule vs aus) start
    8 + payload ≤ u32Max ∧ maxPushed (entSize vs aus) (schedule vs aus) start ≤ u32Max ∧
    (finalizeFastStart w width height md vc).chunks =
      [bFtyp.ser, (bMoov width height (Tables.ofSamples vs o.1 1 w.vLastDelta)
          (some (tr, Tables.ofSamples aus o.2 1 w.aLastDelta)) vc md).ser] ++
      mdatHeader payload ++ (schedule vs aus).map (entData vs aus) := by
  intro vs aus payload ph placeholder start o
  unfold finalizeFastStart at hok ⊢
  simp only [ha] at hok ⊢
  split at hok
  · simp at hok
  · next h1 =>
    rw [if_neg h1]
    split at hok
    · simp at hok
    · next h2 =>
      rw [if_neg h2]
      split at hok
      · simp at hok
      · next h3 =>
        rw [if_neg h3]
        exact ⟨Nat.not_lt.mp h1, Nat.not_lt.mp h3, rfl⟩

theorem finalizeFastStart_video_ok (w : Writer) (width height : Nat) (md : Option Metadata) (vc : VideoConfig)
    (ha : w.audio = none)
    (hok : (finalizeFastStart w width height md vc).res = .ok) :
    let vs := w.vsRev.reverse
    let aus := w.asRev.reverse
    let payload := (vs.map (·.data.length)).sum + (aus.map (·.data.length)).sum
    let spc := if vs ≠ [] then vs.length else 0
    let placeholder := bMoov width height (Tables.ofSamples vs (if vs ≠ [] then [0] else []) spc w.vLastDelta) none vc md
    let start := ftypLen + placeholder.ser.length + 8
    8 + payload ≤ u32Max ∧ (vs ≠ [] → start ≤ u32Max) ∧
    (finalizeFastStart w width height md vc).chunks =
      [bFtyp.ser, (bMoov width height (Tables.ofSamples vs (if vs ≠ [] then [start] else []) spc w.vLastDelta)
          none vc md).ser] ++ mdatHeader payload ++ vs.map (·.data) := by
  intro vs aus payload spc placeholder start
  unfold finalizeFastStart at hok ⊢
  simp only [ha] at hok ⊢
  split at hok
  · simp at hok
  · next h1 =>
    rw [if_neg h1]
    split at hok
    · simp at hok
    · next h2 =>
      rw [if_neg h2]
      by_cases hne : w.vsRev.reverse ≠ []
      · simp only [if_pos hne] at hok ⊢
        split at hok
        · simp at hok
        · next h3 =>
          rw [if_neg h3]
          refine ⟨Nat.not_lt.mp h1, fun _ => ?_, ?_⟩
          · simp only [start, placeholder, spc, vs, if_pos hne]
            exact Nat.not_lt.mp (fun hh => h3 ⟨hne, hh⟩)
          · simp only [start, placeholder, spc, vs, if_pos hne]; rfl
      · simp only [if_neg hne] at hok ⊢
        split at hok
        · simp at hok
        · next h3 =>
          rw [if_neg h3]
          refine ⟨Nat.not_lt.mp h1, fun h => absurd h hne, ?_⟩
          simp only [start, placeholder, spc, vs, if_neg hne]; rfl

/-! ### the two-pass placeholder construction -/

theorem assignOffsets_length_fst (step : Ent → Nat) (l : List Ent) (c : Nat) :
    (assignOffsets step l c).1.length = (l.filter (fun e => e.kind = 0)).length := by
  rw [assignOffsets_eq]
  rw [← filter_zip_map_fst (fun e => decide (e.kind = 0)) l (cursors step l c) (by simp)]
  simp

theorem assignOffsets_length_snd (step : Ent → Nat) (l : List Ent) (c : Nat) :
    (assignOffsets step l c).2.length = (l.filter (fun e => !decide (e.kind = 0))).length := by
  rw [assignOffsets_eq]
  rw [← filter_zip_map_fst (fun e => !decide (e.kind = 0)) l (cursors step l c) (by simp)]
  simp

theorem bFtyp_ser_length : bFtyp.ser.length = ftypLen := by decide

theorem mdatHeader_flatten_length (p : Nat) : (mdatHeader p).flatten.length = 8 := by
  have : (ascii "mdat").length = 4 := by decide
  simp [mdatHeader, this]

/-- A/V fast start: the moov measured on the placeholder offsets 0,1,2,… has the length of the
    final moov, whatever the samples, the metadata and the offsets -/
theorem placeholder_length_av (width height : Nat) (vs aus : List Sample) (tr : AudioTrack)
    (fb fb' : Option Nat) (vc : VideoConfig) (md : Option Metadata) (sched : List Ent)
    (step step' : Ent → Nat) (c c' : Nat) :
    (bMoov width height (Tables.ofSamples vs (assignOffsets step sched c).1 1 fb)
        (some (tr, Tables.ofSamples aus (assignOffsets step sched c).2 1 fb')) vc md).ser.length =
    (bMoov width height (Tables.ofSamples vs (assignOffsets step' sched c').1 1 fb)
        (some (tr, Tables.ofSamples aus (assignOffsets step' sched c').2 1 fb')) vc md).ser.length := by
  exact bMoov_ser_length width height (Tables.ofSamples vs (assignOffsets step' sched c').1 1 fb)
    (some (tr, Tables.ofSamples aus (assignOffsets step' sched c').2 1 fb')) vc md
    (assignOffsets step sched c).1 (assignOffsets step sched c).2
    (by simp only [Tables.ofSamples]; rw [assignOffsets_length_fst, assignOffsets_length_fst])
    (by intro x hx; cases hx; simp only [Tables.ofSamples]; rw [assignOffsets_length_snd, assignOffsets_length_snd])

end Muxide
