import Muxide.Model.Mp4
import Muxide.Spec.Reader
/-
  Muxide.Lemmas.Tables — entry counts of the sample tables (`Tables.ofSamples`), run-length
  encoding, and the byte accounting of the interleave schedule.
-/
namespace Muxide
open Muxide.Spec

/-! ### run-length encoding -/
theorem expandRuns_append {α} (a b : List (Nat × α)) : expandRuns (a ++ b) = expandRuns a ++ expandRuns b := by
  simp [expandRuns]

theorem expandRuns_rleAux {α} [DecidableEq α] (xs : List α) (acc : List (Nat × α)) :
    expandRuns (rleAux xs acc) = expandRuns acc.reverse ++ xs := by
  induction xs generalizing acc with
  | nil => simp [rleAux]
  | cons x xs ih =>
    cases acc with
    | nil => simp only [rleAux]; rw [ih]; simp [expandRuns]
    | cons cy acc =>
      obtain ⟨c, y⟩ := cy
      simp only [rleAux]
      split
      · next h =>
        subst h
        rw [ih]
        simp [expandRuns, List.replicate_succ']
      · rw [ih]
        simp [expandRuns]

theorem counts_rleAux {α} [DecidableEq α] (xs : List α) (acc : List (Nat × α)) :
    ((rleAux xs acc).map (·.1)).sum = (acc.map (·.1)).sum + xs.length := by
  induction xs generalizing acc with
  | nil => simp [rleAux]
  | cons x xs ih =>
    cases acc with
    | nil => simp [rleAux, ih]; omega
    | cons cy acc =>
      obtain ⟨c, y⟩ := cy
      simp only [rleAux]
      split
      · rw [ih]; simp; omega
      · rw [ih]; simp; omega

theorem expandRuns_rle {α} [DecidableEq α] (xs : List α) : expandRuns (rle xs) = xs := by
  rw [rle, expandRuns_rleAux]; simp [expandRuns]

theorem counts_rle {α} [DecidableEq α] (xs : List α) : ((rle xs).map (·.1)).sum = xs.length := by
  simp [rle, counts_rleAux]

/-- every run of `rleAux` has a positive count when the accumulator's runs do -/
theorem rleAux_pos {α} [DecidableEq α] (xs : List α) (acc : List (Nat × α))
    (h : ∀ e ∈ acc, 0 < e.1) : ∀ e ∈ rleAux xs acc, 0 < e.1 := by
  induction xs generalizing acc with
  | nil => simpa [rleAux] using h
  | cons x xs ih =>
    cases acc with
    | nil => simp only [rleAux]; apply ih; simp
    | cons cy acc =>
      obtain ⟨c, y⟩ := cy
      simp only [rleAux]
      split
      · apply ih; intro e he
        simp at he
        rcases he with rfl | he
        · simp
        · exact h e (by simp [he])
      · apply ih; intro e he
        simp at he
        rcases he with rfl | he
        · simp
        · exact h e (by simpa using he)

theorem rle_pos {α} [DecidableEq α] (xs : List α) : ∀ e ∈ rle xs, 0 < e.1 :=
  rleAux_pos xs [] (by simp)

/-! ### entry counts -/
theorem durationsOf_length (samples : List Sample) (fb : Option Nat) :
    (durationsOf samples fb).length = samples.length := by
  simp [durationsOf]

theorem pairwise_zip_range {α} (l : List α) :
    List.Pairwise (fun a b => a.1 < b.1) (List.zip (List.range l.length) l) := by
  have h : List.Pairwise (· < ·) ((List.zip (List.range l.length) l).map Prod.fst) := by
    rw [List.map_fst_zip (by simp)]
    exact List.pairwise_lt_range
  exact (List.pairwise_map.mp h)

theorem keyframesOf_pairwise (samples : List Sample) : List.Pairwise (· < ·) (keyframesOf samples) := by
  unfold keyframesOf
  rw [List.pairwise_map]
  apply List.Pairwise.filter
  apply (pairwise_zip_range samples).imp
  rintro ⟨i, _⟩ ⟨j, _⟩ h; simp at h ⊢; omega

theorem keyframesOf_range (samples : List Sample) : ∀ k ∈ keyframesOf samples, 1 ≤ k ∧ k ≤ samples.length := by
  intro k hk
  simp only [keyframesOf, List.mem_map, List.mem_filter] at hk
  obtain ⟨⟨i, s⟩, ⟨hm, _⟩, rfl⟩ := hk
  have := (List.of_mem_zip hm).1
  simp at this
  omega


/-! ### byte accounting of the interleave schedule -/
theorem entData_length (vs aus : List Sample) (e : Ent) : (entData vs aus e).length = entSize vs aus e := by
  unfold entData entSize
  split
  · cases vs[e.idx]? <;> simp
  · cases aus[e.idx]? <;> simp

theorem length_flatMap_sum {α} (l : List α) (f : α → Bytes) :
    (l.flatMap f).length = (l.map fun a => (f a).length).sum := by
  induction l with
  | nil => rfl
  | cons a l ih => simp [ih]

theorem entsOf_map_size0 (vs aus : List Sample) :
    (entsOf 0 vs).map (entSize vs aus) = vs.map (·.data.length) := by
  apply List.ext_getElem
  · simp [entsOf]
  · intro i h1 h2
    simp [entsOf] at h1
    simp [entsOf, entSize, h1]

theorem entsOf_map_size1 (vs aus : List Sample) :
    (entsOf 1 aus).map (entSize vs aus) = aus.map (·.data.length) := by
  apply List.ext_getElem
  · simp [entsOf]
  · intro i h1 h2
    simp [entsOf] at h1
    simp [entsOf, entSize, h1]

theorem schedule_perm (vs aus : List Sample) : (schedule vs aus).Perm (entsOf 0 vs ++ entsOf 1 aus) :=
  List.mergeSort_perm _ _

theorem schedule_size_sum (vs aus : List Sample) :
    ((schedule vs aus).map (entSize vs aus)).sum =
      (vs.map (·.data.length)).sum + (aus.map (·.data.length)).sum := by
  rw [((schedule_perm vs aus).map (entSize vs aus)).sum_nat]
  simp [entsOf_map_size0, entsOf_map_size1]

/-- the stored interleaved payload has exactly the declared number of bytes -/
theorem schedule_payload_length (vs aus : List Sample) :
    ((schedule vs aus).flatMap (entData vs aus)).length =
      (vs.map (·.data.length)).sum + (aus.map (·.data.length)).sum := by
  rw [length_flatMap_sum]
  simp only [entData_length]
  exact schedule_size_sum vs aus

theorem assignOffsets_length (step : Ent → Nat) (es : List Ent) (cur : Nat) :
    (assignOffsets step es cur).1.length = (es.filter (·.kind = 0)).length ∧
    (assignOffsets step es cur).2.length = (es.filter (·.kind ≠ 0)).length := by
  induction es generalizing cur with
  | nil => simp [assignOffsets]
  | cons e es ih =>
    have := ih (cur + step e)
    simp only [assignOffsets]
    by_cases hk : e.kind = 0 <;> simp [hk, this]

theorem entsOf_kind (k : Nat) (l : List Sample) : ∀ e ∈ entsOf k l, e.kind = k := by
  intro e he
  simp only [entsOf, List.mem_map] at he
  obtain ⟨⟨i, s⟩, _, rfl⟩ := he
  rfl

theorem entsOf_length (k : Nat) (l : List Sample) : (entsOf k l).length = l.length := by
  simp [entsOf]

/-- with audio: one chunk offset per sample in each track -/
theorem schedule_offsets_length (step : Ent → Nat) (vs aus : List Sample) (cur : Nat) :
    (assignOffsets step (schedule vs aus) cur).1.length = vs.length ∧
    (assignOffsets step (schedule vs aus) cur).2.length = aus.length := by
  have h := assignOffsets_length step (schedule vs aus) cur
  have p := schedule_perm vs aus
  have f0 : (entsOf 0 vs).filter (fun e => decide (e.kind = 0)) = entsOf 0 vs :=
    List.filter_eq_self.mpr (by intro e he; simp [entsOf_kind 0 vs e he])
  have f1 : (entsOf 1 aus).filter (fun e => decide (e.kind = 0)) = [] :=
    List.filter_eq_nil_iff.mpr (by intro e he; simp [entsOf_kind 1 aus e he])
  have g0 : (entsOf 0 vs).filter (fun e => decide (e.kind ≠ 0)) = [] :=
    List.filter_eq_nil_iff.mpr (by intro e he; simp [entsOf_kind 0 vs e he])
  have g1 : (entsOf 1 aus).filter (fun e => decide (e.kind ≠ 0)) = entsOf 1 aus :=
    List.filter_eq_self.mpr (by intro e he; simp [entsOf_kind 1 aus e he])
  rw [h.1, h.2, (p.filter _).length_eq, (p.filter _).length_eq, List.filter_append, List.filter_append,
    f0, f1, g0, g1]
  simp [entsOf_length]

end Muxide
