import Muxide.Model.Api
import Muxide.Spec.Contract
import Mathlib.Tactic.Ring
import Mathlib.Tactic.Linarith
/-
  Muxide.Lemmas.F64 — facts about the soft-float model used by the API contract (C04):
  * `roundPos` (round-to-nearest-even of a positive rational) is monotone (`pre_mono`);
  * `F64.ticks` is monotone w.r.t. `F64.le` on finite non-negative values (`ticks_mono`);
  * `F64.lt x y = !F64.le y x` on finite values (`lt_eq_not_le`);
  * the model's `ticksRepresentable` equals the spec's exact `tickInRange` on genuine doubles
    (`ticksRepresentable_eq_tickInRange`), and differs on an unnormalised triple.
  Mathlib is used for `ring` / `positivity` / `linarith` only.
-/
namespace Muxide.F64
def pw (e : Int) : Nat := 2^e.toNat
def nw (e : Int) : Nat := 2^(-e).toNat
theorem pw_pos (e : Int) : 0 < pw e := Nat.two_pow_pos _
theorem nw_pos (e : Int) : 0 < nw e := Nat.two_pow_pos _
theorem pw_nw_le (e1 e2 : Int) (h : e2 ≤ e1) : pw e1 * nw e2 = 2^(e1 - e2).toNat * (pw e2 * nw e1) := by
  unfold pw nw
  rw [← Nat.pow_add, ← Nat.pow_add, ← Nat.pow_add]
  congr 1; omega

theorem pw_nw_succ (e : Int) : pw (e + 1) * nw e = 2 * (pw e * nw (e + 1)) := by
  have := pw_nw_le (e + 1) e (by omega)
  have h1 : (e + 1 - e).toNat = 1 := by omega
  rw [h1] at this; simpa using this

/-- `n/d < K·2^e` in cross-multiplied form -/
def below (n d K : Nat) (e : Int) : Prop := n * nw e < K * (d * pw e)

theorem below_succ (n d K : Nat) (e : Int) : below n d K (e + 1) ↔ below n d (2 * K) e := by
  unfold below
  have h := pw_nw_succ e
  have hN := nw_pos e; have hN' := nw_pos (e + 1)
  constructor
  · intro hb
    have h1 : n * nw (e + 1) * nw e < K * (d * pw (e + 1)) * nw e := Nat.mul_lt_mul_of_pos_right hb hN
    have h2 : K * (d * pw (e + 1)) * nw e = (2 * K * (d * pw e)) * nw (e + 1) := by
      calc K * (d * pw (e + 1)) * nw e = K * d * (pw (e + 1) * nw e) := by ring
        _ = K * d * (2 * (pw e * nw (e + 1))) := by rw [h]
        _ = _ := by ring
    have h3 : n * nw (e + 1) * nw e = (n * nw e) * nw (e + 1) := by ring
    rw [h2, h3] at h1
    exact Nat.lt_of_mul_lt_mul_right h1
  · intro hb
    have h1 : n * nw e * nw (e + 1) < 2 * K * (d * pw e) * nw (e + 1) := Nat.mul_lt_mul_of_pos_right hb hN'
    have h2 : 2 * K * (d * pw e) * nw (e + 1) = (K * (d * pw (e + 1))) * nw e := by
      calc 2 * K * (d * pw e) * nw (e + 1) = K * d * (2 * (pw e * nw (e + 1))) := by ring
        _ = K * d * (pw (e + 1) * nw e) := by rw [h]
        _ = _ := by ring
    have h3 : n * nw e * nw (e + 1) = (n * nw (e + 1)) * nw e := by ring
    rw [h2, h3] at h1
    exact Nat.lt_of_mul_lt_mul_right h1

theorem below_mono_K (n d K K' : Nat) (e : Int) (h : K ≤ K') (hb : below n d K e) : below n d K' e := by
  unfold below at *
  exact Nat.lt_of_lt_of_le hb (Nat.mul_le_mul_right _ h)

theorem below_add (n d K : Nat) (e : Int) (k : Nat) : below n d K (e + k) ↔ below n d (2^k * K) e := by
  induction k generalizing K with
  | zero => simp
  | succ k ih =>
    have : e + ((k + 1 : Nat) : Int) = (e + k) + 1 := by push_cast; ring
    rw [this, below_succ, ih]
    have : 2 ^ k * (2 * K) = 2 ^ (k + 1) * K := by ring
    rw [this]

theorem below_mono_e (n d K : Nat) (e1 e2 : Int) (h : e1 ≤ e2) (hb : below n d K e1) : below n d K e2 := by
  obtain ⟨k, rfl⟩ : ∃ k : Nat, e2 = e1 + k := ⟨(e2 - e1).toNat, by omega⟩
  rw [below_add]
  exact below_mono_K _ _ _ _ _ (Nat.le_mul_of_pos_left K (Nat.two_pow_pos k)) hb

theorem below_mono_q (n1 d1 n2 d2 K : Nat) (e : Int) (hd1 : 0 < d1) (_hd2 : 0 < d2)
    (hq : n1 * d2 ≤ n2 * d1) (hb : below n2 d2 K e) : below n1 d1 K e := by
  unfold below at *
  have h1 : n2 * nw e * d1 < K * (d2 * pw e) * d1 := Nat.mul_lt_mul_of_pos_right hb hd1
  have h2 : n1 * nw e * d2 ≤ n2 * nw e * d1 := by
    calc n1 * nw e * d2 = (n1 * d2) * nw e := by ring
      _ ≤ (n2 * d1) * nw e := Nat.mul_le_mul_right _ hq
      _ = _ := by ring
  have h3 : n1 * nw e * d2 < K * (d1 * pw e) * d2 := by
    calc n1 * nw e * d2 ≤ n2 * nw e * d1 := h2
      _ < K * (d2 * pw e) * d1 := h1
      _ = _ := by ring
  exact Nat.lt_of_mul_lt_mul_right h3

def rne (a b : Nat) : Nat :=
  if 2 * (a % b) > b then a / b + 1
  else if 2 * (a % b) = b then (if (a / b) % 2 = 1 then a / b + 1 else a / b) else a / b

def expOf (n d : Nat) : Int :=
  let e0 : Int := (Nat.log2 n : Int) - (Nat.log2 d : Int) - 52
  let e1 := if (n * nw e0) / (d * pw e0) ≥ 2^53 then e0 + 1
            else if (n * nw e0) / (d * pw e0) < 2^52 then e0 - 1 else e0
  if e1 < -1074 then -1074 else e1

def mk (neg : Bool) (q : Nat) (e : Int) : F64 :=
  if q ≥ 2^53 then (if e + 1 > 971 then inf neg else fin neg (q / 2) (e + 1))
  else (if e > 971 then inf neg else fin neg q e)

theorem scale_eq (n d : Nat) (e : Int) :
    (if e ≥ 0 then (n, d * 2^e.toNat) else (n * 2^(-e).toNat, d)) = (n * nw e, d * pw e) := by
  unfold pw nw
  by_cases h : e ≥ 0
  · have : (-e).toNat = 0 := by omega
    simp [h, this]
  · have : e.toNat = 0 := by omega
    simp [h, this]

theorem roundPos_eq (neg : Bool) (n d : Nat) (h : n ≠ 0) :
    roundPos neg n d = mk neg (rne (n * nw (expOf n d)) (d * pw (expOf n d))) (expOf n d) := by
  have h1 : roundPos neg n d =
      (let e := expOf n d
       let q' := rne (n * nw e) (d * pw e)
       let me : Nat × Int := if q' ≥ 2^53 then (q' / 2, e + 1) else (q', e)
       if me.2 > 971 then inf neg else fin neg me.1 me.2) := by
    unfold roundPos
    simp only [scale_eq, beq_iff_eq, h, if_false]
    rfl
  rw [h1]
  unfold mk
  simp only []
  split <;> rfl

theorem pw_nw (e : Int) (x y : Nat) (h : e = (x : Int) - y) : pw e * 2^y = nw e * 2^x := by
  unfold pw nw
  by_cases hxy : y ≤ x
  · have h1 : e.toNat = x - y := by omega
    have h2 : (-e).toNat = 0 := by omega
    rw [h1, h2, Nat.pow_zero, Nat.one_mul, ← Nat.pow_add]; congr 1; omega
  · have h1 : e.toNat = 0 := by omega
    have h2 : (-e).toNat = y - x := by omega
    rw [h1, h2, Nat.pow_zero, Nat.one_mul, ← Nat.pow_add]; congr 1; omega

/-- the first exponent guess brackets the quotient: 2^51·2^e0 ≤ n/d < 2^53·2^e0 -/
theorem e0_bounds (n d : Nat) (hn : n ≠ 0) (hd : d ≠ 0) :
    let e0 : Int := (Nat.log2 n : Int) - (Nat.log2 d : Int) - 52
    below n d (2^53) e0 ∧ ¬ below n d (2^51) e0 := by
  intro e0
  have hn1 := Nat.log2_self_le hn
  have hn2 := @Nat.lt_log2_self n
  have hd1 := Nat.log2_self_le hd
  have hd2 := @Nat.lt_log2_self d
  have hk := pw_nw e0 n.log2 (d.log2 + 52) (by simp only [e0]; push_cast; ring)
  have hP := pw_pos e0; have hN := nw_pos e0
  unfold below
  constructor
  · calc n * nw e0 < 2 ^ (n.log2 + 1) * nw e0 := Nat.mul_lt_mul_of_pos_right hn2 hN
      _ = 2 * (nw e0 * 2 ^ n.log2) := by ring
      _ = 2 * (pw e0 * 2 ^ (d.log2 + 52)) := by rw [hk]
      _ = 2 ^ 53 * (2 ^ d.log2 * pw e0) := by ring
      _ ≤ 2 ^ 53 * (d * pw e0) := Nat.mul_le_mul_left _ (Nat.mul_le_mul_right _ hd1)
  · apply Nat.not_lt.mpr
    calc 2 ^ 51 * (d * pw e0) ≤ 2 ^ 51 * (2 ^ (d.log2 + 1) * pw e0) :=
          Nat.mul_le_mul_left _ (Nat.mul_le_mul_right _ (Nat.le_of_lt hd2))
      _ = pw e0 * 2 ^ (d.log2 + 52) := by ring
      _ = nw e0 * 2 ^ n.log2 := hk
      _ ≤ nw e0 * n := Nat.mul_le_mul_left _ hn1
      _ = n * nw e0 := by ring

theorem div_lt_iff_below (n d K : Nat) (e : Int) (hd : 0 < d) :
    (n * nw e) / (d * pw e) < K ↔ below n d K e := by
  unfold below
  exact Nat.div_lt_iff_lt_mul (Nat.mul_pos hd (pw_pos e))

/-- the chosen exponent: `n/d < 2^53·2^e`, `e ≥ -1074`, and `2^52·2^e ≤ n/d` unless clamped -/
theorem expOf_spec (n d : Nat) (hn : n ≠ 0) (hd : d ≠ 0) :
    -1074 ≤ expOf n d ∧ below n d (2^53) (expOf n d) ∧ (-1074 < expOf n d → ¬ below n d (2^52) (expOf n d)) := by
  obtain ⟨hb1, hb2⟩ := e0_bounds n d hn hd
  have hdp : 0 < d := Nat.pos_of_ne_zero hd
  unfold expOf
  simp only [] at hb1 hb2 ⊢
  generalize (Nat.log2 n : Int) - (Nat.log2 d : Int) - 52 = e0 at hb1 hb2 ⊢
  have hge : ¬ (n * nw e0 / (d * pw e0) ≥ 2 ^ 53) := by
    rw [ge_iff_le, Nat.not_le, div_lt_iff_below _ _ _ _ hdp]; exact hb1
  rw [if_neg hge]
  by_cases hlt : n * nw e0 / (d * pw e0) < 2 ^ 52
  · rw [if_pos hlt]
    rw [div_lt_iff_below _ _ _ _ hdp] at hlt
    have hu : below n d (2^53) (e0 - 1) := by
      have := (below_succ n d (2^52) (e0 - 1)).mp (by simpa using hlt)
      simpa using this
    have hl : ¬ below n d (2^52) (e0 - 1) := by
      intro hc
      apply hb2
      have := (below_succ n d (2^51) (e0 - 1)).mpr (by simpa using hc)
      simpa using this
    by_cases hc : e0 - 1 < -1074
    · rw [if_pos hc]
      refine ⟨by omega, below_mono_e _ _ _ _ _ (by omega) hu, fun h => absurd h (by omega)⟩
    · rw [if_neg hc]
      exact ⟨by omega, hu, fun _ => hl⟩
  · rw [if_neg hlt]
    rw [div_lt_iff_below _ _ _ _ hdp] at hlt
    by_cases hc : e0 < -1074
    · rw [if_pos hc]
      refine ⟨by omega, below_mono_e _ _ _ _ _ (by omega) hb1, fun h => absurd h (by omega)⟩
    · rw [if_neg hc]
      exact ⟨by omega, hb1, fun _ => hlt⟩

/-- the exponent is monotone in the quotient -/
theorem expOf_mono (n1 d1 n2 d2 : Nat) (hn1 : n1 ≠ 0) (hd1 : d1 ≠ 0) (hn2 : n2 ≠ 0) (hd2 : d2 ≠ 0)
    (hq : n1 * d2 ≤ n2 * d1) : expOf n1 d1 ≤ expOf n2 d2 := by
  obtain ⟨a1, b1, c1⟩ := expOf_spec n1 d1 hn1 hd1
  obtain ⟨a2, b2, c2⟩ := expOf_spec n2 d2 hn2 hd2
  by_contra hlt
  have hlt : expOf n2 d2 + 1 ≤ expOf n1 d1 := by omega
  have h1 : ¬ below n1 d1 (2^52) (expOf n1 d1) := c1 (by omega)
  apply h1
  apply below_mono_e _ _ _ _ _ hlt
  rw [below_succ]
  exact below_mono_q _ _ _ _ _ _ (Nat.pos_of_ne_zero hd1) (Nat.pos_of_ne_zero hd2) hq (by simpa using b2)


theorem rne_ge (a b : Nat) : a / b ≤ rne a b := by
  unfold rne; split
  · omega
  · split
    · split <;> omega
    · omega

theorem rne_le (a b : Nat) : rne a b ≤ a / b + 1 := by
  unfold rne; split
  · omega
  · split
    · split <;> omega
    · omega

theorem div_le_div_of_cross (a1 b1 a2 b2 : Nat) (hb1 : 0 < b1) (hb2 : 0 < b2) (h : a1 * b2 ≤ a2 * b1) :
    a1 / b1 ≤ a2 / b2 := by
  rw [Nat.le_div_iff_mul_le hb2]
  have h1 : a1 / b1 * b1 ≤ a1 := Nat.div_mul_le_self a1 b1
  have h2 : a1 / b1 * b2 * b1 ≤ a2 * b1 := by
    calc a1 / b1 * b2 * b1 = (a1 / b1 * b1) * b2 := by ring
      _ ≤ a1 * b2 := Nat.mul_le_mul_right _ h1
      _ ≤ a2 * b1 := h
  exact Nat.le_of_mul_le_mul_right h2 hb1

/-- round-to-nearest-even is monotone in the quotient -/
theorem rne_mono (a1 b1 a2 b2 : Nat) (hb1 : 0 < b1) (hb2 : 0 < b2) (h : a1 * b2 ≤ a2 * b1) :
    rne a1 b1 ≤ rne a2 b2 := by
  have hq := div_le_div_of_cross a1 b1 a2 b2 hb1 hb2 h
  rcases Nat.lt_or_eq_of_le hq with hlt | heq
  · exact Nat.le_trans (rne_le a1 b1) (Nat.le_trans hlt (rne_ge a2 b2))
  · -- same integer part: compare the remainders
    have e1 := Nat.div_add_mod a1 b1
    have e2 := Nat.div_add_mod a2 b2
    unfold rne
    rw [← heq]
    rw [← heq] at e2
    generalize a1 / b1 = q at *
    generalize a1 % b1 = r1 at *
    generalize a2 % b2 = r2 at *
    have hr : r1 * b2 ≤ r2 * b1 := by
      rw [← e1, ← e2] at h
      have h' : b1 * q * b2 + r1 * b2 ≤ b1 * q * b2 + r2 * b1 := by
        calc b1 * q * b2 + r1 * b2 = (b1 * q + r1) * b2 := by ring
          _ ≤ (b2 * q + r2) * b1 := h
          _ = _ := by ring
      omega
    have F1 : 2 * r1 > b1 → 2 * r2 > b2 := by
      intro h1
      have : b1 * b2 < 2 * r2 * b1 := by
        calc b1 * b2 < 2 * r1 * b2 := Nat.mul_lt_mul_of_pos_right h1 hb2
          _ = 2 * (r1 * b2) := by ring
          _ ≤ 2 * (r2 * b1) := Nat.mul_le_mul_left _ hr
          _ = _ := by ring
      have : b2 * b1 < 2 * r2 * b1 := by rwa [Nat.mul_comm] at this
      exact Nat.lt_of_mul_lt_mul_right this
    have F2 : 2 * r1 = b1 → 2 * r2 ≥ b2 := by
      intro h1
      have : b2 * b1 ≤ 2 * r2 * b1 := by
        calc b2 * b1 = 2 * (r1 * b2) := by rw [← h1]; ring
          _ ≤ 2 * (r2 * b1) := Nat.mul_le_mul_left _ hr
          _ = _ := by ring
      exact Nat.le_of_mul_le_mul_right this hb1
    split
    · next h1 => rw [if_pos (F1 h1)]
    · split
      · next h1 h2 =>
        have := F2 h2
        split <;> split <;> (try split) <;> omega
      · split <;> (try split) <;> (try split) <;> omega

/-- pre-result of rounding: mantissa (before carry) and exponent -/
def preQ (n d : Nat) : Nat := rne (n * nw (expOf n d)) (d * pw (expOf n d))

theorem preQ_le (n d : Nat) (hn : n ≠ 0) (hd : d ≠ 0) : preQ n d ≤ 2^53 := by
  obtain ⟨_, b, _⟩ := expOf_spec n d hn hd
  rw [← div_lt_iff_below _ _ _ _ (Nat.pos_of_ne_zero hd)] at b
  have := rne_le (n * nw (expOf n d)) (d * pw (expOf n d))
  unfold preQ; omega

theorem preQ_ge (n d : Nat) (hn : n ≠ 0) (hd : d ≠ 0) (he : -1074 < expOf n d) : 2^52 ≤ preQ n d := by
  obtain ⟨_, _, c⟩ := expOf_spec n d hn hd
  have c := c he
  rw [← div_lt_iff_below _ _ _ _ (Nat.pos_of_ne_zero hd)] at c
  have := rne_ge (n * nw (expOf n d)) (d * pw (expOf n d))
  unfold preQ; omega

/-- value order `q₁·2^e₁ ≤ q₂·2^e₂`, cross-multiplied -/
def vle (q1 : Nat) (e1 : Int) (q2 : Nat) (e2 : Int) : Prop := q1 * pw e1 * nw e2 ≤ q2 * pw e2 * nw e1

/-- **rounding is monotone**: the rounded value of a smaller quotient is not larger -/
theorem pre_mono (n1 d1 n2 d2 : Nat) (hn1 : n1 ≠ 0) (hd1 : d1 ≠ 0) (hn2 : n2 ≠ 0) (hd2 : d2 ≠ 0)
    (hq : n1 * d2 ≤ n2 * d1) : vle (preQ n1 d1) (expOf n1 d1) (preQ n2 d2) (expOf n2 d2) := by
  have he := expOf_mono n1 d1 n2 d2 hn1 hd1 hn2 hd2 hq
  unfold vle
  rcases Int.lt_or_eq_of_le he with hlt | heq
  · have hk := pw_nw_le (expOf n2 d2) (expOf n1 d1) he
    have h1 := preQ_le n1 d1 hn1 hd1
    have h2 := preQ_ge n2 d2 hn2 hd2 (by have := (expOf_spec n1 d1 hn1 hd1).1; omega)
    have hk2 : 2 ≤ 2 ^ (expOf n2 d2 - expOf n1 d1).toNat := by
      have : (expOf n2 d2 - expOf n1 d1).toNat = ((expOf n2 d2 - expOf n1 d1).toNat - 1) + 1 := by omega
      rw [this, Nat.pow_succ]; have := Nat.two_pow_pos ((expOf n2 d2 - expOf n1 d1).toNat - 1); omega
    generalize 2 ^ (expOf n2 d2 - expOf n1 d1).toNat = c at *
    calc preQ n1 d1 * pw (expOf n1 d1) * nw (expOf n2 d2)
        ≤ 2^53 * pw (expOf n1 d1) * nw (expOf n2 d2) := Nat.mul_le_mul_right _ (Nat.mul_le_mul_right _ h1)
      _ = 2^52 * (2 * (pw (expOf n1 d1) * nw (expOf n2 d2))) := by ring
      _ ≤ 2^52 * (c * (pw (expOf n1 d1) * nw (expOf n2 d2))) := Nat.mul_le_mul_left _ (Nat.mul_le_mul_right _ hk2)
      _ = 2^52 * (pw (expOf n2 d2) * nw (expOf n1 d1)) := by rw [hk]
      _ = 2^52 * pw (expOf n2 d2) * nw (expOf n1 d1) := by ring
      _ ≤ preQ n2 d2 * pw (expOf n2 d2) * nw (expOf n1 d1) := Nat.mul_le_mul_right _ (Nat.mul_le_mul_right _ h2)
  · have hr : preQ n1 d1 ≤ preQ n2 d2 := by
      unfold preQ
      rw [heq]
      apply rne_mono _ _ _ _ (Nat.mul_pos (Nat.pos_of_ne_zero hd1) (pw_pos _)) (Nat.mul_pos (Nat.pos_of_ne_zero hd2) (pw_pos _))
      calc n1 * nw (expOf n2 d2) * (d2 * pw (expOf n2 d2)) = (n1 * d2) * (nw (expOf n2 d2) * pw (expOf n2 d2)) := by ring
        _ ≤ (n2 * d1) * (nw (expOf n2 d2) * pw (expOf n2 d2)) := Nat.mul_le_mul_right _ hq
        _ = _ := by ring
    rw [heq]
    exact Nat.mul_le_mul_right _ (Nat.mul_le_mul_right _ hr)


/-- `floor(q·2^e + 1/2)`: round half up of the value -/
def rhu (q : Nat) (e : Int) : Nat := (2 * q * pw e + nw e) / (2 * nw e)

theorem rhu_eq (m : Nat) (e : Int) :
    (if e ≥ 0 then m * 2^e.toNat else (m * 2 + 2^(-e).toNat) / (2 * 2^(-e).toNat)) = rhu m e := by
  unfold rhu pw nw
  by_cases h : e ≥ 0
  · have : (-e).toNat = 0 := by omega
    rw [if_pos h, this]; simp only [Nat.pow_zero, Nat.mul_one]
    have : 2 * m * 2 ^ e.toNat = 2 * (m * 2 ^ e.toNat) := by ring
    rw [this]
    generalize m * 2 ^ e.toNat = x
    omega
  · have : e.toNat = 0 := by omega
    rw [if_neg h, this]; simp only [Nat.pow_zero, Nat.mul_one]
    rw [Nat.mul_comm 2 m]

theorem roundToU64_fin (m : Nat) (e : Int) : roundToU64 (fin false m e) = min (rhu m e) (2^64 - 1) := by
  unfold roundToU64
  simp only [Bool.false_eq_true, if_false]
  rw [rhu_eq]

theorem rhu_mono (q1 : Nat) (e1 : Int) (q2 : Nat) (e2 : Int) (h : vle q1 e1 q2 e2) : rhu q1 e1 ≤ rhu q2 e2 := by
  unfold rhu
  apply div_le_div_of_cross _ _ _ _ (Nat.mul_pos (by decide) (nw_pos _)) (Nat.mul_pos (by decide) (nw_pos _))
  unfold vle at h
  calc (2 * q1 * pw e1 + nw e1) * (2 * nw e2) = 4 * (q1 * pw e1 * nw e2) + 2 * nw e1 * nw e2 := by ring
    _ ≤ 4 * (q2 * pw e2 * nw e1) + 2 * nw e1 * nw e2 := by omega
    _ = _ := by ring

theorem rhu_succ (q : Nat) (e : Int) : rhu q (e + 1) = rhu (2 * q) e := by
  apply Nat.le_antisymm
  · apply rhu_mono; unfold vle
    have := pw_nw_succ e
    calc q * pw (e + 1) * nw e = q * (pw (e + 1) * nw e) := by ring
      _ = q * (2 * (pw e * nw (e + 1))) := by rw [this]
      _ = 2 * q * pw e * nw (e + 1) := by ring
      _ ≤ _ := Nat.le_refl _
  · apply rhu_mono; unfold vle
    have := pw_nw_succ e
    calc 2 * q * pw e * nw (e + 1) = q * (2 * (pw e * nw (e + 1))) := by ring
      _ = q * (pw (e + 1) * nw e) := by rw [this]
      _ = q * pw (e + 1) * nw e := by ring
      _ ≤ _ := Nat.le_refl _

theorem rhu_nonneg_exp (q : Nat) (e : Int) (he : 0 ≤ e) : rhu q e = q * 2^e.toNat := by
  rw [← rhu_eq, if_pos he]

theorem rhu_big (q : Nat) (e : Int) (hq : 2^52 ≤ q) (he : 12 ≤ e) : 2^64 ≤ rhu q e := by
  rw [rhu_nonneg_exp q e (by omega)]
  have : (2:Nat)^12 ≤ 2^e.toNat := Nat.pow_le_pow_right (by decide) (by omega)
  calc 2^64 = 2^52 * 2^12 := by norm_num
    _ ≤ q * 2^e.toNat := Nat.mul_le_mul hq this

/-- conversion of the rounded value to ticks does not depend on carry / overflow-to-infinity -/
theorem roundToU64_mk (q : Nat) (e : Int) (hq : q ≤ 2^53) (h52 : -1074 < e → 2^52 ≤ q) :
    roundToU64 (mk false q e) = min (rhu q e) (2^64 - 1) := by
  unfold mk
  by_cases hc : q ≥ 2^53
  · have hq' : q = 2^53 := by omega
    rw [if_pos hc]
    have e2 : rhu (q / 2) (e + 1) = rhu q e := by
      rw [rhu_succ]; congr 1; omega
    by_cases he : e + 1 > 971
    · rw [if_pos he]
      have := rhu_big q e (by omega) (by omega)
      simp only [roundToU64, Bool.false_eq_true, if_false]; omega
    · rw [if_neg he, roundToU64_fin, e2]
  · rw [if_neg hc]
    by_cases he : e > 971
    · rw [if_pos he]
      have := rhu_big q e (h52 (by omega)) (by omega)
      simp only [roundToU64, Bool.false_eq_true, if_false]; omega
    · rw [if_neg he, roundToU64_fin]

/-- the "representable" test on the rounded value -/
def reprF (x : F64) : Bool :=
  match x with
  | .fin false m e => (if e ≥ 0 then m * 2^e.toNat else (m * 2 + 2^(-e).toNat) / (2 * 2^(-e).toNat)) < 2^64
  | .fin true _ _ => true
  | _ => false

theorem reprF_mk (q : Nat) (e : Int) (hq : q ≤ 2^53) (h52 : -1074 < e → 2^52 ≤ q) :
    reprF (mk false q e) = decide (rhu q e < 2^64) := by
  unfold mk
  by_cases hc : q ≥ 2^53
  · have hq' : q = 2^53 := by omega
    rw [if_pos hc]
    have e2 : rhu (q / 2) (e + 1) = rhu q e := by
      rw [rhu_succ]; congr 1; omega
    by_cases he : e + 1 > 971
    · rw [if_pos he]
      have := rhu_big q e (by omega) (by omega)
      simp only [reprF]; symm; simp; omega
    · rw [if_neg he]; simp only [reprF]; rw [rhu_eq, e2]
  · rw [if_neg hc]
    by_cases he : e > 971
    · rw [if_pos he]
      have := rhu_big q e (h52 (by omega)) (by omega)
      simp only [reprF]; symm; simp; omega
    · rw [if_neg he]; simp only [reprF]; rw [rhu_eq]


/-! ### the API-level facts -/

theorem frac_eq (m : Nat) (e : Int) : frac m e = (m * pw e, nw e) := by
  unfold frac pw nw
  by_cases h : e ≥ 0
  · have : (-e).toNat = 0 := by omega
    simp [h, this]
  · have : e.toNat = 0 := by omega
    simp [h, this]

theorem mulNat_fin (s : Bool) (m : Nat) (e : Int) (hm : m ≠ 0) :
    mulNat (fin s m e) 90000 =
      mk s (preQ (m * pw e * 90000) (nw e)) (expOf (m * pw e * 90000) (nw e)) := by
  unfold mulNat
  simp only [frac_eq]
  rw [roundPos_eq]
  · rfl
  · have := pw_pos e
    exact Nat.mul_ne_zero (Nat.mul_ne_zero hm (by omega)) (by decide)

theorem mulNat_zero (s : Bool) (e : Int) : mulNat (fin s 0 e) 90000 = fin s 0 (-1074) := by
  unfold mulNat
  simp only [frac_eq]
  simp [roundPos]

/-- value of the rounded product `90000·x`, as ticks before saturation -/
def U (m : Nat) (e : Int) : Nat :=
  rhu (preQ (m * pw e * 90000) (nw e)) (expOf (m * pw e * 90000) (nw e))

theorem preOk (m : Nat) (e : Int) (hm : m ≠ 0) :
    preQ (m * pw e * 90000) (nw e) ≤ 2^53 ∧
    (-1074 < expOf (m * pw e * 90000) (nw e) → 2^52 ≤ preQ (m * pw e * 90000) (nw e)) := by
  have hn : m * pw e * 90000 ≠ 0 := by
    have := pw_pos e
    exact Nat.mul_ne_zero (Nat.mul_ne_zero hm (by omega)) (by decide)
  have hd : nw e ≠ 0 := by have := nw_pos e; omega
  exact ⟨preQ_le _ _ hn hd, preQ_ge _ _ hn hd⟩

theorem ticks_pos (m : Nat) (e : Int) (hm : m ≠ 0) : ticks (fin false m e) = min (U m e) (2^64 - 1) := by
  unfold ticks
  rw [mulNat_fin false m e hm]
  obtain ⟨h1, h2⟩ := preOk m e hm
  exact roundToU64_mk _ _ h1 h2

theorem ticks_zero (s : Bool) (e : Int) : ticks (fin s 0 e) = 0 := by
  unfold ticks
  rw [mulNat_zero]
  cases s
  · rw [roundToU64_fin]
    have : rhu 0 (-1074) = 0 := by
      unfold rhu
      apply Nat.div_eq_of_lt
      have := nw_pos (-1074); omega
    rw [this]; rfl
  · rfl

theorem U_mono (m1 : Nat) (e1 : Int) (m2 : Nat) (e2 : Int) (h1 : m1 ≠ 0) (h2 : m2 ≠ 0)
    (h : m1 * pw e1 * nw e2 ≤ m2 * pw e2 * nw e1) : U m1 e1 ≤ U m2 e2 := by
  unfold U
  apply rhu_mono
  have p1 := pw_pos e1; have p2 := pw_pos e2; have q1 := nw_pos e1; have q2 := nw_pos e2
  apply pre_mono
  · exact Nat.mul_ne_zero (Nat.mul_ne_zero h1 (by omega)) (by decide)
  · omega
  · exact Nat.mul_ne_zero (Nat.mul_ne_zero h2 (by omega)) (by decide)
  · omega
  · calc m1 * pw e1 * 90000 * nw e2 = (m1 * pw e1 * nw e2) * 90000 := by ring
      _ ≤ (m2 * pw e2 * nw e1) * 90000 := Nat.mul_le_mul_right _ h
      _ = _ := by ring

/-- a finite double that is not `< 0.0`: positive sign, or a zero -/
theorem isNeg_fin (s : Bool) (m : Nat) (e : Int) : isNeg (fin s m e) = (s && decide (m ≠ 0)) := by
  unfold isNeg lt zero toRat
  simp only [frac_eq]
  have p := pw_pos e
  have q := nw_pos (-1074)
  generalize nw (-1074) = N at *
  generalize pw (-1074) = P at *
  have hmp : (m * pw e = 0) ↔ m = 0 := by
    constructor
    · intro h; rcases Nat.mul_eq_zero.mp h with h | h; exact h; omega
    · intro h; simp [h]
  generalize m * pw e = x at *
  rw [Bool.eq_iff_iff]
  cases s
  · simp only [Bool.false_eq_true, if_false, Bool.false_and, decide_eq_true_eq]
    have : (0:Int) ≤ (x : Int) * (N : Int) := by positivity
    simp; omega
  · simp only [if_true, Bool.true_and, decide_eq_true_eq]
    simp only [Bool.false_eq_true, if_false, Nat.zero_mul, Int.natCast_zero, Int.zero_mul]
    constructor
    · intro h hm
      rw [← hmp] at hm; subst hm; simp at h
    · intro hm
      have : 0 < x := Nat.pos_of_ne_zero (fun h => hm (hmp.mp h))
      have : (0:Int) < (x : Int) * (N : Int) := by positivity
      linarith

theorem toRat_nonneg (s : Bool) (m : Nat) (e : Int) (h : s = false ∨ m = 0) :
    toRat (fin s m e) = (((m * pw e : Nat) : Int), nw e) := by
  unfold toRat
  simp only [frac_eq]
  rcases h with h | h
  · simp [h]
  · simp [h]

theorem le_nonneg (s1 : Bool) (m1 : Nat) (e1 : Int) (s2 : Bool) (m2 : Nat) (e2 : Int)
    (h1 : s1 = false ∨ m1 = 0) (h2 : s2 = false ∨ m2 = 0) :
    le (fin s1 m1 e1) (fin s2 m2 e2) = decide (m1 * pw e1 * nw e2 ≤ m2 * pw e2 * nw e1) := by
  unfold le lt eq
  simp only [toRat_nonneg _ _ _ h1, toRat_nonneg _ _ _ h2]
  have : (((m1 * pw e1 : Nat) : Int) * ((nw e2 : Nat) : Int) < ((m2 * pw e2 : Nat) : Int) * ((nw e1 : Nat) : Int))
      ↔ m1 * pw e1 * nw e2 < m2 * pw e2 * nw e1 := by
    rw [← Int.natCast_mul, ← Int.natCast_mul]; exact Int.ofNat_lt
  have h' : (((m1 * pw e1 : Nat) : Int) * ((nw e2 : Nat) : Int) = ((m2 * pw e2 : Nat) : Int) * ((nw e1 : Nat) : Int))
      ↔ m1 * pw e1 * nw e2 = m2 * pw e2 * nw e1 := by
    rw [← Int.natCast_mul, ← Int.natCast_mul]; exact Int.ofNat_inj
  rw [Bool.eq_iff_iff]
  simp only [Bool.or_eq_true, decide_eq_true_eq, beq_iff_eq, this, h']
  omega

/-- **`ticks` is monotone** on finite, non-negative doubles -/
theorem ticks_mono (x y : F64) (hx : x.isFinite = true) (hy : y.isFinite = true)
    (nx : x.isNeg = false) (ny : y.isNeg = false) (h : le x y = true) : ticks x ≤ ticks y := by
  match x, y, hx, hy with
  | fin s1 m1 e1, fin s2 m2 e2, _, _ =>
    rw [isNeg_fin] at nx ny
    have c1 : s1 = false ∨ m1 = 0 := by
      cases s1 <;> simp_all
    have c2 : s2 = false ∨ m2 = 0 := by
      cases s2 <;> simp_all
    rw [le_nonneg _ _ _ _ _ _ c1 c2] at h
    have h := of_decide_eq_true h
    by_cases z1 : m1 = 0
    · subst z1; rw [ticks_zero]; exact Nat.zero_le _
    · have s1f : s1 = false := by rcases c1 with c | c; exact c; exact absurd c z1
      subst s1f
      have z2 : m2 ≠ 0 := by
        intro hz; subst hz
        have : 0 < m1 * pw e1 * nw e2 := Nat.mul_pos (Nat.mul_pos (Nat.pos_of_ne_zero z1) (pw_pos _)) (nw_pos _)
        have h0 : 0 * pw e2 * nw e1 = 0 := by simp
        rw [h0] at h; omega
      have s2f : s2 = false := by rcases c2 with c | c; exact c; exact absurd c z2
      subst s2f
      rw [ticks_pos _ _ z1, ticks_pos _ _ z2]
      have := U_mono m1 e1 m2 e2 z1 z2 h
      omega

theorem lt_eq_not_le (x y : F64) (hx : x.isFinite = true) (hy : y.isFinite = true) :
    lt x y = !le y x := by
  match x, y, hx, hy with
  | fin s1 m1 e1, fin s2 m2 e2, _, _ =>
    unfold le lt eq
    simp only []
    generalize (toRat (fin s1 m1 e1)).1 * ((toRat (fin s2 m2 e2)).2 : Int) = A
    generalize (toRat (fin s2 m2 e2)).1 * ((toRat (fin s1 m1 e1)).2 : Int) = B
    rw [Bool.eq_iff_iff]
    simp only [Bool.not_eq_true', Bool.or_eq_false_iff, decide_eq_true_eq, decide_eq_false_iff_not, beq_eq_false_iff_ne]
    omega


/-! ### `ticks_representable` (computed on the rounded product) vs the exact range test -/

/-- `x` is the decoding of a 64-bit pattern (the type `F64` also contains unnormalised triples) -/
def canon : F64 → Prop
  | fin _ m e => (m < 2^52 ∧ e = -1074) ∨ (2^52 ≤ m ∧ m < 2^53 ∧ -1074 ≤ e ∧ e ≤ 971)
  | _ => True

theorem canon_ofBits (n : Nat) : canon (ofBits n) := by
  unfold ofBits
  simp only []
  split
  · split <;> trivial
  · split
    · left; exact ⟨Nat.mod_lt _ (by decide), rfl⟩
    · next h1 h2 =>
      right
      have : n % 2^52 < 2^52 := Nat.mod_lt _ (by decide)
      have h3 : n / 2^52 % 2^11 < 2^11 := Nat.mod_lt _ (by decide)
      simp at h1 h2
      refine ⟨by omega, by omega, by omega, by omega⟩

theorem ticksRepresentable_eq (x : F64) : ticksRepresentable x = reprF (mulNat x 90000) := by
  unfold ticksRepresentable reprF
  rfl

theorem ticksRepresentable_pos (m : Nat) (e : Int) (hm : m ≠ 0) :
    ticksRepresentable (fin false m e) = decide (U m e < 2^64) := by
  rw [ticksRepresentable_eq, mulNat_fin false m e hm]
  obtain ⟨h1, h2⟩ := preOk m e hm
  exact reprF_mk _ _ h1 h2

/-- largest double whose product with 90000 rounds below 2^64, and its successor -/
def mStar : Nat := 6558842337318951

theorem pw_neg (e : Int) (h : e ≤ 0) : pw e = 1 := by
  unfold pw; have : e.toNat = 0 := by omega
  rw [this]; rfl
theorem nw_nonneg (e : Int) (h : 0 ≤ e) : nw e = 1 := by
  unfold nw; have : (-e).toNat = 0 := by omega
  rw [this]; rfl
theorem nw_m5 : nw (-5) = 32 := by decide
theorem pw_m5 : pw (-5) = 1 := by decide

theorem canon_split (m : Nat) (e : Int) (hc : canon (fin false m e)) :
    m * pw e * 32 ≤ mStar * nw e ∨ (mStar + 1) * nw e ≤ m * pw e * 32 := by
  unfold canon at hc
  unfold mStar
  by_cases h1 : e < -5
  · left
    have hm : m < 2^53 := by omega
    rw [pw_neg e (by omega)]
    have : (2:Nat)^6 ≤ nw e := by
      unfold nw; exact Nat.pow_le_pow_right (by decide) (by omega)
    generalize nw e = N at *
    omega
  · by_cases h2 : e = -5
    · subst h2
      rw [nw_m5, pw_m5]; omega
    · right
      have hm : 2^52 ≤ m := by omega
      by_cases h3 : e < 0
      · rw [pw_neg e (by omega)]
        have : nw e ≤ 2^4 := by
          unfold nw; exact Nat.pow_le_pow_right (by decide) (by omega)
        generalize nw e = N at *
        omega
      · rw [nw_nonneg e (by omega)]
        have := pw_pos e
        generalize pw e = P at *
        have : m * 1 ≤ m * P := Nat.mul_le_mul_left _ this
        omega

theorem tickInRange_pos (m : Nat) (e : Int) :
    Spec.tickInRange (fin false m e) = decide (2 * (m * pw e) * 90000 + nw e < 2 * 2^64 * nw e) := by
  unfold Spec.tickInRange
  simp only [frac_eq]

/-- on genuine doubles the model's `ticks_representable` (which looks at the *rounded* product)
    coincides with the exact rational range test of the specification -/
theorem ticksRepresentable_eq_tickInRange (x : F64) (hc : canon x) (hf : x.isFinite = true)
    (hn : x.isNeg = false) : ticksRepresentable x = Spec.tickInRange x := by
  match x, hf with
  | fin s m e, _ =>
    rw [isNeg_fin] at hn
    by_cases hm : m = 0
    · subst hm
      cases s
      · rw [ticksRepresentable_eq, mulNat_zero, tickInRange_pos]
        have := nw_pos e
        have : reprF (fin false 0 (-1074)) = true := by
          unfold reprF
          simp only []
          rw [rhu_eq]
          have : rhu 0 (-1074) = 0 := by
            unfold rhu
            apply Nat.div_eq_of_lt
            have := nw_pos (-1074); omega
          rw [this]; decide
        rw [this]; symm; simp; omega
      · rw [ticksRepresentable_eq, mulNat_zero]; rfl
    · have sf : s = false := by cases s <;> simp_all
      subst sf
      rw [ticksRepresentable_pos m e hm, tickInRange_pos]
      have hN := nw_pos e
      rcases canon_split m e hc with hA | hB
      · -- x ≤ x₀
        have h0 : ticksRepresentable (fin false mStar (-5)) = true := by decide
        rw [ticksRepresentable_pos mStar (-5) (by decide)] at h0
        have h0 := of_decide_eq_true h0
        have hU : U m e ≤ U mStar (-5) := by
          apply U_mono _ _ _ _ hm (by decide)
          rw [nw_m5, pw_m5, Nat.mul_one]; exact hA
        have l : U m e < 2^64 := Nat.lt_of_le_of_lt hU h0
        have r : 2 * (m * pw e) * 90000 + nw e < 2 * 2^64 * nw e := by
          unfold mStar at hA
          generalize m * pw e = v at *
          generalize nw e = N at *
          omega
        rw [decide_eq_decide]; exact ⟨fun _ => r, fun _ => l⟩
      · -- x₁ ≤ x
        have h1 : ticksRepresentable (fin false (mStar + 1) (-5)) = false := by decide
        rw [ticksRepresentable_pos (mStar + 1) (-5) (by decide)] at h1
        have h1 := of_decide_eq_false h1
        have hU : U (mStar + 1) (-5) ≤ U m e := by
          apply U_mono _ _ _ _ (by decide) hm
          rw [nw_m5, pw_m5, Nat.mul_one]; exact hB
        have l : ¬ U m e < 2^64 := by omega
        have r : ¬ 2 * (m * pw e) * 90000 + nw e < 2 * 2^64 * nw e := by
          unfold mStar at hB
          generalize m * pw e = v at *
          generalize nw e = N at *
          omega
        rw [decide_eq_decide]; exact ⟨fun h => absurd h l, fun h => absurd h r⟩

/-- the equivalence fails on unnormalised triples: this one has a 54-bit significand -/
theorem ticksRepresentable_ne_tickInRange_noncanon :
    ticksRepresentable (fin false 13117684674637903 (-6)) = false ∧
    Spec.tickInRange (fin false 13117684674637903 (-6)) = true := by decide

theorem roundToU64_le (x : F64) : roundToU64 x ≤ 2^64 - 1 := by
  unfold roundToU64
  cases x with
  | nan => simp
  | inf s => cases s <;> simp
  | fin s m e =>
    simp only []
    split
    · simp
    · exact Nat.min_le_right _ _

theorem ticks_lt (x : F64) : ticks x < 2^64 := by
  have := roundToU64_le (mulNat x 90000)
  unfold ticks; omega

end Muxide.F64
