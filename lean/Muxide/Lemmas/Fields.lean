import Muxide.Lemmas.Timing
import Muxide.Lemmas.WriterInv
/-
  Muxide.Lemmas.Fields — guard lemmas for C16: every queued sample's payload length fits 32 bits,
  the track invariants hold in every reachable writer state, and the rejections of
  `Writer.writeVideo` / `Writer.finalize` that keep out-of-range values away from the fixed-width
  fields.
-/
namespace Muxide

theorem setLastDur_map_data (rev : List Sample) (d : Nat) :
    (setLastDur rev d).map (·.data) = rev.map (·.data) := by
  cases rev <;> simp [setLastDur]

/-- `writeVideo` either leaves the writer unchanged or pushes a sample whose stored payload fits
    32 bits on top of the old ones, whose payloads are unchanged -/
theorem writeVideo_sizes (w : Writer) (pts dts : Nat) (data : Bytes) (key : Bool) :
    (w.writeVideo pts dts data key).1 = w ∨
    ∃ (s : Sample) (vs' : List Sample), s.data.length ≤ u32Max ∧ vs'.map (·.data) = w.vsRev.map (·.data) ∧
      (w.writeVideo pts dts data key).1.vsRev = s :: vs' ∧
      (w.writeVideo pts dts data key).1.asRev = w.asRev := by
  by_cases hf : w.finalized = true
  · left; simp [Writer.writeVideo, hf]
  cases hp : w.vPrev with
  | some prev =>
    by_cases h1 : dts ≤ prev
    · left; simp only [Writer.writeVideo, hf, hp, h1, Bool.false_eq_true, ↓reduceIte]
    by_cases h2 : dts - prev > u32Max
    · left; simp only [Writer.writeVideo, hf, hp, h1, h2, Bool.false_eq_true, ↓reduceIte]
    by_cases h3 : (convertPayload w.codec data).length > u32Max
    · left; simp only [Writer.writeVideo, hf, hp, h1, h2, h3, Bool.false_eq_true, ↓reduceIte]
    by_cases h4 : (pts : Int) - (dts : Int) > 2^31 - 1 ∨ (pts : Int) - (dts : Int) < -(2^31)
    · left; simp only [Writer.writeVideo, hf, hp, h1, h2, h3, h4, Bool.false_eq_true, ↓reduceIte]
    right
    refine ⟨⟨pts, dts, convertPayload w.codec data, key, none⟩, setLastDur w.vsRev (dts - prev), by simpa using h3,
      setLastDur_map_data _ _, ?_, ?_⟩
    · simp only [Writer.writeVideo, hf, hp, h1, h2, h3, h4, Bool.false_eq_true, ↓reduceIte]
    · simp only [Writer.writeVideo, hf, hp, h1, h2, h3, h4, Bool.false_eq_true, ↓reduceIte]
  | none =>
    by_cases hk : key = true
    · cases hc : extractConfig w.codec data with
      | none => left; simp only [Writer.writeVideo, hf, hp, hk, hc, not_true_eq_false, Bool.false_eq_true, ↓reduceIte]
      | some c =>
        by_cases h3 : (convertPayload w.codec data).length > u32Max
        · left; simp only [Writer.writeVideo, hf, hp, hk, hc, h3, not_true_eq_false, Bool.false_eq_true, ↓reduceIte]
        by_cases h4 : (pts : Int) - (dts : Int) > 2^31 - 1 ∨ (pts : Int) - (dts : Int) < -(2^31)
        · left; simp only [Writer.writeVideo, hf, hp, hk, hc, h3, h4, not_true_eq_false, Bool.false_eq_true, ↓reduceIte]
        right
        refine ⟨⟨pts, dts, convertPayload w.codec data, key, none⟩, w.vsRev, by simpa using h3, rfl, ?_, ?_⟩
        · simp only [Writer.writeVideo, hf, hp, hk, hc, h3, h4, not_true_eq_false, Bool.false_eq_true, ↓reduceIte]
        · simp only [Writer.writeVideo, hf, hp, hk, hc, h3, h4, not_true_eq_false, Bool.false_eq_true, ↓reduceIte]
    · left; simp only [Writer.writeVideo, hf, hp, hk, not_false_eq_true, Bool.false_eq_true, ↓reduceIte]

theorem writeAudio_sizes (w : Writer) (pts : Nat) (data : Bytes) :
    (w.writeAudio pts data).1 = w ∨
    ∃ (s : Sample) (as' : List Sample), s.data.length ≤ u32Max ∧ as'.map (·.data) = w.asRev.map (·.data) ∧
      (w.writeAudio pts data).1.asRev = s :: as' ∧ (w.writeAudio pts data).1.vsRev = w.vsRev := by
  by_cases hf : w.finalized = true
  · left; simp [Writer.writeAudio, hf]
  cases ha : w.audio with
  | none => left; simp only [Writer.writeAudio, hf, ha, Bool.false_eq_true, ↓reduceIte]
  | some tr =>
    cases hp : w.aPrev with
    | some prev =>
      by_cases h1 : pts < prev
      · left; simp only [Writer.writeAudio, hf, ha, hp, h1, Bool.false_eq_true, ↓reduceIte]
      by_cases h2 : pts - prev > u32Max
      · left; simp only [Writer.writeAudio, hf, ha, hp, h1, h2, Bool.false_eq_true, ↓reduceIte]
      simp only [Writer.writeAudio, hf, ha, hp, h1, h2, Bool.false_eq_true, ↓reduceIte]
      split
      · left; rfl
      · next sd _ =>
        by_cases h3 : sd.length > u32Max
        · left; simp only [h3, ↓reduceIte]
        · right
          refine ⟨⟨pts, pts, sd, false, none⟩, setLastDur w.asRev (pts - prev), by simpa using h3,
            setLastDur_map_data _ _, ?_, ?_⟩
          · simp only [h3, ↓reduceIte]
          · simp only [h3, ↓reduceIte]
    | none =>
      simp only [Writer.writeAudio, hf, ha, hp, Bool.false_eq_true, ↓reduceIte]
      split
      · left; rfl
      · next sd _ =>
        by_cases h3 : sd.length > u32Max
        · left; simp only [h3, ↓reduceIte]
        · right
          refine ⟨⟨pts, pts, sd, false, none⟩, w.asRev, by simpa using h3, rfl, ?_, ?_⟩
          · simp only [h3, ↓reduceIte]
          · simp only [h3, ↓reduceIte]

/-- every queued payload length fits the 32-bit stsz field -/
def SizesOk (w : Writer) : Prop :=
  (∀ n ∈ w.vsRev.map (·.data.length), n ≤ u32Max) ∧ (∀ n ∈ w.asRev.map (·.data.length), n ≤ u32Max)

theorem map_data_length {l l' : List Sample} (h : l'.map (·.data) = l.map (·.data)) :
    l'.map (·.data.length) = l.map (·.data.length) := by
  have := congrArg (List.map List.length) h
  simpa [List.map_map, Function.comp_def] using this

theorem Writer.Reachable.sizesOk {w : Writer} (h : w.Reachable) : SizesOk w := by
  induction h with
  | init c a => exact ⟨by simp, by simp⟩
  | @video w pts dts data key _ ih =>
    rcases writeVideo_sizes w pts dts data key with e | ⟨s, vs', hs, hm, e1, e2⟩
    · rw [e]; exact ih
    · refine ⟨?_, by rw [e2]; exact ih.2⟩
      rw [e1, List.map_cons, map_data_length hm]
      intro n hn
      rcases List.mem_cons.mp hn with rfl | hn
      · exact hs
      · exact ih.1 n hn
  | @audio w pts data _ ih =>
    rcases writeAudio_sizes w pts data with e | ⟨s, as', hs, hm, e1, e2⟩
    · rw [e]; exact ih
    · refine ⟨by rw [e2]; exact ih.1, ?_⟩
      rw [e1, List.map_cons, map_data_length hm]
      intro n hn
      rcases List.mem_cons.mp hn with rfl | hn
      · exact hs
      · exact ih.2 n hn
  | @fin w width height md fast _ ih =>
    rw [finalize_fst]; exact ih

/-- both timing invariants hold in every reachable writer state -/
theorem Writer.Reachable.timing {w : Writer} (h : w.Reachable) : VInv w ∧ AInv w := by
  induction h with
  | init c a => exact ⟨TrackInv_nil true, TrackInv_nil false, by simp⟩
  | @video w pts dts data key _ ih =>
    rcases writeVideo_cases w pts dts data key with h' | ⟨_, _, c1, c2, ⟨hp, c, e⟩ | ⟨prev, hp, h1, h2, e⟩⟩
    · rw [h'.1]; exact ih
    · rw [e]
      have hv := ih.1
      unfold VInv at hv; rw [hp] at hv
      exact ⟨TrackInv_push_first hv pts dts _ key ⟨c1, c2⟩, ih.2⟩
    · rw [e]
      have hv := ih.1
      unfold VInv at hv; rw [hp] at hv
      exact ⟨TrackInv_push_next hv pts dts _ key (Nat.le_of_lt h1) (fun _ => h1) h2 ⟨c1, c2⟩, ih.2⟩
  | @audio w pts data _ ih =>
    have hc : -(2^31 : Int) ≤ (pts : Int) - pts ∧ (pts : Int) - pts ≤ 2^31 - 1 := by omega
    rcases writeAudio_cases w pts data with h' | ⟨_, _, sd, ⟨hp, e⟩ | ⟨prev, hp, h1, h2, e⟩⟩
    · rw [h'.1]; exact ih
    · rw [e]
      have ha := ih.2
      unfold AInv at ha; rw [hp] at ha
      refine ⟨ih.1, TrackInv_push_first ha.1 pts pts _ false hc, ?_⟩
      intro s hs
      rcases List.mem_cons.mp hs with rfl | hs
      · rfl
      · exact ha.2 s hs
    · rw [e]
      have ha := ih.2
      unfold AInv at ha; rw [hp] at ha
      refine ⟨ih.1, TrackInv_push_next ha.1 pts pts _ false h1 (by simp) h2 hc, ?_⟩
      intro s hs
      rcases List.mem_cons.mp hs with rfl | hs
      · rfl
      · cases hr : w.asRev with
        | nil => rw [hr] at hs; simp [setLastDur] at hs
        | cons a r =>
          rw [hr] at hs; simp only [setLastDur, List.mem_cons] at hs
          rcases hs with rfl | hs
          · exact ha.2 a (by simp [hr])
          · exact ha.2 s (by simp [hr, hs])
  | @fin w width height md fast _ ih =>
    rw [finalize_fst]; exact ih

/-! ### rejections -/

/-- a decode-time gap above 2^32-1 ticks is rejected with `durationOverflow`, writer unchanged -/
theorem writeVideo_gap_rejected (w : Writer) (pts dts prev : Nat) (data : Bytes) (key : Bool)
    (hf : w.finalized = false) (hp : w.vPrev = some prev) (h1 : prev < dts) (h2 : dts - prev > u32Max) :
    w.writeVideo pts dts data key = (w, .err .durationOverflow) := by
  have h1' : ¬ dts ≤ prev := by omega
  simp only [Writer.writeVideo, hf, hp, h1', h2, Bool.false_eq_true, ↓reduceIte]

/-- a composition offset outside the `i32` range is never accepted -/
theorem writeVideo_cts_not_ok (w : Writer) (pts dts : Nat) (data : Bytes) (key : Bool)
    (h : (pts : Int) - dts > 2^31 - 1 ∨ (pts : Int) - dts < -(2^31)) :
    (w.writeVideo pts dts data key).2 ≠ .ok ∧ (w.writeVideo pts dts data key).1 = w := by
  rcases writeVideo_cases w pts dts data key with h' | ⟨_, _, c1, c2, _⟩
  · exact ⟨h'.2, h'.1⟩
  · omega

/-- … and when all earlier checks pass (timestamp order, gap, payload size) the error is
    `durationOverflow` -/
theorem writeVideo_cts_rejected (w : Writer) (pts dts prev : Nat) (data : Bytes) (key : Bool)
    (hf : w.finalized = false) (hp : w.vPrev = some prev) (h1 : prev < dts) (h2 : dts - prev ≤ u32Max)
    (h3 : (convertPayload w.codec data).length ≤ u32Max)
    (h : (pts : Int) - dts > 2^31 - 1 ∨ (pts : Int) - dts < -(2^31)) :
    w.writeVideo pts dts data key = (w, .err .durationOverflow) := by
  have h1' : ¬ dts ≤ prev := by omega
  have h2' : ¬ dts - prev > u32Max := by omega
  have h3' : ¬ (convertPayload w.codec data).length > u32Max := by omega
  simp only [Writer.writeVideo, hf, hp, h1', h2', h3', h, Bool.false_eq_true, ↓reduceIte]

theorem writeVideo_cts_rejected_first (w : Writer) (pts dts : Nat) (data : Bytes) (c : VideoConfig)
    (hf : w.finalized = false) (hp : w.vPrev = none) (hc : extractConfig w.codec data = .some c)
    (h3 : (convertPayload w.codec data).length ≤ u32Max)
    (h : (pts : Int) - dts > 2^31 - 1 ∨ (pts : Int) - dts < -(2^31)) :
    w.writeVideo pts dts data true = (w, .err .durationOverflow) := by
  have h3' : ¬ (convertPayload w.codec data).length > u32Max := by omega
  simp only [Writer.writeVideo, hf, hp, hc, h3', h, not_true_eq_false, Bool.false_eq_true, ↓reduceIte]

/-- an audio gap above 2^32-1 ticks is rejected likewise -/
theorem writeAudio_gap_rejected (w : Writer) (pts prev : Nat) (data : Bytes) (tr : AudioTrack)
    (hf : w.finalized = false) (ha : w.audio = some tr) (hp : w.aPrev = some prev) (h1 : prev ≤ pts)
    (h2 : pts - prev > u32Max) :
    w.writeAudio pts data = (w, .err .durationOverflow) := by
  have h1' : ¬ pts < prev := by omega
  simp only [Writer.writeAudio, hf, ha, hp, h1', h2, Bool.false_eq_true, ↓reduceIte]

/-- `finalize` refuses a track whose total duration does not fit the 32-bit mdhd field -/
theorem finalize_duration_rejected (w : Writer) (width height : Nat) (md : Option Metadata) (fast : Bool)
    (hf : w.finalized = false)
    (h : (durationsOf w.vsRev.reverse w.vLastDelta).sum > u32Max ∨
         (durationsOf w.asRev.reverse w.aLastDelta).sum > u32Max) :
    (w.finalize width height md fast).2 = ⟨[], .ioErr "MP4 track duration exceeds u32::MAX media ticks"⟩ := by
  simp only [Writer.finalize, hf, h, Bool.false_eq_true, ↓reduceIte]

/-- `finalize` refuses dimensions that do not fit the 16-bit sample-entry fields -/
theorem finalize_dims_rejected (w : Writer) (width height : Nat) (md : Option Metadata) (fast : Bool)
    (hf : w.finalized = false)
    (hd : (durationsOf w.vsRev.reverse w.vLastDelta).sum ≤ u32Max ∧
          (durationsOf w.asRev.reverse w.aLastDelta).sum ≤ u32Max)
    (h : width > 65535 ∨ height > 65535) :
    (w.finalize width height md fast).2 = ⟨[], .ioErr "video width and height must fit in 16 bits"⟩ := by
  have hd' : ¬ ((durationsOf w.vsRev.reverse w.vLastDelta).sum > u32Max ∨
         (durationsOf w.asRev.reverse w.aLastDelta).sum > u32Max) := by omega
  simp only [Writer.finalize, hf, hd', h, Bool.false_eq_true, ↓reduceIte]

/-- so a successful `finalize` had dimensions below 2^16 -/
theorem finalize_ok_dims (w : Writer) (width height : Nat) (md : Option Metadata) (fast : Bool)
    (h : (w.finalize width height md fast).2.res = .ok) : width ≤ 65535 ∧ height ≤ 65535 := by
  by_cases hf : w.finalized = true
  · rw [finalize_of_finalized w width height md fast hf] at h; simp at h
  have hf' : w.finalized = false := by simpa using hf
  by_cases hd : (durationsOf w.vsRev.reverse w.vLastDelta).sum > u32Max ∨
         (durationsOf w.asRev.reverse w.aLastDelta).sum > u32Max
  · rw [finalize_duration_rejected w width height md fast hf' hd] at h; simp at h
  by_cases hw : width > 65535 ∨ height > 65535
  · rw [finalize_dims_rejected w width height md fast hf' (by omega) hw] at h; simp at h
  omega

/-! ### sample counts of a finished file -/

theorem moovPanics_sizes (width height : Nat) (vs aus : List Sample) (b : Bool)
    (h : moovPanics width height vs aus b = false) :
    (∀ s ∈ vs, 1 ≤ s.data.length) ∧ (b = true → ∀ s ∈ aus, 1 ≤ s.data.length) := by
  simp only [moovPanics, Bool.or_eq_false_iff, Bool.and_eq_false_imp] at h
  refine ⟨?_, ?_⟩
  · intro s hs
    have := h.1.2
    rw [List.any_eq_false] at this
    have := this s hs
    simp at this
    cases hd : s.data with
    | nil => exact absurd hd this
    | cons a r => simp
  · intro hb s hs
    have := h.2 hb
    rw [List.any_eq_false] at this
    have := this s hs
    simp at this
    cases hd : s.data with
    | nil => exact absurd hd this
    | cons a r => simp

theorem length_le_sum_sizes (l : List Sample) (h : ∀ s ∈ l, 1 ≤ s.data.length) :
    l.length ≤ (l.map (·.data.length)).sum := by
  induction l with
  | nil => simp
  | cons a l ih =>
    have h1 := h a (by simp)
    have h2 := ih (fun s hs => h s (by simp [hs]))
    simp only [List.length_cons, List.map_cons, List.sum_cons]
    omega

theorem finalizeStandard_ok_count (w : Writer) (width height : Nat) (md : Option Metadata) (vc : VideoConfig)
    (h : (finalizeStandard w width height md vc).res = .ok) :
    w.vsRev.length < 2^32 ∧ (w.audio.isSome → w.asRev.length < 2^32) := by
  unfold finalizeStandard at h
  simp only [] at h
  split at h
  · next ha =>
    split at h
    · simp at h
    · next h1 =>
      split at h
      · simp at h
      · next hp =>
        have hz := moovPanics_sizes _ _ _ _ _ (by simpa using hp)
        refine ⟨?_, by simp [ha]⟩
        by_cases hv : w.vsRev.reverse = []
        · have : w.vsRev = [] := by simpa using hv
          simp [this]
        · have hle := length_le_sum_sizes w.vsRev.reverse hz.1
          have h1' : ¬ 8 + (w.vsRev.reverse.map (·.data.length)).sum > u32Max := fun hh => h1 ⟨hv, hh⟩
          simp only [u32Max, List.length_reverse] at hle h1'
          omega
  · next tr ha =>
    split at h
    · simp at h
    · next h1 =>
      split at h
      · simp at h
      · split at h
        · simp at h
        · next hp =>
          have hz := moovPanics_sizes _ _ _ _ _ (by simpa using hp)
          have hle := length_le_sum_sizes w.vsRev.reverse hz.1
          have hle2 := length_le_sum_sizes w.asRev.reverse (hz.2 rfl)
          simp only [u32Max, List.length_reverse] at hle hle2 h1
          exact ⟨by omega, fun _ => by omega⟩

theorem finalizeFastStart_ok_count (w : Writer) (width height : Nat) (md : Option Metadata) (vc : VideoConfig)
    (h : (finalizeFastStart w width height md vc).res = .ok) :
    w.vsRev.length < 2^32 ∧ (w.audio.isSome → w.asRev.length < 2^32) := by
  unfold finalizeFastStart at h
  simp only [] at h
  split at h
  · simp at h
  · next h1 =>
    split at h
    · next tr ha =>
      split at h
      · simp at h
      · next hp =>
        have hz := moovPanics_sizes _ _ _ _ _ (by simpa using hp)
        have hle := length_le_sum_sizes w.vsRev.reverse hz.1
        have hle2 := length_le_sum_sizes w.asRev.reverse (hz.2 rfl)
        simp only [u32Max, List.length_reverse] at hle hle2 h1
        exact ⟨by omega, fun _ => by omega⟩
    · next ha =>
      split at h
      · simp at h
      · next hp =>
        have hz := moovPanics_sizes _ _ _ _ _ (by simpa using hp)
        have hle := length_le_sum_sizes w.vsRev.reverse hz.1
        simp only [u32Max, List.length_reverse] at hle h1
        exact ⟨by omega, by simp [ha]⟩

/-- a finished file has fewer than 2^32 samples per track (every sample has at least one byte and
    the mdat size fits 32 bits), so the 32-bit entry counts are exact -/
theorem finalize_ok_count (w : Writer) (width height : Nat) (md : Option Metadata) (fast : Bool)
    (h : (w.finalize width height md fast).2.res = .ok) :
    w.vsRev.length < 2^32 ∧ (w.audio.isSome → w.asRev.length < 2^32) := by
  unfold Writer.finalize at h
  split at h
  · simp at h
  · simp only [] at h
    split at h
    · simp at h
    · split at h
      · simp at h
      · cases fast
        · exact finalizeStandard_ok_count _ _ _ _ _ (by simpa using h)
        · exact finalizeFastStart_ok_count _ _ _ _ _ (by simpa using h)

end Muxide
