import Muxide.Lemmas.Box
import Muxide.Lemmas.Tables
import Muxide.Lemmas.Mp4Shape
/-
  Muxide.Lemmas.Layout — the chunk sequences of the finalize layouts and of the fragmented
  writer, as serialised top-level box sequences.
-/
namespace Muxide
open Muxide.Spec

/-- the media-data box -/
def mdatBox (payload : Bytes) : Box := Box.mk (ascii "mdat") payload []

theorem mdat_ser (payload : Bytes) (n : Nat) (h : payload.length = n) :
    (mdatBox payload).ser = u32be (8 + n) ++ ascii "mdat" ++ payload := by
  simp [mdatBox, Box.ser, Box.sers, Box.sizes, h]

theorem flatten_map_data (vs : List Sample) : (vs.map (·.data)).flatten = vs.flatMap (·.data) := by
  simp [List.flatMap_def]

theorem data_length_sum (vs : List Sample) : (vs.flatMap (·.data)).length = (vs.map (·.data.length)).sum :=
  length_flatMap_sum vs _

/-- a successful `finalize` is the selected layout applied to the stored samples -/
theorem finalize_ok (w : Writer) (width height : Nat) (md : Option Metadata) (fast : Bool)
    (h : (w.finalize width height md fast).2.res = .ok) :
    (w.finalize width height md fast).2 =
      (if fast then finalizeFastStart w width height md (w.vConfig.getD (.avc defaultAvc))
       else finalizeStandard w width height md (w.vConfig.getD (.avc defaultAvc))) := by
  unfold Writer.finalize at h ⊢
  split at h
  · simp at h
  split at h
  · simp at h
  split at h
  · simp at h
  rename_i h1 h2 h3
  simp only [h1, h2, h3]
  simp

theorem standard_video (w : Writer) (width height : Nat) (md : Option Metadata) (vc : VideoConfig)
    (ha : w.audio = none) (hok : (finalizeStandard w width height md vc).res = .ok) :
    (w.vsRev.reverse = [] →
      (finalizeStandard w width height md vc).chunks.flatten =
        Box.sers [bFtyp, bMoov width height (Tables.ofSamples [] [] 0 w.vLastDelta) none vc md]) ∧
    (w.vsRev.reverse ≠ [] →
      (finalizeStandard w width height md vc).chunks.flatten =
        Box.sers [bFtyp, mdatBox (w.vsRev.reverse.flatMap (·.data)),
          bMoov width height (Tables.ofSamples w.vsRev.reverse [ftypLen + 8] w.vsRev.reverse.length w.vLastDelta) none vc md] ∧
      8 + (w.vsRev.reverse.flatMap (·.data)).length ≤ u32Max) := by
  unfold finalizeStandard at hok ⊢
  simp only [ha] at hok ⊢
  generalize w.vsRev.reverse = vs at hok ⊢
  by_cases hv : vs = []
  · subst hv
    simp at hok ⊢
    split at hok
    · simp at hok
    · rename_i hp
      simp [hp, Box.sers]
  · simp only [ne_eq, hv, not_false_eq_true, true_and, if_true, false_implies, forall_const,
      ] at hok ⊢
    split at hok
    · simp at hok
    rename_i hsz
    split at hok
    · simp at hok
    rename_i hp
    simp only [hsz, hp, if_false]
    refine ⟨?_, by rw [data_length_sum]; omega⟩
    rw [Box.sers, Box.sers, Box.sers, Box.sers, mdat_ser _ _ (data_length_sum _)]
    simp [mdatHeader, flatten_map_data]


theorem flatten_map_ent (vs aus : List Sample) (l : List Ent) :
    (l.map (entData vs aus)).flatten = l.flatMap (entData vs aus) := by
  simp [List.flatMap_def]

theorem standard_audio (w : Writer) (width height : Nat) (md : Option Metadata) (vc : VideoConfig)
    (tr : AudioTrack) (ha : w.audio = some tr) (hok : (finalizeStandard w width height md vc).res = .ok)
    (vs aus : List Sample) (hvs : w.vsRev.reverse = vs) (haus : w.asRev.reverse = aus) :
    (finalizeStandard w width height md vc).chunks.flatten =
      Box.sers [bFtyp, mdatBox ((schedule vs aus).flatMap (entData vs aus)),
        bMoov width height
          (Tables.ofSamples vs (assignOffsets (entSize vs aus) (schedule vs aus) (ftypLen + 8)).1 1 w.vLastDelta)
          (some (tr, Tables.ofSamples aus (assignOffsets (entSize vs aus) (schedule vs aus) (ftypLen + 8)).2 1
            w.aLastDelta)) vc md] ∧
    8 + ((schedule vs aus).flatMap (entData vs aus)).length ≤ u32Max := by
  unfold finalizeStandard at hok ⊢
  simp only [ha, hvs, haus] at hok ⊢
  split at hok
  · simp at hok
  rename_i hsz
  split at hok
  · simp at hok
  rename_i hoff
  split at hok
  · simp at hok
  rename_i hp
  simp only [hsz, hoff, hp, if_false]
  have hl := schedule_payload_length vs aus
  refine ⟨?_, by rw [hl]; omega⟩
  rw [Box.sers, Box.sers, Box.sers, Box.sers, mdat_ser _ _ hl]
  simp [mdatHeader, flatten_map_ent]

theorem fast_audio (w : Writer) (width height : Nat) (md : Option Metadata) (vc : VideoConfig)
    (tr : AudioTrack) (ha : w.audio = some tr) (hok : (finalizeFastStart w width height md vc).res = .ok)
    (vs aus : List Sample) (hvs : w.vsRev.reverse = vs) (haus : w.asRev.reverse = aus) :
    ∃ vo ao, vo.length = vs.length ∧ ao.length = aus.length ∧
    (finalizeFastStart w width height md vc).chunks.flatten =
      Box.sers [bFtyp,
        bMoov width height (Tables.ofSamples vs vo 1 w.vLastDelta)
          (some (tr, Tables.ofSamples aus ao 1 w.aLastDelta)) vc md,
        mdatBox ((schedule vs aus).flatMap (entData vs aus))] ∧
    8 + ((schedule vs aus).flatMap (entData vs aus)).length ≤ u32Max := by
  unfold finalizeFastStart at hok ⊢
  simp only [ha, hvs, haus] at hok ⊢
  split at hok
  · simp at hok
  rename_i hsz
  split at hok
  · simp at hok
  rename_i hp
  split at hok
  · simp at hok
  rename_i hmx
  simp only [Bool.not_eq_true] at hp
  simp only [hsz, hp, hmx, if_false, Bool.false_eq_true]
  have hl := schedule_payload_length vs aus
  have key : ∀ (vo ao : List Nat),
      ([bFtyp.ser, (bMoov width height (Tables.ofSamples vs vo 1 w.vLastDelta)
          (some (tr, Tables.ofSamples aus ao 1 w.aLastDelta)) vc md).ser] ++
        mdatHeader ((vs.map (·.data.length)).sum + (aus.map (·.data.length)).sum) ++
        (schedule vs aus).map (entData vs aus)).flatten =
      Box.sers [bFtyp,
        bMoov width height (Tables.ofSamples vs vo 1 w.vLastDelta)
          (some (tr, Tables.ofSamples aus ao 1 w.aLastDelta)) vc md,
        mdatBox ((schedule vs aus).flatMap (entData vs aus))] := by
    intro vo ao
    rw [Box.sers, Box.sers, Box.sers, Box.sers, mdat_ser _ _ hl]
    simp [mdatHeader, flatten_map_ent]
  exact ⟨_, _, (schedule_offsets_length _ vs aus _).1, (schedule_offsets_length _ vs aus _).2, key _ _,
    by rw [hl]; omega⟩

theorem fast_video (w : Writer) (width height : Nat) (md : Option Metadata) (vc : VideoConfig)
    (ha : w.audio = none) (hinv : w.asRev = []) (hok : (finalizeFastStart w width height md vc).res = .ok)
    (vs : List Sample) (hvs : w.vsRev.reverse = vs) :
    ∃ offs spc, ((vs = [] ∧ offs = [] ∧ spc = 0) ∨ (vs ≠ [] ∧ offs.length = 1 ∧ spc = vs.length)) ∧
    (finalizeFastStart w width height md vc).chunks.flatten =
      Box.sers [bFtyp, bMoov width height (Tables.ofSamples vs offs spc w.vLastDelta) none vc md,
        mdatBox (vs.flatMap (·.data))] ∧
    8 + (vs.flatMap (·.data)).length ≤ u32Max := by
  unfold finalizeFastStart at hok ⊢
  simp only [ha, hinv, hvs] at hok ⊢
  split at hok
  · simp at hok
  rename_i hsz
  split at hok
  · simp at hok
  rename_i hp
  simp only [Bool.not_eq_true] at hp
  simp only [hsz, hp, if_false, Bool.false_eq_true] at hok ⊢
  have hl : (vs.flatMap (·.data)).length =
      (vs.map (·.data.length)).sum + (([] : List Sample).reverse.map (·.data.length)).sum := by
    simp
  have key : ∀ (offs : List Nat) (spc : Nat),
      ([bFtyp.ser, (bMoov width height (Tables.ofSamples vs offs spc w.vLastDelta) none vc md).ser] ++
        mdatHeader ((vs.map (·.data.length)).sum + (([] : List Sample).reverse.map (·.data.length)).sum) ++
        vs.map (·.data)).flatten =
      Box.sers [bFtyp, bMoov width height (Tables.ofSamples vs offs spc w.vLastDelta) none vc md,
        mdatBox (vs.flatMap (·.data))] := by
    intro offs spc
    rw [Box.sers, Box.sers, Box.sers, Box.sers, mdat_ser _ _ hl]
    simp [mdatHeader, flatten_map_data]
  by_cases hv : vs = []
  · subst hv
    simp only [ne_eq, not_true_eq_false, false_and, if_false] at hok ⊢
    exact ⟨[], 0, by simp, key _ _, by rw [hl]; omega⟩
  · simp only [ne_eq, hv, not_false_eq_true, true_and, if_true] at hok ⊢
    split at hok
    · simp at hok
    rename_i hmx
    simp only [hmx, if_false]
    exact ⟨[_], _, by simp [hv], key _ _, by rw [hl]; omega⟩

/-! ### the audio queue is empty unless an audio track is configured -/
def AudioInv (w : Writer) : Prop := w.audio = none → w.asRev = []

theorem writeVideo_fields (w : Writer) (pts dts : Nat) (d : Bytes) (k : Bool) :
    (w.writeVideo pts dts d k).1.audio = w.audio ∧ (w.writeVideo pts dts d k).1.asRev = w.asRev := by
  unfold Writer.writeVideo
  grind

theorem writeAudio_fields (w : Writer) (pts : Nat) (d : Bytes) :
    (w.writeAudio pts d).1.audio = w.audio ∧ (w.audio = none → (w.writeAudio pts d).1.asRev = w.asRev) := by
  unfold Writer.writeAudio
  grind

theorem finalize_fields (w : Writer) (a b : Nat) (md : Option Metadata) (f : Bool) :
    (w.finalize a b md f).1.audio = w.audio ∧ (w.finalize a b md f).1.asRev = w.asRev := by
  unfold Writer.finalize
  grind

theorem audioInv_writeVideo (w : Writer) (pts dts : Nat) (d : Bytes) (k : Bool) (h : AudioInv w) :
    AudioInv (w.writeVideo pts dts d k).1 := by
  have := writeVideo_fields w pts dts d k
  unfold AudioInv at *
  rw [this.1, this.2]; exact h

theorem audioInv_writeAudio (w : Writer) (pts : Nat) (d : Bytes) (h : AudioInv w) :
    AudioInv (w.writeAudio pts d).1 := by
  have := writeAudio_fields w pts d
  unfold AudioInv at *
  rw [this.1]; intro hn; rw [this.2 hn]; exact h hn

theorem audioInv_finalize (w : Writer) (a b : Nat) (md : Option Metadata) (f : Bool) (h : AudioInv w) :
    AudioInv (w.finalize a b md f).1 := by
  have := finalize_fields w a b md f
  unfold AudioInv at *
  rw [this.1, this.2]; exact h

theorem audioInv_new (c : VCodec) (a : Option AudioTrack) : AudioInv { codec := c, audio := a } := by
  intro _; rfl

/-! ### fragmented writer -/
theorem fsample_length_sum (samples : List FSample) :
    (samples.flatMap (·.data)).length = (samples.map (·.data.length)).sum :=
  length_flatMap_sum samples _

theorem buildInit_eq (c : FragConfig) : buildInit c = Box.sers [fFtyp, fMoov c] := by
  simp [buildInit, Box.sers]

theorem buildSegment_eq (samples : List FSample) (seq base : Nat) :
    buildSegment samples seq base =
      Box.sers [fMoof samples seq base ((fMoof samples seq base 0).ser.length % 2^32 + 8),
        mdatBox (samples.flatMap (·.data))] := by
  rw [Box.sers, Box.sers, Box.sers, mdat_ser _ _ (fsample_length_sum samples)]
  simp [buildSegment]

theorem moof_size (s : List FSample) (q b off : Nat) :
    Box.size (fMoof s q b off) = 88 +
      ((List.zip (List.range s.length) s).flatMap fun (i, x) => trunRow s i x).length := by
  simp [fMoof, fMfhd, fTfhd, fTfdt, fTrun, Box.node, Box.leaf, Box.sizes, Box.size]
  omega

theorem moof_ser_length (s : List FSample) (q b off : Nat) :
    (fMoof s q b off).ser.length = 88 +
      ((List.zip (List.range s.length) s).flatMap fun (i, x) => trunRow s i x).length := by
  rw [ser_len_shape _ (shape_fMoof s q b off), moof_size]

end Muxide
