import Muxide.Model.Mp4
import Muxide.Spec.Expect
/-
  Muxide.Lemmas.Date — the year loop and the month loop of `days_to_ymd` against the
  calendar-by-summation of `Muxide.Spec.daysFromCivil`.
-/
namespace Muxide
open Muxide.Spec

theorem isLeapYear_eq (y : Nat) : isLeapYear y = isLeap y := by
  unfold isLeapYear isLeap
  by_cases c4 : y % 4 = 0 <;> by_cases c100 : y % 100 = 0 <;> by_cases c400 : y % 400 = 0 <;>
    simp [c4, c100, c400]

/-- days from 1970-01-01 to y-01-01, the year summand of `daysFromCivil` -/
def yearSum (y : Nat) : Nat :=
  ((List.range (y - 1970)).map fun i => if isLeapYear (1970 + i) then 366 else 365).sum

/-- days from y-01-01 to y-m-01, the month summand of `daysFromCivil` -/
def monthSum (y m : Nat) : Nat :=
  ((List.range (m - 1)).map fun i => daysInMonth y (i + 1)).sum

theorem daysFromCivil_eq (y m d : Nat) : daysFromCivil y m d = yearSum y + monthSum y m + (d - 1) := rfl

theorem yearLen_ge (y : Nat) : 365 ≤ yearLen y := by unfold yearLen; split <;> omega

theorem yearSum_succ (y : Nat) (hy : 1970 ≤ y) : yearSum (y + 1) = yearSum y + yearLen y := by
  unfold yearSum yearLen
  have e : y + 1 - 1970 = (y - 1970) + 1 := by omega
  rw [e, List.range_succ, List.map_append, List.sum_append]
  have e2 : 1970 + (y - 1970) = y := by omega
  simp [e2, isLeapYear_eq]

theorem yearLoop_spec (f y r : Nat) (hy : 1970 ≤ y) (hf : r < 365 * f + 365) :
    1970 ≤ (yearLoop f y r).1 ∧ (yearLoop f y r).2 < yearLen (yearLoop f y r).1 ∧
      yearSum (yearLoop f y r).1 + (yearLoop f y r).2 = yearSum y + r := by
  induction f generalizing y r with
  | zero =>
    have hl := yearLen_ge y
    simp [yearLoop]; exact ⟨hy, by omega⟩
  | succ f ih =>
    unfold yearLoop
    split
    · simp_all
    · next h =>
      have hl := yearLen_ge y
      have := ih (y + 1) (r - yearLen y) (by omega) (by omega)
      rw [yearSum_succ y hy] at this
      obtain ⟨h1, h2, h3⟩ := this
      exact ⟨h1, h2, by omega⟩

theorem yearSum_1970 : yearSum 1970 = 0 := by simp [yearSum]

/-! ### month loop -/

theorem monthLoop_spec (ls : List Nat) (m r : Nat) (h : r < ls.sum) :
    m ≤ (monthLoop ls m r).1 ∧ (monthLoop ls m r).1 < m + ls.length ∧
    (∃ l, ls[(monthLoop ls m r).1 - m]? = some l ∧ (monthLoop ls m r).2 < l) ∧
    (ls.take ((monthLoop ls m r).1 - m)).sum + (monthLoop ls m r).2 = r := by
  induction ls generalizing m r with
  | nil => simp at h
  | cons l ls ih =>
    unfold monthLoop
    split
    · next hl => simp; exact hl
    · next hl =>
      have hs : r - l < ls.sum := by simp at h; omega
      obtain ⟨h1, h2, ⟨l', h3, h3'⟩, h4⟩ := ih (m + 1) (r - l) hs
      have e : (monthLoop ls (m + 1) (r - l)).1 - m = ((monthLoop ls (m + 1) (r - l)).1 - (m + 1)) + 1 := by omega
      refine ⟨by omega, by simp; omega, ⟨l', ?_, h3'⟩, ?_⟩
      · rw [e]; simpa using h3
      · rw [e]; simp; omega

theorem monthLens_eq (y : Nat) : monthLens y = (List.range 12).map fun i => daysInMonth y (i + 1) := by
  unfold monthLens
  cases h : isLeap y <;> simp [daysInMonth, isLeapYear_eq, h, List.range, List.range.loop]

theorem monthLens_sum (y : Nat) : (monthLens y).sum = yearLen y := by
  unfold monthLens yearLen
  cases h : isLeap y <;> simp

theorem monthLens_length (y : Nat) : (monthLens y).length = 12 := by
  unfold monthLens; split <;> rfl

theorem monthLens_take (y k : Nat) (hk : k ≤ 12) :
    ((monthLens y).take k).sum = monthSum y (k + 1) := by
  rw [monthLens_eq, ← List.map_take, List.take_range, Nat.min_eq_left hk]
  rfl

theorem monthLens_get (y k l : Nat) (h : (monthLens y)[k]? = some l) : l = daysInMonth y (k + 1) := by
  rw [monthLens_eq] at h
  simp at h
  obtain ⟨a, ha, hl⟩ := h
  rw [List.getElem?_range] at ha
  · simp at ha; subst ha; exact hl.symm
  · rcases Nat.lt_or_ge k 12 with hk | hk
    · exact hk
    · rw [List.getElem?_eq_none (by simpa using hk)] at ha; simp at ha

/-! ### closed form of the year sum (used for the four-digit-year bound) -/

/-- leap years in 1..y -/
def leapsUpTo (y : Nat) : Nat := y / 4 - y / 100 + y / 400

theorem leapsUpTo_succ (y : Nat) : leapsUpTo (y + 1) = leapsUpTo y + (if isLeap (y + 1) then 1 else 0) := by
  unfold leapsUpTo isLeap
  have h4 : (y + 1) / 4 = y / 4 + (if (y + 1) % 4 = 0 then 1 else 0) := by split <;> omega
  have h100 : (y + 1) / 100 = y / 100 + (if (y + 1) % 100 = 0 then 1 else 0) := by split <;> omega
  have h400 : (y + 1) / 400 = y / 400 + (if (y + 1) % 400 = 0 then 1 else 0) := by split <;> omega
  have m1 : y / 100 ≤ y / 4 := by omega
  rw [h4, h100, h400]
  by_cases c4 : (y + 1) % 4 = 0 <;> by_cases c100 : (y + 1) % 100 = 0 <;> by_cases c400 : (y + 1) % 400 = 0 <;>
    simp [c4, c100, c400] <;> omega

theorem leapsUpTo_1969 : leapsUpTo 1969 = 477 := by decide

theorem yearSum_closed (y : Nat) (hy : 1970 ≤ y) : yearSum y + 477 = 365 * (y - 1970) + leapsUpTo (y - 1) := by
  induction y with
  | zero => omega
  | succ y ih =>
    by_cases h : 1970 ≤ y
    · have ih := ih h
      rw [yearSum_succ y h]
      have e : y + 1 - 1 = (y - 1) + 1 := by omega
      have e2 : y - 1 + 1 = y := by omega
      rw [e, leapsUpTo_succ, e2]
      unfold yearLen
      split <;> omega
    · have : y + 1 = 1970 := by omega
      rw [this, yearSum_1970]; decide

theorem yearSum_mono (y z : Nat) (hy : 1970 ≤ y) (h : y ≤ z) : yearSum y ≤ yearSum z := by
  induction z with
  | zero => omega
  | succ z ih =>
    by_cases hz : y ≤ z
    · rw [yearSum_succ z (by omega)]; have := ih hz; omega
    · have : y = z + 1 := by omega
      rw [this]; exact Nat.le_refl _

theorem yearSum_10000 : yearSum 10000 = 2932897 := by
  have h := yearSum_closed 10000 (by omega)
  have e : leapsUpTo (10000 - 1) = 2424 := by decide
  rw [e] at h
  generalize yearSum 10000 = x at h ⊢
  omega

/-! ### whole 400-year cycles -/

theorem leapsUpTo_cycle (c : Nat) : leapsUpTo (1969 + 400 * c) = 477 + 97 * c := by
  unfold leapsUpTo
  omega

/-- 400 consecutive Gregorian years have 146 097 days: `(1970 + 400·c)-01-01` is day `146097·c` -/
theorem yearSum_cycle (c : Nat) : yearSum (1970 + 400 * c) = 146097 * c := by
  have h := yearSum_closed (1970 + 400 * c) (by omega)
  have e : 1970 + 400 * c - 1 = 1969 + 400 * c := by omega
  rw [e, leapsUpTo_cycle] at h
  omega

theorem daysFromCivil_cycle (c : Nat) : daysFromCivil (1970 + 400 * c) 1 1 = 146097 * c := by
  rw [daysFromCivil_eq, yearSum_cycle]
  simp [monthSum]

theorem yearSum_add_400 (y : Nat) (hy : 1970 ≤ y) : yearSum (y + 400) = yearSum y + 146097 := by
  have h1 := yearSum_closed y hy
  have h2 := yearSum_closed (y + 400) (by omega)
  have e : leapsUpTo (y + 400 - 1) = leapsUpTo (y - 1) + 97 := by
    unfold leapsUpTo
    omega
  rw [e] at h2
  omega

/-- the year loop of the model: start year `1970 + 400·(days / 146097)`, remainder
    `days % 146097`, constant fuel 401 — the fuel always suffices -/
theorem yearLoop_days (days : Nat) :
    1970 ≤ (yearLoop 401 (1970 + 400 * (days / 146097)) (days % 146097)).1 ∧
    (yearLoop 401 (1970 + 400 * (days / 146097)) (days % 146097)).2 <
      yearLen (yearLoop 401 (1970 + 400 * (days / 146097)) (days % 146097)).1 ∧
    yearSum (yearLoop 401 (1970 + 400 * (days / 146097)) (days % 146097)).1 +
      (yearLoop 401 (1970 + 400 * (days / 146097)) (days % 146097)).2 = days := by
  have hm : days % 146097 < 146097 := Nat.mod_lt _ (by omega)
  have h := yearLoop_spec 401 (1970 + 400 * (days / 146097)) (days % 146097) (by omega) (by omega)
  rw [yearSum_cycle] at h
  have hd := Nat.div_add_mod days 146097
  omega

theorem daysToYmd_eq (days : Nat) : daysToYmd days =
    ((yearLoop 401 (1970 + 400 * (days / 146097)) (days % 146097)).1,
     (monthLoop (monthLens (yearLoop 401 (1970 + 400 * (days / 146097)) (days % 146097)).1) 1
        (yearLoop 401 (1970 + 400 * (days / 146097)) (days % 146097)).2).1,
     (monthLoop (monthLens (yearLoop 401 (1970 + 400 * (days / 146097)) (days % 146097)).1) 1
        (yearLoop 401 (1970 + 400 * (days / 146097)) (days % 146097)).2).2 + 1) := rfl

/-- `days_to_ymd` returns a valid civil date whose day number (by summation) is the input —
    for every natural number of days. -/
theorem daysToYmd_spec (days : Nat) :
    validCivil (daysToYmd days).1 (daysToYmd days).2.1 (daysToYmd days).2.2 = true ∧
    daysFromCivil (daysToYmd days).1 (daysToYmd days).2.1 (daysToYmd days).2.2 = days := by
  obtain ⟨hy, hr, hs⟩ := yearLoop_days days
  rw [daysToYmd_eq]
  generalize (yearLoop 401 (1970 + 400 * (days / 146097)) (days % 146097)).1 = y at *
  generalize (yearLoop 401 (1970 + 400 * (days / 146097)) (days % 146097)).2 = r at *
  rw [← monthLens_sum] at hr
  obtain ⟨m1, m2, ⟨l, m3, m3'⟩, m4⟩ := monthLoop_spec (monthLens y) 1 r hr
  rw [monthLens_length] at m2
  generalize (monthLoop (monthLens y) 1 r).1 = m at *
  generalize (monthLoop (monthLens y) 1 r).2 = r' at *
  have hl := monthLens_get y _ _ m3
  have e1 : m - 1 + 1 = m := by omega
  rw [e1] at hl
  rw [monthLens_take y (m - 1) (by omega), e1] at m4
  constructor
  · simp [validCivil]
    refine ⟨hy, m1, by omega, by omega⟩
  · rw [daysFromCivil_eq]
    simp only []
    omega

/-- before 10000-01-01T00:00:00Z the year has at most four digits -/
theorem daysToYmd_year_lt (days : Nat) (h : days < 2932897) : (daysToYmd days).1 < 10000 := by
  obtain ⟨hy, _, hs⟩ := yearLoop_days days
  have e : (daysToYmd days).1 = (yearLoop 401 (1970 + 400 * (days / 146097)) (days % 146097)).1 := rfl
  rw [e]
  generalize (yearLoop 401 (1970 + 400 * (days / 146097)) (days % 146097)).1 = y at *
  rcases Nat.lt_or_ge y 10000 with c | c
  · exact c
  · have := yearSum_mono 10000 _ (by omega) c
    rw [yearSum_10000] at this
    omega

theorem daysToYmd_year_ge (days : Nat) (h : 2932897 ≤ days) : 10000 ≤ (daysToYmd days).1 := by
  obtain ⟨hy, hr, hs⟩ := yearLoop_days days
  have e : (daysToYmd days).1 = (yearLoop 401 (1970 + 400 * (days / 146097)) (days % 146097)).1 := rfl
  rw [e]
  generalize (yearLoop 401 (1970 + 400 * (days / 146097)) (days % 146097)).1 = y at *
  rcases Nat.lt_or_ge y 10000 with c | c
  · have := yearSum_mono (y + 1) 10000 (by omega) (by omega)
    rw [yearSum_10000, yearSum_succ _ hy] at this
    omega
  · exact c

/-! ### iteration count of the year loop -/

/-- number of times the body of the year loop runs (mirror of `yearLoop`) -/
def yearLoopSteps : Nat → Nat → Nat → Nat
  | 0, _, _ => 0
  | f + 1, y, r => if r < yearLen y then 0 else yearLoopSteps f (y + 1) (r - yearLen y) + 1

/-- the loop advances the year by one per iteration -/
theorem yearLoop_year (f y r : Nat) : (yearLoop f y r).1 = y + yearLoopSteps f y r := by
  induction f generalizing y r with
  | zero => simp [yearLoop, yearLoopSteps]
  | succ f ih =>
    unfold yearLoop yearLoopSteps
    split
    · simp
    · rw [ih]; omega

theorem yearLoopSteps_le_fuel (f y r : Nat) : yearLoopSteps f y r ≤ f := by
  induction f generalizing y r with
  | zero => simp [yearLoopSteps]
  | succ f ih =>
    unfold yearLoopSteps
    split
    · omega
    · have := ih (y + 1) (r - yearLen y); omega

/-- every iteration consumes a whole year: the days of the years stepped over fit in `r` -/
theorem yearLoopSteps_sum (f y r : Nat) (hy : 1970 ≤ y) :
    yearSum (y + yearLoopSteps f y r) ≤ yearSum y + r := by
  induction f generalizing y r with
  | zero => simp [yearLoopSteps]
  | succ f ih =>
    unfold yearLoopSteps
    split
    · simp
    · next h =>
      have := ih (y + 1) (r - yearLen y) (by omega)
      rw [yearSum_succ y hy] at this
      have e : y + (yearLoopSteps f (y + 1) (r - yearLen y) + 1) =
          y + 1 + yearLoopSteps f (y + 1) (r - yearLen y) := by omega
      rw [e]
      omega

/-- with fewer than 146 097 days left, the loop body runs fewer than 400 times — whatever the
    fuel and the start year -/
theorem yearLoopSteps_lt_400 (f y r : Nat) (hy : 1970 ≤ y) (hr : r < 146097) :
    yearLoopSteps f y r < 400 := by
  rcases Nat.lt_or_ge (yearLoopSteps f y r) 400 with c | c
  · exact c
  · have h1 := yearLoopSteps_sum f y r hy
    have h2 := yearSum_mono (y + 400) (y + yearLoopSteps f y r) (by omega) (by omega)
    rw [yearSum_add_400 y hy] at h2
    omega

/-- more fuel than iterations: the result does not depend on the fuel -/
theorem yearLoop_fuel_irrel (f g y r : Nat) (hf : yearLoopSteps f y r < f) (hg : f ≤ g) :
    yearLoop g y r = yearLoop f y r := by
  induction f generalizing g y r with
  | zero => omega
  | succ f ih =>
    obtain ⟨g, rfl⟩ : ∃ g', g = g' + 1 := ⟨g - 1, by omega⟩
    unfold yearLoopSteps at hf
    unfold yearLoop
    split
    · rfl
    · next h =>
      rw [if_neg h] at hf
      exact ih g (y + 1) (r - yearLen y) (by omega) (by omega)

end Muxide
