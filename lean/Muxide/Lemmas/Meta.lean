import Muxide.Lemmas.Date
import Muxide.Lemmas.Bytes
/-
  Muxide.Lemmas.Meta — time of day, zero-padded decimal fields, the packed language code,
  and the shape of the user-data box.
-/
namespace Muxide
open Muxide.Spec Box

/-! ### time of day -/
theorem mod86400_mod3600 (s : Nat) : s % 86400 % 3600 = s % 3600 := by omega
theorem mod3600_mod60 (s : Nat) : s % 3600 % 60 = s % 60 := by omega
theorem split3600 (r : Nat) : r = r / 3600 * 3600 + r % 3600 := by omega
theorem split60 (r : Nat) : r = r / 60 * 60 + r % 60 := by omega

theorem time_of_day (secs : Nat) :
    secs = (secs / 86400) * 86400 + (secs % 86400 / 3600) * 3600 + (secs % 3600 / 60) * 60 + secs % 60 := by
  have h1 : secs / 86400 * 86400 + secs % 86400 = secs := Nat.div_add_mod' secs 86400
  have h2 : secs % 86400 = secs % 86400 / 3600 * 3600 + secs % 3600 := by omega
  have h3 : secs % 3600 = secs % 3600 / 60 * 60 + secs % 60 := by omega
  omega

/-! ### decimal fields -/
theorem decDigits_length (n : Nat) : (decDigits n).length = (Nat.toDigits 10 n).length := by
  simp [decDigits]

theorem decDigits_length_le (w n : Nat) (hw : 0 < w) (h : n < 10 ^ w) : (decDigits n).length ≤ w := by
  rw [decDigits_length]; exact (Nat.length_toDigits_le_iff (by omega) hw).2 h

theorem padNum_length (w n : Nat) (hw : 0 < w) (h : n < 10 ^ w) : (padNum w n).length = w := by
  have := decDigits_length_le w n hw h
  simp [padNum]; omega

/-- value of a string of ASCII decimal digits -/
def decValue (b : Bytes) : Nat := b.foldl (fun acc c => 10 * acc + (c.toNat - 48)) 0

theorem u8_digit (c : Char) (h : c.isDigit = true) : (u8 c.toNat).toNat = c.toNat ∧ 48 ≤ c.toNat ∧ c.toNat ≤ 57 := by
  simp [Char.isDigit] at h
  have h1 : 48 ≤ c.toNat := by
    have := h.1; rw [UInt32.le_iff_toNat_le] at this; simpa using this
  have h2 : c.toNat ≤ 57 := by
    have := h.2; rw [UInt32.le_iff_toNat_le] at this; simpa using this
  refine ⟨?_, h1, h2⟩
  simp [u8, UInt8.toNat_ofNat']; omega

theorem foldl_map_digits (l : List Char) (hl : ∀ c ∈ l, c.isDigit = true) (init : Nat) :
    (l.map fun c => u8 c.toNat).foldl (fun acc c => 10 * acc + (c.toNat - 48)) init = Nat.ofDigitChars 10 l init := by
  induction l generalizing init with
  | nil => simp
  | cons c cs ih =>
    have hc := u8_digit c (hl c (by simp))
    simp only [List.map_cons, List.foldl_cons, Nat.ofDigitChars_cons]
    rw [ih (fun x hx => hl x (by simp [hx])), hc.1]
    rfl

theorem padNum_eq (w n : Nat) :
    padNum w n = (List.replicate (w - (Nat.toDigits 10 n).length) '0' ++ Nat.toDigits 10 n).map fun c => u8 c.toNat := by
  simp [padNum, decDigits, u8]

/-- the padded field is made of ASCII digits and denotes `n` -/
theorem padNum_value (w n : Nat) : decValue (padNum w n) = n ∧ ∀ b ∈ padNum w n, 48 ≤ b.toNat ∧ b.toNat ≤ 57 := by
  have hd : ∀ c ∈ List.replicate (w - (Nat.toDigits 10 n).length) '0' ++ Nat.toDigits 10 n, c.isDigit = true := by
    intro c hc
    rw [List.mem_append] at hc
    rcases hc with hc | hc
    · rw [List.mem_replicate] at hc; rw [hc.2]; rfl
    · exact Nat.isDigit_of_mem_toDigits (by omega) (by omega) hc
  rw [padNum_eq]
  constructor
  · unfold decValue
    rw [foldl_map_digits _ hd, Nat.ofDigitChars_append]
    simp
  · intro b hb
    rw [List.mem_map] at hb
    obtain ⟨c, hc, rfl⟩ := hb
    have := u8_digit c (hd c hc)
    omega

/-! ### language -/
theorem langCode3 (a b c : Nat) :
    langCode [a, b, c] = (a % 2^16 - 0x60) % 32 * 2^10 + (b % 2^16 - 0x60) % 32 * 2^5 + (c % 2^16 - 0x60) % 32 := by
  simp [langCode]

theorem langCode_lt (cps : List Nat) : langCode cps < 2^15 := by
  simp only [langCode]
  omega

theorem unpack_pack (x y z : Nat) (hx : x < 32) (hy : y < 32) (hz : z < 32) :
    unpackLang (x * 2^10 + y * 2^5 + z) = [x + 0x60, y + 0x60, z + 0x60] := by
  simp only [unpackLang]
  have h1 : (x * 2^10 + y * 2^5 + z) / 1024 % 32 = x := by omega
  have h2 : (x * 2^10 + y * 2^5 + z) / 32 % 32 = y := by omega
  have h3 : (x * 2^10 + y * 2^5 + z) % 32 = z := by omega
  rw [h1, h2, h3]

theorem lower_field (a : Nat) (h1 : 97 ≤ a) (h2 : a ≤ 122) : (a % 2^16 - 0x60) % 32 = a - 0x60 := by omega

end Muxide
