"""Case generators for the correspondence runs (one PRNG, seeded by VERIF_SEED).

Every generator returns a list of case lines WITHOUT ids: "P <cfg> | ops", "F <cfg> | ops",
"X fn args".  The orchestrator numbers them.  Generators also fill `dist`, a Counter that
is written into the evidence (what the inputs looked like).
"""
import itertools
import random
import struct
from collections import Counter


def hx(b):
    return bytes(b).hex() if len(b) else "-"


def f64bits(x):
    return "%016x" % struct.unpack(">Q", struct.pack(">d", x))[0]


def bits_f64(s):
    return struct.unpack(">d", struct.pack(">Q", int(s, 16)))[0]


# ----------------------------------------------------------------------------------------------
# frame builders
# ----------------------------------------------------------------------------------------------
SC3 = b"\x00\x00\x01"
SC4 = b"\x00\x00\x00\x01"


def nal_body(rng, n, fill=None):
    """n bytes that contain no start code and do not end in 0 (well-formed NAL payload)."""
    if fill is not None:
        return bytes([fill if fill else 1]) * n
    out = bytearray()
    for _ in range(n):
        out.append(rng.choice([rng.randrange(1, 256), rng.randrange(2, 256), 0x80, 0xFF]))
    return bytes(out)


def h264_key(rng, sps_len=None, pps_len=None, slice_len=None, sc=None, extra=True):
    sc = sc or (lambda: rng.choice([SC3, SC4]))
    if sps_len is None and extra and rng.random() < 0.06:
        sps_len = rng.randrange(0, 3)      # an SPS of 1-3 bytes: shorter than the profile/level bytes avcC copies
    if pps_len is None and extra and rng.random() < 0.04:
        pps_len = 0
    sps = bytes([0x67]) + nal_body(rng, sps_len if sps_len is not None else rng.randrange(3, 12))
    pps = bytes([0x68]) + nal_body(rng, pps_len if pps_len is not None else rng.randrange(1, 5))
    idr = bytes([0x65]) + nal_body(rng, slice_len if slice_len is not None else rng.randrange(1, 40))
    parts = [sps, pps, idr]
    if extra and rng.random() < 0.3:
        parts.insert(0, bytes([0x09, 0xF0]))  # AUD
    if extra and rng.random() < 0.2:
        parts.insert(rng.randrange(len(parts) + 1), bytes([0x06]) + nal_body(rng, 3))  # SEI
    return b"".join(sc() + p for p in parts)


def h264_delta(rng, n=None, sc=None):
    sc = sc or (lambda: rng.choice([SC3, SC4]))
    k = rng.randrange(1, 3)
    return b"".join(sc() + bytes([0x41]) + nal_body(rng, n if n is not None else rng.randrange(1, 60)) for _ in range(k))


def h265_key(rng, sc=None, irap=None):
    sc = sc or (lambda: rng.choice([SC3, SC4]))
    short = rng.random() < 0.06           # parameter sets that consist of little more than their 2-byte header
    vps = bytes([0x40, 0x01]) + nal_body(rng, rng.randrange(0, 2) if short else rng.randrange(2, 8))
    sps = bytes([0x42, 0x01]) + nal_body(rng, rng.randrange(0, 2) if short else rng.randrange(2, 20))
    pps = bytes([0x44, 0x01]) + nal_body(rng, rng.randrange(0, 2) if short else rng.randrange(1, 5))
    # the random-access picture: IDR_W_RADL mostly, now and then any other IRAP type (BLA 16-18, IDR_N_LP 20, CRA 21)
    if irap is None:
        irap = 19 if rng.random() < 0.6 else rng.choice([16, 17, 18, 20, 21, 21])
    idr = bytes([irap << 1, 0x01]) + nal_body(rng, rng.randrange(1, 40))
    return b"".join(sc() + p for p in [vps, sps, pps, idr])


def h265_irap(rng, sc=None):
    """a later random-access frame without parameter sets (what a caller flags as a key frame)"""
    sc = sc or (lambda: rng.choice([SC3, SC4]))
    return sc() + bytes([rng.choice([16, 17, 18, 19, 20, 21, 21]) << 1, 0x01]) + nal_body(rng, rng.randrange(1, 40))


def config_without_key_slice(rng, codec):
    """a frame that carries the parameter sets but no IDR / IRAP slice (H.264 / H.265)"""
    if codec == "h264":
        return SC4 + bytes([0x67, 0x42, 0x00, 0x1E]) + nal_body(rng, 4) + SC4 + bytes([0x68, 0xCE, 0x38, 0x80]) + SC3 + bytes([0x41, 0x9A]) + nal_body(rng, 6)
    return (SC4 + bytes([0x40, 0x01, 0x0C]) + SC4 + bytes([0x42, 0x01, 0x01, 0x60]) + SC4 + bytes([0x44, 0x01, 0xC1]) +
            SC3 + bytes([0x02, 0x01]) + nal_body(rng, 6))


def h265_delta(rng, sc=None):
    sc = sc or (lambda: rng.choice([SC3, SC4]))
    return sc() + bytes([0x02, 0x01]) + nal_body(rng, rng.randrange(1, 60))


AV1_SEQ_PAYLOAD = bytes([0x00, 0x00, 0x00, 0x10, 0x07, 0x80, 0x04, 0x38, 0x00, 0x00, 0x00, 0x00])


def leb128(n):
    out = bytearray()
    while True:
        b = n & 0x7F
        n >>= 7
        if n:
            out.append(b | 0x80)
        else:
            out.append(b)
            return bytes(out)


def av1_key(rng, seq_payload=None):
    p = seq_payload if seq_payload is not None else AV1_SEQ_PAYLOAD
    body = bytes([0x10]) + nal_body(rng, rng.randrange(3, 30))
    return bytes([0x0A]) + leb128(len(p)) + p + bytes([0x32]) + leb128(len(body)) + body


def av1_delta(rng):
    body = bytes([0x30]) + nal_body(rng, rng.randrange(3, 30))
    return bytes([0x32]) + leb128(len(body)) + body


def vp9_key(rng, w=None, h=None, cc=None, profile=None):
    """a key frame in the layout the library reads: marker, profile in the top bits of byte 3, one more byte for
    profiles 2 and 3, width and height as var-uints, then the byte carrying bit depth (bit 0), colour space, transfer
    and matrix bits.  All of them vary unless given."""
    if w is None:
        w = rng.choice([100, 100, 16, 640, 1920, 127, 128, 16383, 16384])
    if h is None:
        h = rng.choice([100, 100, 16, 480, 1080, 129])
    if cc is None:
        cc = rng.choice([0x12, 0x12, rng.randrange(256) & 0xF3, (rng.randrange(256) & 0xF2) | 1])     # bits 2-3 clear: no separate render size
    if profile is None:
        profile = rng.choice([0, 0, 0, 1, 2, 2, 3])
    head = bytes([0x49, 0x83, 0x42, (profile & 3) << 6, 0x80]) + (bytes([rng.randrange(256)]) if profile >= 2 else b"")
    return head + leb128(w) + leb128(h) + bytes([cc]) + nal_body(rng, rng.randrange(2, 20))


def vp9_delta(rng):
    return bytes([0x49, 0x83, 0x42, 0x10, 0x80]) + nal_body(rng, rng.randrange(2, 30))


def adts(rng, payload_len=None, protection_absent=True, sfi=3, ch=2, profile=1, payload=None, extra_tail=0):
    if payload is None:
        payload = bytes(rng.randrange(256) for _ in range(payload_len if payload_len is not None else rng.randrange(1, 40)))
    hl = 7 if protection_absent else 9
    fl = hl + len(payload)
    b1 = 0xF0 | (1 if protection_absent else 0)
    b2 = ((profile & 3) << 6) | ((sfi & 15) << 2) | ((ch >> 2) & 1)
    b3 = ((ch & 3) << 6) | ((fl >> 11) & 3)
    b4 = (fl >> 3) & 0xFF
    b5 = ((fl & 7) << 5) | 0x1F
    b6 = 0xFC
    hdr = bytes([0xFF, b1, b2, b3, b4, b5, b6]) + (b"" if protection_absent else bytes([rng.randrange(256), rng.randrange(256)]))
    return hdr + payload + bytes(rng.randrange(256) for _ in range(extra_tail))


def opus_pkt(rng, n=None):
    toc = (rng.randrange(32) << 3) | rng.choice([0, 1, 2])
    return bytes([toc]) + bytes(rng.randrange(256) for _ in range(n if n is not None else rng.randrange(0, 30)))


VCODECS = ["h264", "h265", "av1", "vp9"]
AUDIOS = ["none", "aac-lc", "aac-main", "aac-ssr", "aac-ltp", "aac-he", "aac-hev2", "opus"]


def annexb_tail(rng, codec, f):
    """Annex B frames now and then end in a dangling start code or in zero bytes (both legal byte
    streams: trailing_zero_8bits / an empty last unit); the scanner's end-of-buffer cases"""
    r = rng.random()
    if codec in ("h264", "h265") and r < 0.08:
        return f + rng.choice([SC3, SC3, SC4, b"\x00", b"\x00\x00", b"\x00\x00\x00", SC3 + SC3, b"\x00" + SC3])
    if 0.08 <= r < 0.14:
        # frames of every codec that END in padding-like bytes: cabac_zero_words (00 00 03, repeated), a lone 03,
        # and for the frame-based codecs zero bytes and start-code look-alikes - all of it payload, to be stored as submitted
        tails = [b"\x00\x00\x03", b"\x00\x00\x03" * 2, b"\x00\x00\x03" * 3, b"\x03", b"\x00\x03", b"\xff\x00\x00\x03"]
        if codec in ("vp9", "av1"):
            tails += [b"\x00", b"\x00\x00", b"\x00\x00\x01", b"\x00\x00\x00\x01"]
        return f + rng.choice(tails)
    return f


def nal_units_of(b):
    """NAL units of an Annex B byte string (3- or 4-byte start codes), without trailing zero bytes"""
    out, i, n, start = [], 0, len(b), None
    while i + 3 <= n:
        if b[i] == 0 and b[i + 1] == 0 and b[i + 2] == 1:
            if start is not None:
                out.append(b[start:i].rstrip(b"\x00"))
            start = i + 3
            i += 3
        else:
            i += 1
    if start is not None:
        out.append(b[start:])
    return [u for u in out if u]


def repeat_headers(rng, codec, first, key):
    """a later H.264 / H.265 frame that repeats, byte for byte, parameter sets of the first key frame in front of
    its own slice - what encoders that resend their headers with every GOP (or every frame) produce"""
    units = nal_units_of(first)
    if codec == "h264":
        params = [u for u in units if u[0] & 0x1F in (7, 8)]
        slice_ = bytes([0x65 if key else 0x41]) + nal_body(rng, rng.randrange(1, 40))
    else:
        params = [u for u in units if (u[0] >> 1) & 0x3F in (32, 33, 34)]
        slice_ = bytes([(19 if key else 1) << 1, 0x01]) + nal_body(rng, rng.randrange(1, 40))
    if params and rng.random() < 0.3:
        params = rng.sample(params, rng.randrange(1, len(params) + 1))      # only some of them
    sc = lambda: rng.choice([SC3, SC4])
    return b"".join(sc() + u for u in params + [slice_])


def key_frame(rng, codec):
    return annexb_tail(rng, codec, {"h264": h264_key, "h265": h265_key, "av1": av1_key, "vp9": vp9_key}[codec](rng))


def delta_frame(rng, codec):
    return annexb_tail(rng, codec, {"h264": h264_delta, "h265": h265_delta, "av1": av1_delta, "vp9": vp9_delta}[codec](rng))


ADTS_BOUNDARY_LENGTHS = [8, 10, 255, 256, 257, 2047, 2048, 2049, 4095, 4096, 4097, 4104, 6000, 8190, 8191]


def audio_frame(rng, acodec):
    if acodec == "opus":
        return opus_pkt(rng) if rng.random() < 0.9 else opus_pkt(rng, rng.choice([255, 1275]))
    pa = rng.random() < 0.8
    if rng.random() < 0.1:
        # a buffer that is longer than the frame its header declares (padding, or the start of the next
        # frame): accepted, and the stored sample ends at the declared length
        return adts(rng, protection_absent=pa, extra_tail=rng.choice([1, 2, 7, 9, 40]))
    if rng.random() < 0.12:
        # exercise every bit of the 13-bit frame length field
        fl = rng.choice(ADTS_BOUNDARY_LENGTHS)
        hl = 7 if pa else 9
        if fl > hl:
            return adts(rng, payload_len=fl - hl, protection_absent=pa)
    return adts(rng, protection_absent=pa)


def cfg_str(codec="h264", w=640, h=480, fps=30.0, audio="none", rate=48000, ch=2, fast=1, md=0, title=None,
            ctime=None, lang=None, extra=""):
    a = "none" if audio == "none" else "%s:%d:%d" % (audio, rate, ch)
    s = "codec=%s w=%d h=%d fps=%s audio=%s fast=%d md=%d" % (codec, w, h, f64bits(fps), a, fast, md)
    if md:
        s += " title=%s" % ("~" if title is None else hx(title))
        s += " ctime=%s" % ("~" if ctime is None else str(ctime))
        s += " lang=%s" % ("~" if lang is None else hx(lang))
    if extra:
        s += " " + extra
    return s


def rand_metadata(rng):
    if rng.random() < 0.5:
        return dict(md=0)
    title = rng.choice([None, b"", b"T", "Tïtle é中".encode(), bytes(rng.choice(b"abcdefgh ") for _ in range(rng.randrange(1, 60))),
                        # characters a tidy-up might strip or stop at: NUL, blanks, line ends, at either end or inside
                        rng.choice([b"Clip\x00", b"\x00", b"\x00\x00", b"A\x00B", b" lead", b"trail ", b"  ", b"line\n", b"\ttab", b"\r\n"])])
    # incl. years of five and more digits (the date text is then longer than 20 bytes)
    ctime = rng.choice([None, 0, 86399, 951782400, 1700000000, 4102444800, rng.randrange(0, 253402300800),
                        253402300800, rng.randrange(253402300800, 10 ** 13), 10 ** 15, 2 ** 63, 2 ** 64 - 1])
    lang = rng.choice([None, b"eng", b"und", b"spa", b"zz", b"", b"ENG", "déu".encode(), b"abcd"])
    return dict(md=1, title=title, ctime=ctime, lang=lang)



# ----------------------------------------------------------------------------------------------
# builder call sequences (`bops=`): calls separated by ',', fields by ':' ; '~' = absent
#   v / sv : video / set_video_track <codec>:<w>:<h>      a / sa : audio / set_audio_track <codec>:<rate>:<ch>
#   md:<title hex|~>:<ctime|~>:<lang hex|~> with_metadata  fs:<0|1> with_fast_start   ct:<u64> set_create_time
#   lg:<hex> set_language   sps/pps/vps/av1:<hex>   vp9:<9 ints joined by '.'>
# ----------------------------------------------------------------------------------------------
def cfg_tokens(cfg):
    return dict(t.split("=", 1) for t in cfg.split() if "=" in t)


def junk_bops(rng, allow_md=True):
    """calls that a later call of the same kind overrides"""
    out = []
    for _ in range(rng.randrange(0, 4)):
        k = rng.randrange(5 if allow_md else 3)
        if k == 0:
            out.append("%s:%s:%d:%d" % (rng.choice(["v", "sv"]), rng.choice(VCODECS), rng.choice([16, 320, 70000]), rng.choice([16, 240])))
        elif k == 1:
            out.append("%s:%s:%d:%d" % (rng.choice(["a", "sa"]), rng.choice(AUDIOS[1:] + ["cnone"]), rng.choice([8000, 48000]), rng.choice([1, 2, 300])))
        elif k == 2:
            out.append("fs:%d" % rng.randrange(2))
        elif k == 3:
            out.append("md:%s:%s:%s" % (rng.choice(["~", hx(b"old")]), rng.choice(["~", "5"]), rng.choice(["~", hx(b"fra")])))
        else:
            out.append(rng.choice(["ct:7", "lg:" + hx(b"deu")]))
    return out


def bops_from_cfg(rng, cfg):
    """a builder call sequence that DENOTES exactly the configuration of a cfg string (last call of each
    kind decides): overridden earlier calls, aliases, metadata through a value or through the setters"""
    t = cfg_tokens(cfg)
    md = t.get("md", "0") == "1"
    ops = junk_bops(rng, allow_md=md)
    tail = ["%s:%s:%s:%s" % (rng.choice(["v", "sv"]), t["codec"], t["w"], t["h"])]
    if t["audio"] == "none":
        # no audio: either no audio call at all, or an `audio(None, ..)` after whatever came before
        if any(o.startswith(("a:", "sa:")) for o in ops) or rng.random() < 0.3:
            tail.append("%s:cnone:%d:%d" % (rng.choice(["a", "sa"]), rng.choice([0, 48000]), rng.choice([0, 2])))
    else:
        tail.append("%s:%s" % (rng.choice(["a", "sa"]), t["audio"]))
    if t.get("fast", "1") == "0" or any(o.startswith("fs:") for o in ops) or rng.random() < 0.3:
        tail.append("fs:%s" % t.get("fast", "1"))
    rng.shuffle(tail)
    if md:
        title, ctime, lang = t.get("title", "~"), t.get("ctime", "~"), t.get("lang", "~")
        style = rng.randrange(3)
        if style == 0:
            m = ["md:%s:%s:%s" % (title, ctime, lang)]
        elif style == 1:
            m = ["md:%s:%s:%s" % (title, rng.choice(["~", "99"]) if ctime != "~" else "~", rng.choice(["~", hx(b"xxx")]) if lang != "~" else "~")]
            st = ([("ct:%s" % ctime)] if ctime != "~" else []) + ([("lg:%s" % lang)] if lang != "~" else [])
            rng.shuffle(st)
            m += st
        else:
            m = ["md:%s:~:~" % title] + ([("lg:%s" % lang)] if lang != "~" else []) + ([("ct:%s" % ctime)] if ctime != "~" else [])
        pos = rng.randrange(len(tail) + 1)
        tail = tail[:pos] + m + tail[pos:]
    return ",".join(ops + tail)


def random_bops(rng, dist):
    """an arbitrary builder call sequence; returns (bops string, effective codec or None, effective audio token)"""
    n = rng.randrange(0, 7)
    ops = []
    for _ in range(n):
        k = rng.random()
        if k < 0.3:
            ops.append("%s:%s:%d:%d" % (rng.choice(["v", "sv"]), rng.choice(VCODECS), rng.choice([640, 16, 65535, 65536]), rng.choice([480, 16])))
        elif k < 0.6:
            ops.append("%s:%s:%d:%d" % (rng.choice(["a", "sa"]), rng.choice(AUDIOS[1:] + ["cnone", "opus"]), rng.choice([48000, 44100, 0]), rng.choice([1, 2, 255, 256, 65535])))
        elif k < 0.7:
            ops.append("fs:%d" % rng.randrange(2))
        elif k < 0.8:
            ops.append("md:%s:%s:%s" % (rng.choice(["~", hx(b"T"), hx("é".encode())]), rng.choice(["~", "0", "1700000000"]), rng.choice(["~", hx(b"eng")])))
        elif k < 0.9:
            ops.append(rng.choice(["ct:86400", "lg:" + hx(b"spa"), "lg:" + hx(b"zz")]))
        else:
            ops.append(rng.choice(["sps:6742001e", "pps:68ce3880", "vps:40010c", "av1:0a0b00000024cf7f", "vp9:64.64.0.8.2.2.2.10.0"]))
    if rng.random() < 0.85 and not any(o.startswith(("v:", "sv:")) for o in ops):
        ops.insert(rng.randrange(len(ops) + 1), "v:%s:640:480" % rng.choice(VCODECS))
    codec, audio = None, "none"
    for o in ops:
        f = o.split(":")
        if f[0] in ("v", "sv"):
            codec = f[1]
        if f[0] in ("a", "sa"):
            audio = f[1] if f[1] != "cnone" else "none"
    dist["bops_len=%d" % len(ops)] += 1
    dist["bops_video=%s" % ("none" if codec is None else "set")] += 1
    return ",".join(ops) or ",", codec, audio

# ----------------------------------------------------------------------------------------------
# history generator (progressive muxer), shared by several properties
# ----------------------------------------------------------------------------------------------
FPS_GRIDS = [1 / 30, 1 / 25, 1001 / 30000, 1001 / 24000, 1 / 24, 1001 / 60000, 0.04, 1 / 90000, 0.5]


def gen_history(rng, dist, codec=None, audio=None, fast=None, md=None, nv=None, na=None, reorder=None,
                rejects=None, finish="fins", small=True, start=None):
    """A mostly-valid A/V history. Returns (cfg string, list of op strings, info dict)."""
    codec = codec or rng.choice(VCODECS)
    audio = audio if audio is not None else rng.choice(AUDIOS)
    fast = rng.randrange(2) if fast is None else fast
    mdd = rand_metadata(rng) if md is None else md
    if rejects is None:
        # every property about finished files quantifies over ALL call sequences: a quarter of the
        # histories carry calls that are refused (and must leave no trace) between the accepted ones
        rejects = rng.choice([0.0, 0.0, 0.0, 0.12])
    rate = rng.choice([48000, 44100, 8000, 96000, 12345]) if audio != "opus" else 48000
    ch = rng.choice([1, 2, 2, 6])
    cfg = cfg_str(codec=codec, w=rng.choice([640, 1920, 16, 65535]), h=rng.choice([480, 1080, 16]), audio=audio,
                  rate=rate, ch=ch, fast=fast, **mdd)
    nv = rng.randrange(0, 12) if nv is None else nv
    na = (rng.randrange(0, 12) if audio != "none" else 0) if na is None else na
    step = rng.choice(FPS_GRIDS)
    # 47721.858 s = 2^32 ticks of the 90 kHz clock: uptime-clock timestamps and streams that cross it
    # (2^63 - k*4096) / 90000 s: a stream whose tick values cross 2^63 within a few frames (doubles up there are 1024-2048 ticks apart)
    t0 = rng.choice([0.0, 0.0, 0.0, 1.0, 3600.0, 0.5, 47721.8, 47721.85, 50400.0, 1.0e6,
                     (2 ** 63 - 4096 * rng.randrange(1, 4)) / 90000.0]) if start is None else start
    reorder = (rng.random() < 0.35) if reorder is None else reorder
    # decode-order video frames
    vops = []
    dts = [t0 + i * step + (rng.random() * step * 0.3 if rng.random() < 0.2 else 0) for i in range(nv)]
    if rng.random() < 0.25:
        # variable frame rate: some decode gaps are 5-40 frame periods long (a sample's duration is its
        # decode gap, so in a reordered stream the sample that ENDS last need not be the one presented last)
        acc, dts = t0, []
        for i in range(nv):
            dts.append(acc)
            acc += step * rng.choice([1, 1, 1, 5, 12, 40])
        dist["vfr_long_gaps"] += 1
    dts = sorted(set(dts))
    nv = len(dts)
    if reorder and nv >= 3:
        # I P B B pattern: pts permuted within groups, shifted so pts >= 0
        pts = list(dts)
        i = 1
        while i + 2 < nv + 1 and i + 2 <= nv - 0:
            if i + 2 < nv:
                pts[i], pts[i + 1], pts[i + 2] = dts[i + 2], dts[i], dts[i + 1]
            i += 3
        r3 = rng.random()
        if r3 < 0.3:
            pts = [p + 2 * step for p in pts]  # positive offset on every frame
        elif r3 < 0.45:
            # decode times run AHEAD of the presentation times: the first frame is presented before it is decoded
            dts = [d + rng.choice([1, 2]) * step for d in dts]
            dist["first_frame_pts_before_dts"] += 1
    else:
        pts = list(dts)
    for i in range(nv):
        key = i == 0 or rng.random() < 0.15
        data = key_frame(rng, codec) if i == 0 else (key_frame(rng, codec) if key and rng.random() < 0.5 else delta_frame(rng, codec))
        if i > 0 and key and codec == "h265" and rng.random() < 0.6:
            data = h265_irap(rng)
        if i == 0:
            first_key = data
        elif codec in ("h264", "h265") and rng.random() < (0.45 if key else 0.12):
            data = repeat_headers(rng, codec, first_key, key)
            dist["later_frame_repeats_first_parameter_sets"] += 1
        if reorder or rng.random() < 0.3:
            vops.append(("v", dts[i], "wvd %s %s %s %d" % (f64bits(pts[i]), f64bits(dts[i]), hx(data), 1 if key else 0)))
        else:
            vops.append(("v", dts[i], "wv %s %s %d" % (f64bits(pts[i]), hx(data), 1 if key else 0)))
    first_v = pts[0] if nv else 0.0
    aops = []
    astep = rng.choice([1024 / 48000, 0.02, 0.0213333, step])
    a0 = first_v + rng.choice([0.0, 0.0, 0.01, 0.5, 1 / 90000])
    t = a0
    for i in range(na):
        aops.append(("a", t, "wa %s %s" % (f64bits(t), hx(audio_frame(rng, audio)))))
        t += astep if rng.random() < 0.9 else 0.0
    # submission order
    mode = rng.choice(["interleave", "video_first", "bursts"])
    ops = []
    if nv == 0:
        seq = aops
    elif mode == "video_first":
        seq = vops + aops
    elif mode == "interleave":
        seq = [vops[0]] + sorted(vops[1:] + aops, key=lambda x: x[1])
    else:
        seq = [vops[0]]
        vi, ai = 1, 0
        while vi < len(vops) or ai < len(aops):
            for _ in range(rng.randrange(1, 4)):
                if vi < len(vops):
                    seq.append(vops[vi]); vi += 1
            for _ in range(rng.randrange(1, 4)):
                if ai < len(aops):
                    seq.append(aops[ai]); ai += 1
    for kind, ts, op in seq:
        if rejects and rng.random() < rejects:
            ops.append(gen_bad_op(rng, codec, audio, ts))
        ops.append(op)
    if rejects and seq and rng.random() < 3 * rejects:
        # a refused call as the LAST call of the history (nothing accepted afterwards can repair its traces)
        last_ts = max(x[1] for x in seq)
        ops.append(gen_bad_op(rng, codec, audio, last_ts + rng.choice([0.0, 0.02, 0.45, 1.0])))
        dist["refused_last_call"] += 1
    if finish:
        ops.append(finish)
    dist["codec=" + codec] += 1
    dist["audio=" + audio] += 1
    dist["fast=%d" % fast] += 1
    dist["reorder=%d" % (1 if reorder and nv >= 3 else 0)] += 1
    dist["order=" + mode] += 1
    dist["rejected_calls=%s" % ("some" if rejects else "none")] += 1
    dist["nv=%s" % ("0" if nv == 0 else "1" if nv == 1 else "2-5" if nv <= 5 else "6+")] += 1
    dist["na=%s" % ("0" if na == 0 else "1" if na == 1 else "2-5" if na <= 5 else "6+")] += 1
    return cfg, ops, dict(codec=codec, audio=audio, nv=nv, na=na, fast=fast)



def gen_conv_history(rng, dist, codec=None, audio=None, fast=None, finish="fins", **_):
    """a history written through the convenience forms: encode_video(data, duration_ms) and
    encode_audio(data, samples) keep their own running clocks; frame lengths VARY from call to call
    (Opus 10/20/40/60 ms packets, a short last AAC frame, VFR video), explicit write_audio calls at the
    clock's value are mixed in, and some calls are refused"""
    codec = codec or rng.choice(VCODECS)
    audio = audio if audio is not None else rng.choice(AUDIOS)
    fast = rng.randrange(2) if fast is None else fast
    rate = 48000 if audio == "opus" else rng.choice([48000, 44100, 32000])
    cfg = cfg_str(codec=codec, audio=audio, rate=rate, ch=rng.choice([1, 2]), fast=fast, **rand_metadata(rng))
    nv = rng.randrange(1, 9)
    na = rng.randrange(0, 9) if audio != "none" else 0
    ev, tv = [], 0.0
    for i in range(nv):
        ms = rng.choice([33, 40, 16, 1001, 1, 100])
        f = key_frame(rng, codec) if i == 0 or rng.random() < 0.15 else delta_frame(rng, codec)
        if i == 0 and codec in ("h264", "h265") and rng.random() < 0.08:
            ev.append((tv, "ev %s %d" % (hx(config_without_key_slice(rng, codec)), ms)))     # refused: not a key frame
        if codec in ("h264", "h265") and (f.endswith(SC3) or f.endswith(b"\x00")):
            f = f.rstrip(b"\x00") + b"\x80" if not f.endswith(SC3) else f[:-3]
        ev.append((tv, "ev %s %d" % (hx(f), ms)))
        tv += ms / 1000.0
    ea, ta = [], 0.0
    for i in range(na):
        smp = rng.choice([480, 960, 1920, 2880]) if audio == "opus" else rng.choice([1024, 1024, 960, 512])
        f = audio_frame(rng, audio)
        if rng.random() < 0.2:
            ea.append((ta, "wa %s %s" % (f64bits(ta), hx(f))))      # explicit call at the clock's value: the clock does not move
            dist["conv_mixed_explicit_audio"] += 1
            continue
        ea.append((ta, "ea %s %d" % (hx(f), smp)))
        ta += smp / float(rate)
    seq = [ev[0]] + sorted(ev[1:] + ea, key=lambda x: x[0])
    ops = []
    for t, op in seq:
        if rng.random() < 0.08:
            ops.append(rng.choice(["ea - 960", "ea 00 960", "ev - 33", "wa %s -" % f64bits(t)]))   # refused
        ops.append(op)
    if finish:
        ops.append(finish)
    dist["conv_history"] += 1
    return cfg, ops, dict(codec=codec, audio=audio, nv=nv, na=na, fast=fast)

def gen_bad_op(rng, codec, audio, ts):
    """an op that should be rejected (or at least is unusual) around time ts"""
    k = rng.randrange(9)
    if k == 0:
        return "wv %s - 1" % f64bits(ts)
    if k == 1:
        return "wv %s %s 0" % (f64bits(float("nan")), hx(delta_frame(rng, codec)))
    if k == 2:
        return "wv %s %s 0" % (f64bits(-1.0), hx(delta_frame(rng, codec)))
    if k == 3:
        # non-empty but corrupt payload at (or shortly after) the coming frame's time
        bad = rng.choice([b"\x03", b"\x03\x00", b"\x03\xc0\x01"]) if audio == "opus" else rng.choice([b"\x00\x01\x02", b"\xff\xf1\x50", b"\xff\xf1\x50\x80\x00\x1f\xfc"])
        return "wa %s %s" % (f64bits(ts + rng.choice([0.0, 0.0, 0.004, 0.02])), hx(bad))
    if k == 4:
        return "wa %s -" % f64bits(ts)
    if k == 5:
        return "wv %s %s 0" % (f64bits(0.0), hx(delta_frame(rng, codec)))
    if k == 6:
        return "wa %s %s" % (f64bits(float("inf")), hx(audio_frame(rng, audio if audio != "none" else "aac-lc")))
    if k == 7:
        return "wvd %s %s %s 0" % (f64bits(ts), f64bits(-0.5), hx(delta_frame(rng, codec)))
    return "wa %s %s" % (f64bits(max(ts - 5.0, 0.0)), hx(audio_frame(rng, audio if audio != "none" else "aac-lc")))


def pcase(cfg, ops):
    return "P %s | %s" % (cfg, " ; ".join(ops))


# ----------------------------------------------------------------------------------------------
# C14
# ----------------------------------------------------------------------------------------------
def gen_C14(rng, tier, dist):
    cases = []
    alphabet = [0x00, 0x01, 0x02, 0x03, 0x67, 0xFF]
    maxlen = 5 if tier == "quick" else 7
    # exhaustive small strings (both entry points share one body; alternate)
    for n in range(0, maxlen + 1):
        for tup in itertools.product(alphabet, repeat=n):
            fn = "annexb_to_avcc" if (sum(tup) + n) % 2 == 0 else "hevc_annexb_to_hvcc"
            cases.append("X %s %s" % (fn, hx(bytes(tup))))
    dist["exhaustive_len<=%d_over_6_symbols" % maxlen] = len(cases)
    # constructive joins
    nj = 600 if tier == "quick" else 20000
    for _ in range(nj):
        k = rng.randrange(0, 6)
        garbage = bytes(rng.choice([0, 0, 2, 0xFF]) for _ in range(rng.randrange(0, 4)))
        d = garbage
        for _ in range(k):
            d += rng.choice([SC3, SC4]) + nal_body(rng, rng.randrange(0, 9) if rng.random() < 0.9 else rng.randrange(100, 700))
        d += bytes(rng.randrange(0, 4))
        if rng.random() < 0.2:
            d = bytes(rng.choice(alphabet) for _ in range(rng.randrange(0, 40)))
        cases.append("X %s %s" % (rng.choice(["annexb_to_avcc", "hevc_annexb_to_hvcc"]), hx(d)))
        dist["join_nals=%d" % k] += 1
    # token-level strings: the scanner's interesting substrings (zero runs, both start codes, the emulation-prevention
    # pattern 00 00 03, 00 00 02, lone 01 / 03) spliced in every order - e.g. a unit ending in escaped zeros right
    # before a start code, which byte-level enumeration only reaches at length 7
    toks = [b"\x00", b"\x00\x00", SC3, SC4, b"\x00\x00\x03", b"\x00\x00\x02", b"\x01", b"\x03", b"\x65", b"\x4a\x01", b"\xff"]
    for _ in range(600 if tier == "quick" else 30000):
        d = b"".join(rng.choice(toks) for _ in range(rng.randrange(1, 9)))
        cases.append("X %s %s" % (rng.choice(["annexb_to_avcc", "hevc_annexb_to_hvcc"]), hx(d)))
    dist["token_spliced_strings"] += 600 if tier == "quick" else 30000
    # ADTS through the muxer: keyframe, audio frames, finish
    na = 300 if tier == "quick" else 6000
    for i in range(na):
        frames = []
        for _ in range(rng.randrange(1, 4)):
            pa = rng.random() < 0.6
            plen = rng.choice([1, 2, 7, 30, 200]) if rng.random() < 0.9 else 0
            f = bytearray(adts(rng, payload_len=plen, protection_absent=pa, sfi=rng.randrange(16) if rng.random() < 0.2 else 3,
                               ch=rng.randrange(8) if rng.random() < 0.2 else 2, profile=rng.randrange(4),
                               extra_tail=rng.choice([0, 0, 1, 9])))
            m = rng.random()
            if m < 0.15 and len(f) > 1:
                del f[rng.randrange(len(f)):]
            elif m < 0.3:
                j = rng.randrange(min(len(f), 7)); f[j] ^= 1 << rng.randrange(8)
            frames.append(bytes(f))
            dist["adts_pa=%d" % pa] += 1
        ops = ["wv %s %s 1" % (f64bits(0.0), hx(h264_key(rng)))]
        t = 0.0
        for f in frames:
            ops.append("wa %s %s" % (f64bits(t), hx(f)))
            t += 0.02
        ops.append("fin")
        cases.append(pcase(cfg_str(audio=rng.choice(AUDIOS[1:7]), fast=rng.randrange(2)), ops))
    # systematic ADTS frame-length sweep: every bit of the 13-bit length field, around the buffer size
    if True:
        for pa in (True, False):
            hl = 7 if pa else 9
            sweep = list(range(0, 40)) + [255, 256, 1023, 1024, 2047, 2048, 4095, 4096, 4097, 4104, 6000, 8190, 8191] if tier == "thorough" \
                else [6, 7, 8, 9, 10, 11, 255, 256, 2047, 2048, 4095, 4096, 4097, 4104, 6000, 8191]
            for fl in sweep:
                for buflen in (fl - 1, fl, fl + 1, fl + 9):
                    if buflen < 0 or buflen > 9000:
                        continue
                    payload = bytes((i * 7 + 1) & 0xFF for i in range(max(fl - hl, 0)))
                    f = bytearray(adts(rng, payload=payload, protection_absent=pa))
                    # force declared length
                    f[3] = (f[3] & 0xFC) | ((fl >> 11) & 3); f[4] = (fl >> 3) & 0xFF; f[5] = ((fl & 7) << 5) | (f[5] & 0x1F)
                    f = bytes(f)[:buflen] + bytes(max(0, buflen - len(f)))
                    ops = ["wv %s %s 1" % (f64bits(0.0), hx(h264_key(rng))), "wa %s %s" % (f64bits(0.0), hx(f)), "fin"]
                    cases.append(pcase(cfg_str(audio="aac-lc"), ops))
    return cases


def gen_hist_cases(rng, tier, dist, nq, nt, extra="", **kw):
    n = nq if tier == "quick" else nt
    out = []
    for _ in range(n):
        if rng.random() < 0.12 and not kw.get("nv") and not kw.get("start"):
            cfg, ops, info = gen_conv_history(rng, dist, **kw)
        else:
            cfg, ops, info = gen_history(rng, dist, **kw)
        if extra:
            cfg += " " + extra
        out.append(pcase(cfg, ops))
    return out


def small_exhaustive_histories(rng, dist, limit):
    """all histories with <= 3 video and <= 2 audio frames over a small timestamp grid, all DTS/PTS
    assignments (H.264 + AAC), both layouts"""
    grid = [0.0, 1 / 30, 2 / 30, 0.1]
    out = []
    key = h264_key(random.Random(5), extra=False)
    d1 = SC4 + bytes([0x41, 0xA1, 0xA2])
    d2 = SC3 + bytes([0x41, 0xB1])
    aframes = [adts(random.Random(6), payload=bytes([0xC1, 0xC2, 0xC3])), adts(random.Random(7), payload=bytes([0xD1]))]
    d3 = SC3 + bytes([0x41, 0xC1, 0xC2, 0xC3])
    for nv in (1, 2, 3, 4):
        for ptsperm in itertools.permutations(range(nv)):
            for na in (0, 1, 2):
                for a0 in (0.0, 1 / 30, 0.1):
                    for fast in (0, 1):
                        # shift 0.1: every pts >= dts (the usual encoder delay); shift 0: un-shifted decode
                        # times, composition offsets of both signs (deep reordering / B-pyramids)
                        for shift in (0.1, 0.0):
                            dts = grid[:nv]
                            pts = [grid[ptsperm[i]] for i in range(nv)]
                            frames = [key, d1, d2, d3][:nv]
                            ops = []
                            for i in range(nv):
                                ops.append("wvd %s %s %s %d" % (f64bits(pts[i] + shift), f64bits(dts[i]), hx(frames[i]), 1 if i == 0 else 0))
                            for j in range(na):
                                ops.append("wa %s %s" % (f64bits(shift + a0 + j * 0.02), hx(aframes[j])))
                            ops.append("fins")
                            out.append(pcase(cfg_str(audio="aac-lc" if na else rng.choice(["none", "aac-lc"]), fast=fast), ops))
    rng.shuffle(out)
    dist["small_exhaustive"] += min(limit, len(out))
    return out[:limit]


def smallscope_histories(tier, dist, extra="", maxlen=None, finish="fins", cfgs=None):
    """Small-scope exhaustive call sequences: EVERY sequence of length <= L over an alphabet of
    accepted, refused and boundary calls, for three configurations. Timestamps come from a clock that
    advances only on calls the muxer should accept, so a refused call that leaves a trace (a stale
    'previous timestamp', a stored configuration, a patched duration) changes what a later accepted
    call does. State-leak regressions need two or three specific calls in a row; this enumerates them."""
    L = maxlen or (4 if tier == "quick" else 5)
    r5 = random.Random(55)
    cfgs = cfgs or [("h264", "aac-lc", 1), ("h264", "aac-lc", 0), ("vp9", "opus", 1)]
    alphabet = ["V+", "V=", "Vbad", "Vd", "Vk2", "A+", "A=", "Abad", "A-", "F"]
    out = []
    for codec, audio, fast in cfgs:
        mk = {"h264": lambda: h264_key(r5, extra=False), "vp9": lambda: vp9_key(r5), "h265": lambda: h265_key(r5), "av1": lambda: av1_key(r5)}[codec]
        key1 = mk()
        key2 = mk()                                                                   # other parameter sets
        dl = {"h264": lambda: h264_delta(r5, n=3), "vp9": lambda: vp9_delta(r5), "h265": lambda: h265_delta(r5), "av1": lambda: av1_delta(r5)}[codec]()
        af = [audio_frame(r5, audio) for _ in range(3)]
        abad = b"\x03" if audio == "opus" else b"\xff\xf1\x50\x80\x00\x1f"
        cfg = cfg_str(codec=codec, audio=audio, fast=fast) + ((" " + extra) if extra else "")
        vstep, astep = 1 / 30, 0.02
        for k in range(1, L + 1):
            for seq in itertools.product(alphabet, repeat=k):
                if "F" in seq[:-1] and tier == "quick":
                    continue                       # calls after finish: thorough only
                tv, ta, nv, na = 0.0, 0.0, 0, 0
                ops = []
                for a in seq:
                    if a == "V+":
                        ops.append("wv %s %s %d" % (f64bits(tv), hx(key1 if nv == 0 else dl), 1 if nv == 0 else 0)); tv += vstep; nv += 1
                    elif a == "V=":
                        ops.append("wv %s %s 0" % (f64bits(max(tv - vstep, 0.0)), hx(dl)))
                    elif a == "Vbad":
                        ops.append("wv %s %s %d" % (f64bits(tv + vstep), hx(b"\x01\x02\x03"), 1 if nv == 0 else 0))
                    elif a == "Vd":
                        ops.append("wvd %s %s %s %d" % (f64bits(tv + 2 * vstep), f64bits(tv), hx(key1 if nv == 0 else dl), 1 if nv == 0 else 0)); tv += vstep; nv += 1
                    elif a == "Vk2":
                        # a key frame with other parameter sets whose pts - dts is out of the 32-bit range: refused
                        ops.append("wvd %s %s %s 1" % (f64bits(tv + 30000.0), f64bits(tv), hx(key2)))
                    elif a == "A+":
                        ops.append("wa %s %s" % (f64bits(ta), hx(af[na % 3]))); ta += astep; na += 1
                    elif a == "A=":
                        ops.append("wa %s %s" % (f64bits(max(ta - astep, 0.0)), hx(af[na % 3]))); na += 1
                    elif a == "Abad":
                        ops.append("wa %s %s" % (f64bits(ta + 5 * astep), hx(abad)))
                    elif a == "A-":
                        ops.append("wa %s %s" % (f64bits(max(ta - 3 * astep, 0.0) if na else 0.0), hx(af[0])))
                    else:
                        ops.append("fins")
                if seq[-1] != "F" and finish:
                    ops.append(finish)
                out.append(pcase(cfg, ops))
    dist["smallscope_len<=%d" % L] += len(out)
    return out


def large_frame_cases(rng, tier, dist, extra=""):
    """frames far larger than any internal buffer a writer might use (64 KiB, 1 MiB), of lengths that are not
    multiples of those sizes; followed by a small frame, so a lost tail shifts what comes after"""
    out = []
    sizes = [65536 + 7, 65536 + 7, 70000, (1 << 20) + 123] if tier == "quick" else [4096 + 1, 65536 + 7, 65536, 70000, 70000, (1 << 20) + 123, (1 << 20), 3 * (1 << 19) + 5, (1 << 21) + 1] * 3
    for n in sizes:
        codec = rng.choice(["vp9", "av1"])
        k = key_frame(rng, codec)
        big = k + bytes(rng.randrange(256) for _ in range(64)) * ((n - len(k)) // 64 + 1)
        big = big[:n]
        audio = rng.choice(["none", "opus"])
        # the large frame first, in the middle or last: small samples before it must stay before it in the file
        pos = rng.randrange(3)
        frames = [key_frame(rng, codec), delta_frame(rng, codec), delta_frame(rng, codec)]
        if pos == 0:
            frames[0] = big
        else:
            d = frames[pos]
            frames[pos] = (d + bytes(rng.randrange(256) for _ in range(64)) * ((n - len(d)) // 64 + 1))[:n]
        ops = []
        for i, fr in enumerate(frames):
            ops.append("wv %s %s %d" % (f64bits(i / 30), hx(fr), 1 if i == 0 else 0))
            if audio != "none" and i < 2:
                ops.append("wa %s %s" % (f64bits(i / 30), hx(audio_frame(rng, audio))))
        ops.append("fins")
        dist["large_frame_position=%d" % pos] += 1
        out.append(pcase(cfg_str(codec=codec, audio=audio, fast=rng.randrange(2), extra=extra), ops))
        dist["large_frame=%d" % n] += 1
    return out


def gen_C01(rng, tier, dist):
    return small_exhaustive_histories(rng, dist, 100000) + \
        gen_hist_cases(rng, tier, dist, 500, 30000, rejects=0.1) + smallscope_histories(tier, dist) + \
        large_frame_cases(rng, tier, dist) + burst_histories(rng, tier, dist)


def gen_C02(rng, tier, dist):
    out = gen_hist_cases(rng, tier, dist, 500, 30000, rejects=0.05)
    # zero frames / audio configured but no audio / single frame
    for codec in VCODECS:
        for audio in ["none", "aac-lc", "opus"]:
            for fast in (0, 1):
                out.append(pcase(cfg_str(codec=codec, audio=audio, fast=fast), ["fins"]))
                out.append(pcase(cfg_str(codec=codec, audio=audio, fast=fast), ["wv %s %s 1" % (f64bits(0.0), hx(key_frame(rng, codec))), "fins"]))
                dist["degenerate"] += 2
    for _ in range(300 if tier == "quick" else 20000):
        out.append(fcase(frag_cfg(rng, dist), frag_ops(rng, dist, maxlen=30)))
    return out


def gen_C03(rng, tier, dist):
    out = gen_hist_cases(rng, tier, dist, 400, 25000) + f64_palette_cases(rng, tier, dist) + smallscope_histories(tier, dist)
    # long regular runs at fractional rates: drift would show
    nlong = 6 if tier == "quick" else 40
    for _ in range(nlong):
        step = rng.choice([1001 / 30000, 1001 / 24000, 1 / 30, 1001 / 60000, 1 / 90000 * 1.5])
        n = rng.choice([300, 1000]) if tier == "quick" else rng.choice([3000, 20000])
        codec = "vp9"
        ops = ["wv %s %s 1" % (f64bits(0.0), hx(vp9_key(rng)))]
        d = hx(vp9_delta(rng))
        for i in range(1, n):
            ops.append("wv %s %s 0" % (f64bits(i * step), d))
        ops.append("fins")
        out.append(pcase(cfg_str(codec=codec), ops))
        dist["long_run"] += 1
    return out


def f64_palette_cases(rng, tier, dist):
    """timestamps chosen by bit pattern: exercises the soft-float model of (secs * 90000.0).round() as u64
    (sub-tick values, ties at .5 ticks, 2^53 neighbourhood, subnormals, values whose product needs rounding)"""
    out = []
    n = 600 if tier == "quick" else 40000
    K = vp9_key(random.Random(11))
    D = vp9_delta(random.Random(12))
    for _ in range(n):
        k = rng.random()
        if k < 0.3:
            a = bits_f64("%016x" % rng.randrange(0x3E00000000000000, 0x40F0000000000000))      # 1e-9 .. 65536 s, random mantissa
        elif k < 0.5:
            tick = rng.randrange(0, 2 ** 32)
            a = (tick + rng.choice([0.5, 0.49999999999, 0.50000000001, 0.0, 0.25, 0.49998, 0.50002, 0.499999, 0.500001])) / 90000.0
        elif k < 0.6:
            a = bits_f64("%016x" % rng.randrange(0, 0x0010000000000000))                        # subnormal
        elif k < 0.7:
            a = rng.choice([2 ** 53, 2 ** 53 + 2, 2 ** 52 + 1]) / 90000.0 * rng.choice([1.0, 1.0000000000000002])
        else:
            a = rng.randrange(0, 10 ** 7) / rng.choice([30.0, 29.97, 1000.0, 90000.0, 48000.0, 3.0])
        gap = rng.choice([1 / 90000, 1 / 30, 0.5 / 90000 * 3, 1001 / 30000, 2.0 ** -20, 47721.0, rng.random()])
        b = a + gap
        ops = ["wv %s %s 1" % (f64bits(a), hx(K)), "wv %s %s 0" % (f64bits(b), hx(D)), "wv %s %s 0" % (f64bits(b + gap * 1.5), hx(D)), "fins"]
        out.append(pcase(cfg_str(codec="vp9"), ops))
    dist["f64_palette"] += n
    return out


def burst_histories(rng, tier, dist, extra=""):
    """long two-track histories with many ties: several audio packets stamped with the time of the video frame they
    arrived with (equal ticks within one track and across tracks), 20 to 200 samples in all"""
    out = []
    for _ in range(12 if tier == "quick" else 300):
        codec = rng.choice(VCODECS)
        audio = rng.choice(["opus", "aac-lc"])
        nv = rng.choice([6, 11, 16, 24, 40])
        per = rng.choice([2, 3, 3, 5])
        step = rng.choice([1 / 30, 1 / 25, 1001 / 30000])
        ops = []
        for i in range(nv):
            t = i * step
            first = rng.random() < 0.5          # audio before or after its video frame in call order
            burst = ["wa %s %s" % (f64bits(t + (rng.choice([0.0, 0.0, 1e-6]))), hx(audio_frame(rng, audio))) for _ in range(per if rng.random() < 0.8 else 1)]
            v = "wv %s %s %d" % (f64bits(t), hx(key_frame(rng, codec) if i == 0 else delta_frame(rng, codec)), 1 if i == 0 else 0)
            ops += ([v] + burst) if (i == 0 or not first) else (burst + [v])
        ops.append(rng.choice(["fin", "fins"]))
        out.append(pcase(cfg_str(codec=codec, audio=audio, fast=rng.randrange(2), extra=extra), ops))
        dist["burst_history_samples=%d" % (10 * ((nv * (per + 1)) // 10))] += 1
    return out


def gen_C15(rng, tier, dist):
    return small_exhaustive_histories(rng, dist, 100000) + \
        gen_hist_cases(rng, tier, dist, 500, 30000, audio=None) + burst_histories(rng, tier, dist)


def gen_C06(rng, tier, dist):
    out = []
    n = 500 if tier == "quick" else 30000
    fins = ["fin", "fins", "finish", "finishs", "flush"]
    for _ in range(n):
        cfg, ops, info = gen_history(rng, dist, finish=None, rejects=0.05)
        # 1-3 finish attempts at any position, calls after finish
        k = rng.randrange(1, 4)
        for _ in range(k):
            f = rng.choice(fins[:2]) if rng.random() < 0.7 else rng.choice(fins)
            pos = rng.randrange(len(ops) + 1) if rng.random() < 0.5 else len(ops)
            ops.insert(pos, f)
        if rng.random() < 0.5:
            ops.append("wv %s %s 0" % (f64bits(999.0), hx(delta_frame(rng, info["codec"]))))
            ops.append("wa %s %s" % (f64bits(999.0), hx(audio_frame(rng, "aac-lc"))))
            ops.append(rng.choice(fins[:2]))
        # a finish that fails part-way (transient or permanent sink fault) followed by further attempts:
        # "exactly once" must also hold when the first attempt did not succeed
        r = rng.random()
        if r < 0.3:
            k = rng.choice([0, 1, 7, 8, 23, 24, 31, 32, 39, 40]) if rng.random() < 0.4 else rng.randrange(0, 1600)
            pol = rng.choice(["failonce:%d:%d" % (k, rng.randrange(17)), "failonce:%d:%d" % (k, rng.randrange(17)),
                              "failat:%d:%d" % (k, rng.randrange(17)), "zeroat:%d" % k,
                              "cap:%d+failonce:%d:%d" % (rng.choice([1, 3, 100]), k, rng.randrange(17)),
                              # sinks that only shorten or interrupt writes: the finish must still deliver the complete file
                              "cap:%d" % rng.choice([1, 3, 7, 64]), "cap:%d" % rng.choice([1, 3, 7, 64]),
                              "cap:%d+intr:%d,%d" % (rng.choice([2, 5]), rng.randrange(0, 40), rng.randrange(40, 900))])
            cfg += " sink=" + pol
            ops.append(rng.choice(fins[:2]))
            ops.append(rng.choice(fins[:2]))
            dist["c06_sink=" + pol.split(":")[0]] += 1
        else:
            dist["c06_sink=reliable"] += 1
        out.append(pcase(cfg, ops))
    # "the exact number of bytes delivered": samples far larger than any buffer a writer might chop its output into
    return out + large_frame_cases(rng, tier, dist)


def gen_C09(rng, tier, dist):
    return gen_hist_cases(rng, tier, dist, 400, 25000, audio=None) + smallscope_histories(tier, dist, maxlen=3 if tier == "quick" else 4)


def big_header_cases(rng, tier, dist, extra=""):
    """movie boxes larger than 64 KiB / 1 MiB: through a long title, or through thousands of samples with irregular
    durations and sizes (nothing run-length-compresses)"""
    out = []
    for n in ([65000, 65536, 70000] if tier == "quick" else [4096, 65000, 65400, 65536, 66000, 70000, 140000, (1 << 20) + 5]):
        title = bytes(rng.choice(b"abc XYZ") for _ in range(n))
        cfg, ops, info = gen_history(rng, dist, md=dict(md=1, title=title, ctime=None, lang=None), nv=rng.randrange(1, 5),
                                     na=rng.randrange(0, 3), rejects=0.0, start=0.0)
        out.append(pcase(cfg + (" " + extra if extra else ""), ops))
        dist["big_header_title=%d" % n] += 1
    for n in ([3000] if tier == "quick" else [3000, 6000, 20000]):
        codec = rng.choice(["vp9", "av1"])
        ops, t = [], 0.0
        for i in range(n):
            fr = key_frame(rng, codec) if i == 0 else bytes([rng.randrange(256) for _ in range(rng.randrange(1, 4))])
            ops.append("wv %s %s %d" % (f64bits(t), hx(fr), 1 if i == 0 else 0))
            t += rng.choice([1 / 30, 1 / 25, 0.05])
        ops.append("fins")
        out.append(pcase(cfg_str(codec=codec, audio="none", fast=1) + (" " + extra if extra else ""), ops))
        dist["big_header_samples=%d" % n] += 1
    return out


def gen_C08(rng, tier, dist):
    return gen_hist_cases(rng, tier, dist, 400, 25000, extra="twin=fast", rejects=0.05) + \
        smallscope_histories(tier, dist, extra="twin=fast", maxlen=3 if tier == "quick" else 4) + \
        big_header_cases(rng, tier, dist, extra="twin=fast") + large_frame_cases(rng, tier, dist, extra="twin=fast")


def gen_C18(rng, tier, dist):
    out = []
    n = 300 if tier == "quick" else 20000
    for _ in range(n):
        title = rng.choice([None, b"", b"x", "Tïtle é中 \U0001F600".encode(), bytes(rng.choice(b"abc XYZ") for _ in range(rng.choice([5, 100, 5000]))),
                            rng.choice([b"Clip\x00", b"\x00", b"\x00\x00", b"A\x00B", b" lead", b"trail ", b"  ", b"line\n", b"\ttab", b"\r\n",
                                        "é\x00".encode(), b"\x00tail\x00\x00"])])
        ctime = rng.choice([None, 0, 59, 86399, 86400, 951782399, 951782400, 951868800, 1709164800, 4107542400, 253402300799,
                            rng.randrange(0, 253402300800), rng.randrange(0, 4102444800),
                            253402300800, rng.randrange(253402300800, 10 ** 13), 10 ** 15, 2 ** 64 - 1,
                            # 1 March and its neighbours in century years
                            86400 * (rng.choice([47540, 84064, 120588, 157113, 193637, 230161]) + rng.choice([-1, 0, 1])) + rng.randrange(86400)])
        lang = rng.choice([None, None] + [bytes(rng.choice(b"abcdefghijklmnopqrstuvwxyz") for _ in range(3)) for _ in range(4)] +
                          [b"", b"e", b"en", b"ENG", "dé".encode(), b"abcd", b"e1g"])
        md = dict(md=1, title=title, ctime=ctime, lang=lang)
        if rng.random() < 0.1:
            md = dict(md=0)
        cfg, ops, info = gen_history(rng, dist, md=md, nv=rng.randrange(0, 4), na=rng.randrange(0, 3))
        # the same configuration reached through the builder's setters (alone, in either order) or through a Metadata value
        path = rng.choice(["", "", " path=set", " path=setonly", " path=setonly", " path=setrev"])
        dist["builder_path=" + (path.strip() or "with_metadata")] += 1
        out.append(pcase(cfg + " twin=nometa" + path, ops))
        dist["title=%s" % ("none" if title is None else "len%d" % min(len(title), 999))] += 1
        dist["lang=%s" % ("none" if lang is None else "wellformed" if len(lang) == 3 and lang.islower() and lang.isalpha() else "malformed")] += 1
    # every day boundary of a sample of years incl. all leap-year cases
    years = [1970, 1971, 1972, 1999, 2000, 2001, 2004, 2023, 2024, 2038, 2100, 2400, 9999] if tier == "quick" else range(1970, 10000, 7)
    import datetime
    for y in years:
        for (mo, d) in [(1, 1), (2, 28), (3, 1), (12, 31)]:
            t = int((datetime.datetime(y, mo, d) - datetime.datetime(1970, 1, 1)).total_seconds())
            for dt in (-1, 0, 86399):
                if t + dt >= 0:
                    out.append(pcase(cfg_str(md=1, title=None, ctime=t + dt, lang=None), ["fins"]))
                    dist["date_boundary"] += 1
    return out


def contract_history(rng, dist, codec, audio, maxlen=12, with_enc=True):
    """rejection-rich call sequence from the quantifier's palettes"""
    INF = float("inf")
    ops = []
    t_v = rng.choice([0.0, 0.0, 1.0])      # a plausible next video time
    t_a = t_v
    n = rng.randrange(1, maxlen + 1)
    have_video = False
    finished = False
    for _ in range(n):
        r = rng.random()
        def ts(base):
            return rng.choice([float("nan"), INF, -INF, -0.0, -1.0, 0.0, base, base, base, base - 0.01, base + 1e-7,
                               base + 1 / 30, base + 0.02, base + 47722.0, base + 47721.8, 1e300, base + 1e-12])
        vplaus = [True]
        def vframe():
            k = rng.random()
            vplaus[0] = 0.08 <= k < 0.85
            if k < 0.08:
                return b"", rng.randrange(2)
            if k < 0.45 or not have_video and k < 0.7:
                return key_frame(rng, codec), 1 if rng.random() < 0.9 else 0
            if k < 0.85:
                return delta_frame(rng, codec), 0 if rng.random() < 0.9 else 1
            if k < 0.89:
                return bytes(rng.randrange(256) for _ in range(rng.randrange(1, 12))), rng.randrange(2)
            if k < 0.91 and codec in ("h264", "h265"):
                # parameter sets but no IDR / IRAP slice: configuration present, not a key frame
                return config_without_key_slice(rng, codec), rng.randrange(2)
            if k < 0.93:
                # nothing but start codes / zero bytes
                return rng.choice([SC3, SC4, SC3 + SC4, SC4 + SC3, bytes(2), bytes(3), SC3 + b"\x00"]), rng.randrange(2)
            # config without key flag / key flag without config
            return (key_frame(rng, codec), 0) if rng.random() < 0.5 else (delta_frame(rng, codec), 1)
        plausible = [True]     # whether the last aframe()/vframe() is one the muxer should take
        def aframe():
            k = rng.random()
            plausible[0] = k >= 0.08 and k < 0.8
            if k < 0.08:
                return b""
            if k < 0.8:
                return audio_frame(rng, audio if audio not in ("none", "cnone") else "aac-lc")
            if k < 0.9:
                f = bytearray(audio_frame(rng, "aac-lc")); f[rng.randrange(min(6, len(f)))] ^= 1 << rng.randrange(8); return bytes(f)
            return bytes(rng.randrange(256) for _ in range(rng.randrange(1, 12)))
        if r < 0.40:
            p = ts(t_v); d, k = vframe()
            ops.append("wv %s %s %d" % (f64bits(p), hx(d), k))
            if p == p and 0 <= p < 1e9 and d and (vplaus[0] or rng.random() < 0.3): t_v = max(t_v, p) + 1 / 30; have_video = True
        elif r < 0.55:
            dts = ts(t_v); p = rng.choice([dts, dts + 0.1, dts + 1 / 30, ts(t_v)]) if dts == dts else ts(t_v); d, k = vframe()
            ops.append("wvd %s %s %s %d" % (f64bits(p), f64bits(dts), hx(d), k))
            if dts == dts and 0 <= dts < 1e9 and d and (vplaus[0] or rng.random() < 0.3): t_v = max(t_v, dts) + 1 / 30; have_video = True
        elif r < 0.80:
            p = ts(t_a)
            ops.append("wa %s %s" % (f64bits(p), hx(aframe())))
            # the plausible next time moves on only when the frame was one the muxer should take (a refused
            # frame with a later timestamp must not move the muxer's own notion of "previous" either)
            if p == p and 0 <= p < 1e9 and (plausible[0] or rng.random() < 0.2): t_a = max(t_a, p) + rng.choice([0.0, 0.02])
        elif r < 0.86 and with_enc:
            d, k = vframe()
            if d and not (codec in ("h264", "h265") and (d.endswith(SC3) or SC3 + SC3[:3] in d)):
                ops.append("ev %s %d" % (hx(d), rng.choice([33, 40, 1, 1001, 0])))
        elif r < 0.90 and with_enc:
            ops.append("ea %s %d" % (hx(aframe() or b"\x01"), rng.choice([960, 1024, 0])))
        else:
            ops.append(rng.choice(["fin", "fins"]))
    if rng.random() < 0.7:
        ops.append(rng.choice(["fin", "fins", "finish", "finishs", "flush"]))
    dist["len=%d" % min(len(ops), 13)] += 1
    return ops


def long_track_histories(rng, tier, dist):
    """two tracks that each run for hours: every gap fits the 32-bit duration field; a track's total may or may not
    (47721.86 s at 90 kHz), and the two totals together often do not although each does"""
    out = []
    for _ in range(80 if tier == "quick" else 4000):
        codec = rng.choice(VCODECS)
        audio = rng.choice(["aac-lc", "opus", "aac-lc", "none"])
        ev = []
        t = 0.0
        for i in range(rng.randrange(2, 5)):
            ev.append((t, 0, "wv %s %s %d" % (f64bits(t), hx(key_frame(rng, codec) if i == 0 else delta_frame(rng, codec)), 1 if i == 0 else 0)))
            t += rng.choice([6000.0, 12000.0, 24000.0, 30000.0, 47000.0, 47721.0])
        dist["long_track_video_total=%s" % ("over" if ev[-1][0] > 47721.85 else "within")] += 1
        if audio != "none":
            t = 0.0
            for i in range(rng.randrange(1, 5)):
                ev.append((t, 1, "wa %s %s" % (f64bits(t), hx(audio_frame(rng, audio)))))
                t += rng.choice([6000.0, 12000.0, 24000.0, 30000.0, 47000.0, 47721.0])
        ev.sort(key=lambda e: (e[0], e[1]))
        out.append(pcase(cfg_str(codec=codec, audio=audio, fast=rng.randrange(2)), [e[2] for e in ev] + ["fins"]))
        dist["long_track_histories"] += 1
    return out


def gen_C04(rng, tier, dist):
    out = long_track_histories(rng, tier, dist)
    n = 2500 if tier == "quick" else 120000
    for _ in range(n):
        codec = rng.choice(VCODECS)
        audio = rng.choice(AUDIOS + ["cnone"])
        dist["codec=" + codec] += 1; dist["audio=" + audio] += 1
        ops = contract_history(rng, dist, codec, audio)
        out.append(pcase(cfg_str(codec=codec, audio=audio, rate=rng.choice([48000, 44100, 0]), fast=rng.randrange(2)), ops))
    # "any sequence of builder and muxer calls": arbitrary builder call sequences (video missing, overridden,
    # audio configured then set to None, Opus with too many channels), then a contract history
    for _ in range(500 if tier == "quick" else 30000):
        bops, codec, audio = random_bops(rng, dist)
        ops = contract_history(rng, dist, codec or "h264", audio, maxlen=8)
        out.append(pcase(cfg_str() + " bops=" + bops, ops))
    return out + smallscope_histories(tier, dist)


def gen_C05(rng, tier, dist):
    out = []
    n = 1500 if tier == "quick" else 80000
    for _ in range(n):
        codec = rng.choice(VCODECS)
        audio = rng.choice(AUDIOS)
        dist["codec=" + codec] += 1; dist["audio=" + audio] += 1
        if rng.random() < 0.5:
            ops = contract_history(rng, dist, codec, audio, with_enc=rng.random() < 0.5)
            ops = [o for o in ops if o not in ("fin", "fins", "finish", "finishs", "flush")] + ["fins"]
            # `filter1` removes only the first refused call: a refusal that drags a later call down with it must show
            tw = rng.choice([" twin=filter", " twin=filter1"])
            dist["c05" + tw.strip()] += 1
            out.append(pcase(cfg_str(codec=codec, audio=audio, fast=rng.randrange(2)) + tw, ops))
        else:
            cfg, ops, info = gen_history(rng, dist, codec=codec, audio=audio, rejects=0.35)
            tw = rng.choice([" twin=filter", " twin=filter1"])
            dist["c05" + tw.strip()] += 1
            out.append(pcase(cfg + tw, ops))
    out += smallscope_histories(tier, dist, extra="twin=filter") + smallscope_histories(tier, dist, extra="twin=filter1")
    # fragmented muxer: refusal-rich sequences (judged by the C10 + C11 + C02 oracles: outputs as if the refused calls had never been made)
    for _ in range(400 if tier == "quick" else 30000):
        out.append(fcase(frag_cfg(rng, dist), frag_ops(rng, dist, maxlen=30, reject_rate=0.3)))
    return out + frag_smallscope(tier, dist, L=4 if tier == "quick" else 5)


def frag_cfg(rng, dist):
    kind = rng.choice(["h264", "h265", "av1", "vp9"])
    via = rng.choice(["direct", "builder"])
    w, h = rng.choice([(1920, 1080), (640, 480), (16, 16)])
    sps = bytes([0x67, 0x42, 0x00, 0x1e]) + nal_body(rng, rng.randrange(0, 8))
    pps = bytes([0x68]) + nal_body(rng, rng.randrange(1, 4))
    c = "w=%d h=%d via=%s codec=%s" % (w, h, via, kind)
    if via == "direct":
        c += " ts=%d fd=%d" % (rng.choice([90000, 90000, 1000, 48000]), rng.choice([2000, 100, 0, 33]))
    if kind == "h264":
        c += " sps=%s pps=%s" % (hx(sps), hx(pps))
    elif kind == "h265":
        c += " sps=%s pps=%s vps=%s" % (hx(bytes([0x42, 1]) + nal_body(rng, 14)), hx(bytes([0x44, 1]) + nal_body(rng, 3)), hx(bytes([0x40, 1]) + nal_body(rng, 5)))
    elif kind == "av1":
        c += " av1=%s" % hx(bytes([0x0A, len(AV1_SEQ_PAYLOAD)]) + AV1_SEQ_PAYLOAD)
    else:
        c += " vp9=%d:%d:%d:%d:%d:%d:%d:%d:%d" % (w, h, rng.randrange(4), rng.choice([8, 10]), rng.randrange(8), rng.randrange(8), rng.randrange(2), 0, rng.randrange(2))
    dist["frag_codec=" + kind] += 1
    dist["frag_via=" + via] += 1
    return c


FOURCC_TICKS = [int.from_bytes(t, "big") << sh for t in (b"trun", b"moof", b"mdat", b"tfdt", b"traf", b"mfhd", b"tfhd", b"moov", b"stco", b"stsz")
                for sh in (0, 8, 32)]


def frag_ops(rng, dist, maxlen=60, steps=None, start=None, reorder=None, queries=True, reject_rate=0.08):
    n = rng.randrange(1, maxlen)
    step = rng.choice([3000, 3003, 1500, 1]) if steps is None else steps
    dts = rng.choice([0, 0, 90000, 1234567]) if start is None else start
    if start is None and rng.random() < 0.15:
        # timelines that cross a power-of-two boundary of the DTS within a few samples
        dts = max(0, (1 << rng.choice([31, 32, 32, 32, 33, 40])) * rng.choice([1, 1, 2, 3]) - rng.randrange(0, 6) * step - rng.randrange(0, 2))
        dist["frag_start=near_pow2"] += 1
    elif start is None and rng.random() < 0.08:
        # a decode time whose bytes spell a box type ("trun", "moof", "mdat", ... also shifted): nothing may find a box by scanning for its name
        dts = rng.choice(FOURCC_TICKS)
        dist["frag_start=fourcc_bytes"] += 1
    vfr = rng.random() < 0.3 and steps is None
    reorder = (rng.random() < 0.3) if reorder is None else reorder
    ops = []
    for i in range(n):
        r = rng.random()
        if r < 0.62:
            size = rng.choice([0, 1, 2, 5, 40, 300]) if rng.random() < 0.8 else rng.randrange(0, 2000)
            data = bytes((i * 13 + j * 7 + 1) & 0xFF for j in range(size))
            d = dts
            if rng.random() < reject_rate:
                d = max(0, dts - rng.choice([1, 3000, 100000]))   # probably rejected
            pts = d + (rng.choice([0, 3000, 6000]) if reorder else 0)
            if reorder and rng.random() < 0.2:
                pts = max(0, d - rng.choice([1, 3000]))
            ops.append("fw %d %d %s %d" % (pts, d, hx(data), 1 if (i == 0 or rng.random() < 0.2) else 0))
            if d == dts:
                dts += (rng.choice([0, 1, 3000, 3003, 9000]) if vfr else step) if rng.random() < 0.95 else 0
        elif r < 0.8:
            ops.append("fflush")
            if rng.random() < 0.2:
                ops.append("fflush")
        elif queries and r < 0.87:
            ops.append("fready")
        elif queries and r < 0.93:
            ops.append("fdur")
        elif queries:
            # `finitfresh`: the init segment of a NEW muxer with the same configuration, asked for now —
            # "byte-identical no matter when it is requested" compares across instances and moments
            ops.append(rng.choice(["finit", "finit", "finitfresh"]))
    ops.append("fflush")
    if queries and rng.random() < 0.5:
        ops.append("finit")
    if queries and rng.random() < 0.5:
        ops.append("finitfresh")
    dist["frag_len=%d" % (len(ops) // 10 * 10)] += 1
    return ops


def fcase(cfg, ops):
    return "F %s | %s" % (cfg, " ; ".join(ops))


def frag_smallscope(tier, dist, L=None):
    """every op sequence of length <= L over {accepted write (+3000), accepted write (same dts), refused
    write (earlier dts; the clock the later writes are derived from does NOT move), refused write at 0,
    flush, ready, init}, flushed at the end"""
    L = L or (5 if tier == "quick" else 6)
    alphabet = ["w+", "w=", "w-", "w0", "fflush", "fready", "finit"]
    cfg = "w=640 h=480 ts=90000 fd=2000 sps=6742001e pps=68ce3880"
    out = []
    for k in range(1, L + 1):
        for seq in itertools.product(alphabet, repeat=k):
            dts = 6000
            first = True
            ops = []
            for i, a in enumerate(seq):
                if a == "w+":
                    dts = dts if first else dts + 3000
                    first = False
                    ops.append("fw %d %d %s %d" % (dts + (3000 if i % 2 else 0), dts, hx(bytes([i + 1, 0xE1])), 1 if i % 3 == 0 else 0))
                elif a == "w=":
                    first = False
                    ops.append("fw %d %d %s 0" % (dts, dts, hx(bytes([i + 1, 0xE2, 0xE2]))))
                elif a == "w-":
                    lo = max(0, dts - 1500)
                    ops.append("fw %d %d %s 1" % (lo, lo, hx(bytes([i + 1, 0xE3]))))   # refused unless it is the first write (or the clock is at 0)
                    if first:
                        dts = lo; first = False
                elif a == "w0":
                    ops.append("fw 0 0 %s 1" % hx(bytes([i + 1, 0xE4])))
                    if first:
                        dts = 0; first = False
                else:
                    ops.append(a)
            out.append(fcase(cfg, ops + ["fflush", "finitfresh"]))
    dist["frag_smallscope_len<=%d" % L] += len(out)
    return out


def frag_long_cases(rng, dist):
    """fragments of more than a hundred and of several thousand samples (queue growth / reuse / splitting thresholds at
    powers of two), followed by short fragments and an empty flush"""
    out = []
    for cnt in (127, 128, 129, 130, 200, 257, 1023, 1024, 1025, 1500, 4097):
        ops, dts = [], rng.choice([0, 90000])
        for seg in (cnt, 3, 0, 2):
            for i in range(seg):
                ops.append("fw %d %d %s %d" % (dts + (3000 if i % 3 == 1 else 0), dts, hx(bytes([(i * 7 + seg) & 0xFF, i & 0xFF])), 1 if i == 0 else 0))
                dts += 3000
            ops.append("fflush")
        ops.append("finitfresh")
        out.append(fcase("w=640 h=480 ts=90000 fd=2000 sps=6742001e pps=68ce3880", ops))
        dist["frag_long_fragment"] += 1
    return out


def gen_C10(rng, tier, dist):
    out = frag_smallscope(tier, dist) + frag_long_cases(rng, dist)
    n = 1000 if tier == "quick" else 60000
    for _ in range(n):
        out.append(fcase(frag_cfg(rng, dist), frag_ops(rng, dist)))
    # exhaustive: all op sequences of length <= L over {w(+1), w(=), w(-1), flush, ready, init}
    L = 5 if tier == "quick" else 7
    alphabet = ["w+", "w=", "w-", "fflush", "fready", "finit"]
    cfg = "w=640 h=480 ts=90000 fd=2000 sps=6742001e pps=68ce3880"
    for k in range(1, L + 1):
        for seq in itertools.product(alphabet, repeat=k):
            dts = 10
            ops = []
            for i, a in enumerate(seq):
                if a[0] == "w":
                    dts = dts + 1 if a == "w+" else dts if a == "w=" else dts - 1
                    ops.append("fw %d %d %s 1" % (dts, dts, hx(bytes([i + 1, 0xEE]))))
                else:
                    ops.append(a)
            out.append(fcase(cfg, ops + ["fflush"]))
    dist["exhaustive_len<=%d" % L] += sum(6 ** k for k in range(1, L + 1))
    return out


def gen_C11(rng, tier, dist):
    out = frag_smallscope(tier, dist, L=4 if tier == "quick" else 6) + frag_long_cases(rng, dist)
    n = 800 if tier == "quick" else 50000
    for _ in range(n):
        k = rng.random()
        if k < 0.4:   # constant interval, >= 2 samples per segment
            step = rng.choice([3000, 3003, 1, 1500])
            start = rng.choice([0, 0, 90000, 7])
            if rng.random() < 0.2:
                start = max(0, (1 << rng.choice([31, 32, 32, 33])) * rng.choice([1, 1, 2]) - rng.randrange(0, 8) * step - rng.randrange(0, 2))
                dist["c11_start=near_pow2"] += 1
            ops = []
            dts = start
            nseg = rng.randrange(1, 6)
            for sgi in range(nseg):
                for _ in range(rng.randrange(2, 6)):
                    pts = dts + (rng.choice([0, step, 2 * step]) if rng.random() < 0.3 else 0)
                    ops.append("fw %d %d %s %d" % (pts, dts, hx(bytes([sgi + 1, 0xAB])), rng.randrange(2)))
                    dts += step
                ops.append("fflush")
                if rng.random() < 0.3:
                    ops.append("finit")
            if rng.random() < 0.5:
                ops.append("finitfresh")
            dist["c11=constant"] += 1
            out.append(fcase(frag_cfg(rng, dist), ops))
        else:
            dist["c11=general"] += 1
            out.append(fcase(frag_cfg(rng, dist), frag_ops(rng, dist, maxlen=40)))
    # exhaustive small: all DTS gap sequences of length <= 5 over {0,1,3000,3003} x all segmentations
    L = 4 if tier == "quick" else 6
    gapset = [0, 1, 3000, 3003]
    cfg = "w=640 h=480 ts=90000 fd=2000 sps=6742001e pps=68ce3880"
    for k in range(1, L + 1):
        for gaps in itertools.product(gapset, repeat=k - 1):
            for cuts in itertools.product([0, 1], repeat=k - 1):
                for start in (0, 5000):
                    dts = start
                    ops = ["fw %d %d aa01 1" % (dts, dts)]
                    for g, cfl in zip(gaps, cuts):
                        if cfl:
                            ops.append("fflush")
                        dts += g
                        ops.append("fw %d %d aa02 0" % (dts, dts))
                    ops.append("fflush")
                    out.append(fcase(cfg, ops))
    dist["exhaustive_dts_len<=%d" % L] += 1
    return out


def gen_C13(rng, tier, dist):
    out = []
    nh = 4 if tier == "quick" else 60
    layouts = [("none", 0), ("none", 1), ("aac-lc", 0), ("aac-lc", 1), ("opus", 1), ("opus", 0)]
    for hi in range(nh):
        audio, fast = layouts[hi % len(layouts)]
        big = (fast == 0 or hi % 3 == 0) and hi < 8          # a handful of histories: each is run under ~2000 sink policies
        cfg, ops, info = gen_history(rng, dist, codec=rng.choice(VCODECS), audio=audio, fast=fast, nv=rng.randrange(1, 4),
                                     na=rng.randrange(1, 3) if audio != "none" else 0, finish=None, md=dict(md=0) if hi % 2 else None,
                                     start=rng.choice([0.0, 1.0]) if big else None)
        if big:
            # small samples followed by one of 8 KiB / 64 KiB and more: a writer that batches small writes must still
            # deliver the bytes in file order when the sink shortens or interrupts the write in front of the large one
            d = delta_frame(rng, info["codec"])
            n = rng.choice([8192, 8192 + 7, 9000]) if (tier == "quick" or hi != 6) else 65536 + 3
            ops = ops + ["wv %s %s 0" % (f64bits(400.0), hx((d + bytes(rng.randrange(1, 256) for _ in range(64)) * (n // 64 + 1))[:n]))]
            dist["c13_large_sample_after_small=%d" % n] += 1
        fin = rng.choice(["fin", "fins", "finish", "finishs", "flush"]) if hi >= 4 else ["fins", "fin", "finishs", "fins"][hi]
        tail = [] if fin in ("finish", "finishs", "flush") else [rng.choice(["fin", "fins"]), "wv %s %s 0" % (f64bits(99.0), hx(delta_frame(rng, info["codec"])))]
        ops2 = ops + [fin] + tail
        maxoff = 1500
        for k in range(0, maxoff):
            kind = (k * 7 + hi) % 17
            out.append(pcase(cfg + " sink=failat:%d:%d twin=nofault" % (k, kind), ops2))
        dist["exhaustive_fail_offsets_per_history"] = maxoff
        # transient faults: the sink fails once at offset k and works afterwards (a retry must still not duplicate)
        for k in list(range(0, 64)) + list(range(64, maxoff, 11)):
            out.append(pcase(cfg + " sink=failonce:%d:%d twin=nofault" % (k, (k + hi) % 17), ops2))
            if k < 64:
                out.append(pcase(cfg + " sink=cap:%d+failonce:%d:%d twin=nofault" % (rng.choice([1, 3, 5]), k, k % 17), ops2))
        dist["transient_fail_offsets_per_history"] = 64 + len(range(64, maxoff, 11))
        for k in range(0, maxoff, 37):
            out.append(pcase(cfg + " sink=zeroat:%d twin=nofault" % k, ops2))
        for cap in (1, 2, 7, 4096):
            out.append(pcase(cfg + " sink=cap:%d twin=nofault" % cap, ops2))
            out.append(pcase(cfg + " sink=cap:%d+intr:%s twin=nofault" % (cap, ",".join(str(rng.randrange(0, 1200)) for _ in range(5))), ops2))
            out.append(pcase(cfg + " sink=cap:%d+failat:%d:3 twin=nofault" % (cap, rng.randrange(0, 1200)), ops2))
        for _ in range(20):
            script = ",".join(rng.choice(["a%d" % rng.choice([1, 3, 10, 100000]), "i", "i", "a1", "f%d" % rng.randrange(17), "z"] if rng.random() < 0.3
                                         else ["a%d" % rng.choice([1, 3, 10, 100000]), "i"]) for _ in range(rng.randrange(1, 25)))
            out.append(pcase(cfg + " sink=script:%s twin=nofault" % script, ops2))
            dist["script"] += 1
        # interruptions without end: long runs of Interrupted before any progress, and a slow sink that is interrupted
        # between most of its short writes (hundreds of interruptions inside one buffer) - none of them is a failure
        for k in (5, 17, 33, 65, 129, 300):
            out.append(pcase(cfg + " sink=script:%s twin=nofault" % ",".join(["a%d" % rng.choice([1, 9, 100000])] * rng.randrange(0, 3) + ["i"] * k), ops2))
            dist["script_interrupted_run=%d" % k] += 1
        # a sink whose flush reports a fault although every write succeeded: not a failed write - the complete
        # file was delivered, so finish reports success and the fault-free byte count
        for fl in ("i", "i,i,i", "f3", "f16,f16,f16,f16", "f%d" % rng.randrange(17), "i,f%d" % rng.randrange(17)):
            pol = rng.choice(["flush:%s", "cap:5+flush:%s", "script:a3,i,a100000+flush:%s", "cap:1+intr:3,9+flush:%s"]) % fl
            out.append(pcase(cfg + " sink=%s twin=nofault" % pol, ops2))
            dist["flush_fault"] += 1
        for per in (1, 2, 3):
            n = rng.choice([120, 400])
            script = ",".join("i" if j % (per + 1) == per else "a%d" % rng.choice([1, 2, 7]) for j in range(n))
            out.append(pcase(cfg + " sink=script:%s twin=nofault" % script, ops2))
            dist["script_slow_interrupted_sink"] += 1
    return out


# ----------------------------------------------------------------------------------------------
# AV1 sequence header encoder following the AV1 specification's syntax (5.5)
# ----------------------------------------------------------------------------------------------
class BitW:
    def __init__(self):
        self.bits = []
    def f(self, n, v):
        for i in range(n - 1, -1, -1):
            self.bits.append((v >> i) & 1)
    def bytes(self):
        b = list(self.bits)
        b.append(1)                      # trailing_one_bit
        while len(b) % 8:
            b.append(0)
        return bytes(int("".join(map(str, b[i:i + 8])), 2) for i in range(0, len(b), 8))


def av1_seq_header(rng, dist, force=None):
    """random syntactically valid sequence_header_obu payload; returns (payload, fields)"""
    force = force or {}
    def pick(name, choices):
        return force[name] if name in force else rng.choice(choices)
    w = BitW()
    profile = pick("profile", [0, 0, 1, 2, 2])
    still = pick("still", [0, 0, 0, 1])
    reduced = pick("reduced", [0, 0, 0, 1]) if still else 0
    w.f(3, profile); w.f(1, still); w.f(1, reduced)
    level = tier = 0
    br = []
    if reduced:
        level = rng.randrange(32); w.f(5, level)
        br.append("reduced")
    else:
        timing = pick("timing", [0, 0, 1])
        w.f(1, timing)
        dmi = 0
        bdl = 0
        if timing:
            br.append("timing")
            w.f(32, rng.randrange(1, 2 ** 32)); w.f(32, rng.randrange(1, 2 ** 32))
            epi = rng.randrange(2); w.f(1, epi)
            if epi:
                br.append("equal_picture_interval")
                # uvlc(): lz leading zeros, a one, lz value bits - except that 32 leading zeros mean the
                # value 2^32 - 1 and NO value bits follow (AV1 spec 4.10.3)
                lz = pick("uvlc_lz", [0, 0, 1, 3, 7, 31, 32]); w.f(lz, 0); w.f(1, 1)
                if lz < 32:
                    w.f(lz, rng.randrange(2 ** lz))
                br.append("uvlc_lz=%d" % lz)
            dmi = pick("dmi", [0, 1]); w.f(1, dmi)
            if dmi:
                br.append("decoder_model_info")
                bdl = rng.randrange(32); w.f(5, bdl); w.f(32, rng.randrange(2 ** 32)); w.f(5, rng.randrange(32)); w.f(5, rng.randrange(32))
                bdl += 1
        iddp = pick("iddp", [0, 0, 1]); w.f(1, iddp)
        if iddp: br.append("initial_display_delay")
        opc = pick("opcnt", [0, 0, 0, 1, 3]); w.f(5, opc)
        if opc: br.append("multi_op")
        for i in range(opc + 1):
            w.f(12, rng.randrange(4096))
            lv = rng.randrange(32); w.f(5, lv)
            tr = 0
            if lv > 7:
                tr = rng.randrange(2); w.f(1, tr); br.append("tier_bit")
            if i == 0:
                level, tier = lv, tr
            if dmi:
                p = rng.randrange(2); w.f(1, p)
                if p:
                    w.f(bdl, rng.randrange(2 ** bdl)); w.f(bdl, rng.randrange(2 ** bdl)); w.f(1, rng.randrange(2))
            if iddp:
                p = rng.randrange(2); w.f(1, p)
                if p:
                    w.f(4, rng.randrange(16))
    fwb = rng.randrange(16); fhb = rng.randrange(16)
    w.f(4, fwb); w.f(4, fhb); w.f(fwb + 1, rng.randrange(2 ** (fwb + 1))); w.f(fhb + 1, rng.randrange(2 ** (fhb + 1)))
    if not reduced:
        fid = rng.choice([0, 0, 1]); w.f(1, fid)
        if fid:
            br.append("frame_id"); w.f(4, rng.randrange(16)); w.f(3, rng.randrange(8))
    w.f(3, rng.randrange(8))
    if not reduced:
        w.f(4, rng.randrange(16))
        eoh = rng.randrange(2); w.f(1, eoh)
        if eoh:
            br.append("order_hint"); w.f(2, rng.randrange(4))
        scsct = rng.randrange(2); w.f(1, scsct)
        if scsct:
            sfsct = 2
        else:
            sfsct = rng.randrange(2); w.f(1, sfsct)
        if sfsct > 0:
            scim = rng.randrange(2); w.f(1, scim)
            if not scim:
                w.f(1, rng.randrange(2))
            br.append("screen_content")
        if eoh:
            w.f(3, rng.randrange(8))
    w.f(3, rng.randrange(8))
    # color_config
    hbd = pick("hbd", [0, 1]); w.f(1, hbd)
    tw = 0
    if profile == 2 and hbd:
        tw = pick("twelve", [0, 1]); w.f(1, tw)
    bitdepth = 12 if (profile == 2 and tw) else (10 if hbd else 8)
    mono = 0
    if profile != 1:
        mono = pick("mono", [0, 0, 0, 1]); w.f(1, mono)
    cdp = pick("cdp", [0, 0, 1]); w.f(1, cdp)
    cp = tc = mc = 2
    if cdp:
        if pick("srgb", [0, 0, 1]) and not mono:
            cp, tc, mc = 1, 13, 0
        else:
            cp, tc, mc = rng.randrange(256), rng.randrange(256), rng.randrange(256)
            if (cp, tc, mc) == (1, 13, 0): mc = 1
        w.f(8, cp); w.f(8, tc); w.f(8, mc)
    csp = 0
    if mono:
        br.append("mono"); w.f(1, rng.randrange(2)); sx = sy = 1
    elif (cp, tc, mc) == (1, 13, 0):
        br.append("srgb"); sx = sy = 0; w.f(1, rng.randrange(2))
    else:
        w.f(1, rng.randrange(2))
        if profile == 0:
            sx = sy = 1
        elif profile == 1:
            sx = sy = 0
        elif bitdepth == 12:
            br.append("twelve_bit_subsampling")
            sx = rng.randrange(2); w.f(1, sx)
            sy = 0
            if sx:
                sy = rng.randrange(2); w.f(1, sy)
        else:
            sx, sy = 1, 0
        if sx and sy:
            csp = rng.randrange(4); w.f(2, csp)
        w.f(1, rng.randrange(2))
    w.f(1, rng.randrange(2))       # film_grain_params_present
    for b in br:
        dist["av1_branch=" + b] += 1
    dist["av1_profile=%d" % profile] += 1
    return w.bytes(), dict(profile=profile, level=level, tier=tier, hbd=hbd, tw=tw, mono=mono, sx=sx, sy=sy, csp=csp)


def av1_obu(obu_type, payload, rng, size_field=True, ext=False):
    hdr = (obu_type << 3) | (4 if ext else 0) | (2 if size_field else 0)
    out = bytes([hdr]) + (bytes([rng.randrange(256)]) if ext else b"")
    if size_field:
        n = len(payload)
        l = leb128(n)
        if rng.random() < 0.15 and len(l) < 3:
            l = bytes([l[0] | 0x80]) + (bytes([l[1] | 0x80, 0]) if len(l) > 1 else bytes([0]))   # non-minimal leb128
        out += l
    return out + payload


def av1_keyframe_from(rng, dist, force=None):
    payload, fields = av1_seq_header(rng, dist, force)
    parts = []
    if rng.random() < 0.5:
        parts.append(av1_obu(2, b"", rng))                      # temporal delimiter
    parts.append(av1_obu(1, payload, rng, ext=rng.random() < 0.2))
    if rng.random() < 0.2:
        parts.append(av1_obu(5, bytes([1, 2, 3]), rng))          # metadata
    last_no_size = rng.random() < 0.2
    parts.append(av1_obu(6, bytes([0x10]) + nal_body(rng, rng.randrange(2, 20)), rng, size_field=not last_no_size))
    return b"".join(parts)



def frag_bops_cases(rng, dist, n):
    """fragmented muxer built from a builder call sequence in which parameters of OTHER codecs were
    supplied too (an earlier codec choice, a stale with_vps / with_av1_sequence_header / with_vp9_config):
    the init segment must describe the codec of the last video call with that codec's parameters only"""
    params = {"h264": ["sps:6742001e", "pps:68ce3880"], "h265": ["vps:40010c01", "sps:420101", "pps:4401c1"],
              "av1": ["av1:0a0b00000024cf7f0d80340120"], "vp9": ["vp9:64.64.0.8.2.2.2.10.0"]}
    out = []
    for _ in range(n):
        final = rng.choice(VCODECS)
        ops = []
        for other in rng.sample(VCODECS, rng.randrange(0, 3)):
            if other != final:
                if rng.random() < 0.5:
                    ops.append("%s:%s:%d:%d" % (rng.choice(["v", "sv"]), other, 320, 240))
                ops += rng.sample(params[other], rng.randrange(1, len(params[other]) + 1))
        tail = ["%s:%s:%d:%d" % (rng.choice(["v", "sv"]), final, rng.choice([640, 16]), rng.choice([480, 16]))] + list(params[final])
        rng.shuffle(tail)
        if rng.random() < 0.5:
            rng.shuffle(ops)
            ops = ops + tail
        else:
            k = rng.randrange(len(tail) + 1)
            ops = tail[:k] + ops + tail[k:]
        out.append(fcase("via=bops bops=" + ",".join(ops), ["finit", "fw 0 0 aabb 1", "fflush", "finitfresh"]))
        dist["frag_bops_foreign_params"] += 1
    return out

def gen_C07(rng, tier, dist):
    # the configuration must be that of the first ACCEPTED key frame, whatever was refused before it
    out = smallscope_histories(tier, dist, maxlen=3 if tier == "quick" else 4,
                               cfgs=[("h264", "aac-lc", 1), ("h265", "opus", 0), ("av1", "aac-lc", 1), ("vp9", "opus", 0)])
    out += frag_bops_cases(rng, dist, 150 if tier == "quick" else 8000)
    n = 1500 if tier == "quick" else 100000
    for _ in range(n):
        codec = rng.choice(VCODECS)
        audio = rng.choice(AUDIOS)
        rate = rng.choice([96000, 88200, 64000, 48000, 44100, 32000, 24000, 22050, 16000, 12000, 11025, 8000, 7350, 12345, 1])
        ch = rng.choice([1, 2, 2, 3, 6, 7, 8, 255, 300])
        w, h = rng.choice([(640, 480), (1, 1), (65535, 65535), (1920, 1080), (4096, 2160)])
        if codec == "h264":
            parts = []
            nn = rng.randrange(3, 9)
            types = [7, 8, 5] + [rng.choice([7, 8, 6, 9, 1, 5]) for _ in range(nn - 3)]
            rng.shuffle(types)
            for t in types:
                parts.append(rng.choice([SC3, SC4]) + bytes([0x60 | t]) + nal_body(rng, rng.choice([0, 1, 2, 3, 4, 20, 300])))
            key = bytes(rng.choice([0, 0, 0xFF]) for _ in range(rng.randrange(0, 3) if rng.random() < 0.2 else 0)) + b"".join(parts) + bytes(rng.randrange(0, 3))
        elif codec == "h265":
            parts = []
            types = [32, 33, 34, 19] + [rng.choice([32, 33, 34, 39, 1, 20]) for _ in range(rng.randrange(0, 5))]
            rng.shuffle(types)
            for t in types:
                parts.append(rng.choice([SC3, SC4]) + bytes([t << 1, 1]) + nal_body(rng, rng.choice([0, 1, 2, 3, 13, 20, 300])))
            key = b"".join(parts)
        elif codec == "av1":
            key = av1_keyframe_from(rng, dist)
        else:
            prof = rng.randrange(4)
            key = bytes([0x49, 0x83, 0x42, (prof << 6), 0x80]) + (bytes([rng.randrange(256)]) if prof >= 2 else b"") + \
                leb128(rng.choice([100, 1920, 70000])) + leb128(rng.choice([100, 1080])) + bytes([rng.randrange(256), rng.randrange(256)]) + nal_body(rng, 5)
        ops = ["wv %s %s 1" % (f64bits(0.0), hx(key))]
        if audio != "none" and rng.random() < 0.7:
            ops.append("wa %s %s" % (f64bits(0.0), hx(audio_frame(rng, audio))))
        ops.append("fins")
        dist["codec=" + codec] += 1
        out.append(pcase(cfg_str(codec=codec, w=w, h=h, audio=audio, rate=rate, ch=ch, fast=rng.randrange(2)), ops))
    # AV1: every flag combination with fixed literals
    flagnames = ["still", "timing", "dmi", "iddp", "hbd", "twelve", "mono", "cdp", "srgb"]
    profs = [0, 1, 2]
    combos = list(itertools.product([0, 1], repeat=len(flagnames)))
    rng.shuffle(combos)
    for combo in combos[: (60 if tier == "quick" else len(combos))]:
        for prof in profs:
            force = dict(zip(flagnames, combo)); force["profile"] = prof; force["reduced"] = 0; force["opcnt"] = 0
            key = av1_keyframe_from(rng, dist, force)
            out.append(pcase(cfg_str(codec="av1"), ["wv %s %s 1" % (f64bits(0.0), hx(key)), "fins"]))
    # fragmented init segments with builder parameter sets of many lengths
    for _ in range(200 if tier == "quick" else 10000):
        out.append(fcase(frag_cfg(rng, dist), ["finit"]))
    return out


def gen_C19(rng, tier, dist):
    out = frag_bops_cases(rng, dist, 80 if tier == "quick" else 4000)
    dims = [(640, 480), (1, 1), (65535, 65535), (1920, 1080)]
    rates = [48000, 44100, 8000, 96000, 65535]
    for codec in VCODECS:
        for audio in AUDIOS:
            for fast in (0, 1):
                for md in (dict(md=0), dict(md=1, title=b"t", ctime=1700000000, lang=b"eng")):
                    w, h = rng.choice(dims)
                    ops = ["wv %s %s 1" % (f64bits(0.0), hx(key_frame(rng, codec))), "wv %s %s 0" % (f64bits(0.04), hx(delta_frame(rng, codec)))]
                    if audio != "none":
                        ops.append("wa %s %s" % (f64bits(0.0), hx(audio_frame(rng, audio))))
                    ops.append("fins")
                    out.append(pcase(cfg_str(codec=codec, w=w, h=h, audio=audio, rate=rng.choice(rates), ch=rng.choice([1, 2, 6]), fast=fast, **md), ops))
                    dist["cfg"] += 1
    n = 100 if tier == "quick" else 5000
    for _ in range(n):
        cfg, ops, info = gen_history(rng, dist)
        out.append(pcase(cfg, ops))
    # AV1 streams of every profile / level / tier / bit depth / subsampling (the configuration record's
    # fields must equal those of the sequence header it carries), progressive and fragmented
    for _ in range(120 if tier == "quick" else 6000):
        k = av1_keyframe_from(rng, dist)
        out.append(pcase(cfg_str(codec="av1", fast=rng.randrange(2)), ["wv %s %s 1" % (f64bits(0.0), hx(k)), "fins"]))
        payload, fields = av1_seq_header(rng, dist)
        out.append(fcase("w=640 h=480 via=builder codec=av1 av1=%s" % hx(bytes([0x0A]) + leb128(len(payload)) + payload),
                         ["finit", "fw 0 0 aabb 1", "fflush"]))
        dist["av1_syntax_headers"] += 2
    for _ in range(150 if tier == "quick" else 5000):
        out.append(fcase(frag_cfg(rng, dist), ["finit", "fw 0 0 aabb 1", "fw 3000 3000 cc 0", "fflush"]))
    return out


def gen_C16(rng, tier, dist):
    out = []
    K = h264_key(random.Random(3), extra=False)
    D = SC4 + bytes([0x41, 0x9A, 0x01])
    A = adts(random.Random(4), payload=bytes([1, 2, 3]))
    T = 2 ** 32 / 90000.0          # 47721.858...
    def near(x):
        return [x - 2 / 90000, x - 1 / 90000, x, x + 1 / 90000, x + 2 / 90000]
    # total duration around 2^32 ticks (two+ frames), both tracks, both layouts
    for fast in (0, 1):
        for t in near(T / 2) + near(T / 2 + 0.5):
            out.append(pcase(cfg_str(fast=fast), ["wv %s %s 1" % (f64bits(0.0), hx(K)), "wv %s %s 0" % (f64bits(t), hx(D)), "fins"]))
            out.append(pcase(cfg_str(fast=fast, audio="aac-lc"), ["wv %s %s 1" % (f64bits(0.0), hx(K)), "wa %s %s" % (f64bits(0.0), hx(A)),
                                                                   "wa %s %s" % (f64bits(t), hx(A)), "fins"]))
            dist["total_duration_boundary"] += 2
        # total duration around 2^32 ticks for REORDERED video (presentation span != decode span: the last
        # decode-order frame is presented before it is decoded, the first one after): the declared duration
        # is the sum of the sample durations, whatever the presentation times are
        for k in (-1, 0, 1, 2, 1499, 1500, 1501, 3000, 3001, 6000, 6001, 9001):
            G = 2 ** 32 - 1 + k - 9000
            dts = [0, G, G + 3000, G + 6000]
            for pts in ([3000, G + 9000, G + 3000, G + 4500], [0, G + 6000, G + 3000, G + 4500], [6000, G + 12000, G + 6000, G + 9000]):
                ops = ["wvd %s %s %s %d" % (f64bits(p / 90000.0), f64bits(d / 90000.0), hx(K if i == 0 else D), 1 if i == 0 else 0)
                       for i, (p, d) in enumerate(zip(pts, dts))]
                out.append(pcase(cfg_str(fast=fast), ops + ["fins"]))
                dist["total_duration_boundary_reordered"] += 1
        # inter-frame gap around 2^32
        for t in near(T):
            out.append(pcase(cfg_str(fast=fast), ["wv %s %s 1" % (f64bits(0.0), hx(K)), "wv %s %s 0" % (f64bits(t), hx(D)), "fins"]))
            out.append(pcase(cfg_str(fast=fast, audio="opus"), ["wv %s %s 1" % (f64bits(0.0), hx(K)), "wa %s %s" % (f64bits(0.0), hx(opus_pkt(rng, 3))),
                                                                 "wa %s %s" % (f64bits(t), hx(opus_pkt(rng, 3))), "fins"]))
            dist["gap_boundary"] += 2
        # |pts - dts| around 2^31
        H = 2 ** 31 / 90000.0
        for t in near(H):
            out.append(pcase(cfg_str(fast=fast), ["wvd %s %s %s 1" % (f64bits(t), f64bits(0.0), hx(K)), "fins"]))
            out.append(pcase(cfg_str(fast=fast), ["wvd %s %s %s 1" % (f64bits(1.0), f64bits(1.0 + t), hx(K)), "fins"]))
            dist["cts_boundary"] += 2
    # |pts - dts| within 2^31 of 2^64 (a 64-bit wrapping subtraction would land inside the i32 range)
    for k in (2 ** 64 - 2 ** 30, 2 ** 64 - 2 ** 31 + 40000, 2 ** 64 - 2 ** 31 - 40000, 2 ** 64 - 50000, 2 ** 64 - 2 ** 20, 2 ** 63 + 2 ** 30):
        t = k / 90000.0
        for fast in (0, 1):
            out.append(pcase(cfg_str(fast=fast), ["wvd %s %s %s 1" % (f64bits(t), f64bits(0.0), hx(K)), "fins"]))
            out.append(pcase(cfg_str(fast=fast), ["wvd %s %s %s 1" % (f64bits(0.0), f64bits(t), hx(K)), "fins"]))
            out.append(pcase(cfg_str(fast=fast), ["wvd %s %s %s 1" % (f64bits(t), f64bits(1.0), hx(K)), "wvd %s %s %s 0" % (f64bits(t), f64bits(1.5), hx(D)), "fins"]))
            dist["cts_near_2^64"] += 3
    # timestamps around 2^53 and 2^64 ticks, huge
    for t in [2 ** 53 / 90000.0, 2 ** 53 / 90000.0 * 1.0000001, 2 ** 63 / 90000.0, 2 ** 64 / 90000.0 * 0.999999, 2 ** 64 / 90000.0, 2 ** 64 / 90000.0 * 1.01, 1e300, 1.7e308]:
        out.append(pcase(cfg_str(), ["wv %s %s 1" % (f64bits(t), hx(K)), "wv %s %s 0" % (f64bits(t * 1.0000001 + 1), hx(D)), "fins"]))
        out.append(pcase(cfg_str(), ["wvd %s %s %s 1" % (f64bits(t), f64bits(t), hx(K)), "fins"]))
        out.append(pcase(cfg_str(audio="aac-lc"), ["wv %s %s 1" % (f64bits(0.0), hx(K)), "wa %s %s" % (f64bits(t), hx(A)), "fins"]))
        dist["huge_timestamps"] += 3
    # parameter sets of 65535 / 65536 bytes
    for n in (65534, 65535, 65536, 70000):
        key = SC4 + bytes([0x67]) + bytes([0x55]) * (n - 1) + SC4 + bytes([0x68, 0xCE]) + SC4 + bytes([0x65, 0x88])
        out.append(pcase(cfg_str(), ["wv %s %s 1" % (f64bits(0.0), hx(key)), "fins"]))
        key = SC4 + bytes([0x67, 0x42, 0x00, 0x1E]) + SC4 + bytes([0x68]) + bytes([0x55]) * (n - 1) + SC4 + bytes([0x65, 0x88])
        out.append(pcase(cfg_str(), ["wv %s %s 1" % (f64bits(0.0), hx(key)), "fins"]))
        key = SC4 + bytes([0x40, 1]) + bytes([0x33]) * (n - 2) + SC4 + bytes([0x42, 1, 1, 1]) + SC4 + bytes([0x44, 1]) + SC4 + bytes([0x26, 1, 5])
        out.append(pcase(cfg_str(codec="h265"), ["wv %s %s 1" % (f64bits(0.0), hx(key)), "fins"]))
        out.append(fcase("w=640 h=480 via=builder codec=h264 sps=%s pps=68ce3880" % hx(bytes([0x67]) + bytes([0x55]) * (n - 1)), ["finit"]))
        dist["param_set_boundary"] += 4
    # dimensions, channels, sample rates
    for w, h in [(65535, 65535), (65536, 480), (640, 65536), (4294967295, 1)]:
        for fast in (0, 1):
            out.append(pcase(cfg_str(w=w, h=h, fast=fast), ["wv %s %s 1" % (f64bits(0.0), hx(K)), "fins"]))
    for ch in (255, 256, 300, 65535):
        for audio in ("opus", "aac-lc"):
            out.append(pcase(cfg_str(audio=audio, ch=ch), ["wv %s %s 1" % (f64bits(0.0), hx(K)), "wa %s %s" % (f64bits(0.0), hx(audio_frame(rng, audio))), "fins"]))
    for rate in (65535, 65536, 88200, 96000, 4294967295):
        out.append(pcase(cfg_str(audio="aac-lc", rate=rate), ["wv %s %s 1" % (f64bits(0.0), hx(K)), "wa %s %s" % (f64bits(0.0), hx(A)), "fins"]))
    dist["dims_channels_rates"] += 21
    # fragmented: DTS gap around 2^32, |pts-dts| around 2^31, huge dts
    cfg = "w=640 h=480 ts=90000 fd=2000 sps=6742001e pps=68ce3880"
    for g in (2 ** 32 - 1, 2 ** 32, 2 ** 32 + 1):
        out.append(fcase(cfg, ["fw 0 0 aa 1", "fw %d %d bb 0" % (g, g), "fw %d %d cc 0" % (g + 3000, g + 3000), "fflush"]))
    for g in (2 ** 31 - 1, 2 ** 31, 2 ** 31 + 1):
        out.append(fcase(cfg, ["fw %d 0 aa 1" % g, "fflush"]))
        out.append(fcase(cfg, ["fw 0 %d aa 1" % g, "fflush"]))
    for d in (2 ** 53, 2 ** 63, 2 ** 64 - 1):
        out.append(fcase(cfg, ["fw %d %d aa 1" % (d, d), "fflush"]))
    dist["fragmented_boundaries"] += 12
    # ordinary histories as background
    out += gen_hist_cases(rng, tier, dist, 200, 15000)
    for _ in range(100 if tier == "quick" else 8000):
        out.append(fcase(frag_cfg(rng, dist), frag_ops(rng, dist, maxlen=30, reorder=True)))
    return out


XFUNCS_BYTES = ["annexb_to_avcc", "hevc_annexb_to_hvcc", "nals", "extract_avc", "extract_hevc", "extract_av1", "extract_vp9",
                "is_h264_key", "is_hevc_key", "is_av1_key", "is_vp9_key", "is_valid_vp9", "hevc_nal_type", "leb128", "obu_header",
                "obus", "opus_samples", "opus_valid", "opus_count"]


def gen_C12(rng, tier, dist):
    out = []
    # --- raw stream: all byte strings up to length L over a small alphabet, every bytes-function
    alphabet = [0x00, 0x01, 0x0A, 0x12, 0x32, 0x49, 0x83, 0x42, 0x80, 0xFF, 0x67, 0xE0]
    L = 2 if tier == "quick" else 3
    for n in range(0, L + 1):
        for tup in itertools.product(alphabet, repeat=n):
            for fn in XFUNCS_BYTES:
                out.append("X %s %s" % (fn, hx(bytes(tup))))
    dist["raw_exhaustive_len<=%d" % L] = len(out)
    # --- first key frames whose parameter sets are only a few bytes long, muxed and FINISHED (the
    #     configuration records are built at finish, long after the frame was accepted)
    r7 = random.Random(77)
    for fast in (0, 1):
        for a in range(0, 6):
            for b in range(0, 4):
                k = SC4 + bytes([0x67]) + nal_body(r7, a) + SC3 + bytes([0x68]) + nal_body(r7, b) + SC4 + bytes([0x65, 0x88, 0x84])
                out.append(pcase(cfg_str(codec="h264", fast=fast), ["wv %s %s 1" % (f64bits(0.0), hx(k)), "fins"]))
                out.append(pcase(cfg_str(codec="h264", fast=fast), ["ev %s 33" % hx(k), "ev %s 33" % hx(SC3 + bytes([0x41, 0x9A])), "fins"]))
        for a in range(0, 5):
            for b in range(0, 3):
                for c in range(0, 3):
                    k = SC4 + bytes([0x40, 1]) + nal_body(r7, a) + SC4 + bytes([0x42, 1]) + nal_body(r7, b) + SC3 + bytes([0x44, 1]) + nal_body(r7, c) + SC3 + bytes([0x26, 1, 0xAF])
                    out.append(pcase(cfg_str(codec="h265", fast=fast), ["wv %s %s 1" % (f64bits(0.0), hx(k)), "fins"]))
        # one-byte NAL units (header only) everywhere
        out.append(pcase(cfg_str(codec="h264", fast=fast), ["wv %s %s 1" % (f64bits(0.0), hx(SC3 + b"\x67" + SC3 + b"\x68" + SC3 + b"\x65")), "fins"]))
        out.append(pcase(cfg_str(codec="h265", fast=fast), ["wv %s %s 1" % (f64bits(0.0), hx(SC3 + b"\x40" + SC3 + b"\x42" + SC3 + b"\x44" + SC3 + b"\x26")), "fins"]))
    dist["short_parameter_sets_finished"] += 2 * (6 * 4 * 2 + 5 * 3 * 3 + 2)
    # --- degenerate Annex B access units as LATER frames (nothing but start codes / zero bytes): whatever
    #     the re-framing makes of them is stored as a sample, and the sample tables are built at finish
    for codec, kf in (("h264", h264_key(r7, extra=False)), ("h265", h265_key(r7))):
        for n in range(1, 6):
            for tup in itertools.product([0, 1], repeat=n):
                d = bytes(tup)
                out.append(pcase(cfg_str(codec=codec, fast=n % 2), ["wv %s %s 1" % (f64bits(0.0), hx(kf)), "wv %s %s 0" % (f64bits(0.04), hx(d)), "fins"]))
                dist["degenerate_annexb_later_frame"] += 1
        for d in (SC3 + SC4, SC4 + SC3 + SC3, SC4 + SC4, bytes(7), SC3 + bytes(3)):
            out.append(pcase(cfg_str(codec=codec), ["ev %s 33" % hx(kf), "ev %s 33" % hx(d), "ev %s 33" % hx(SC3 + bytes([0x41, 0x9A])), "fins"]))
            dist["degenerate_annexb_later_frame"] += 1
    # --- structured stream: valid inputs truncated at every length / bit-flipped / extreme literals
    seeds = []
    for codec in VCODECS:
        seeds.append((codec, key_frame(rng, codec)))
        seeds.append((codec, delta_frame(rng, codec)))
    seeds.append(("av1", av1_keyframe_from(rng, dist)))
    seeds.append(("av1", av1_keyframe_from(rng, dist, dict(timing=1, dmi=1, opcnt=3))))
    seeds.append(("adts", adts(rng)))
    seeds.append(("opus", opus_pkt(rng, 5)))
    seeds.append(("opus", bytes([0xFF, 0x3F, 1, 2])))
    fn_for = {"h264": ["annexb_to_avcc", "extract_avc", "is_h264_key", "nals"], "h265": ["hevc_annexb_to_hvcc", "extract_hevc", "is_hevc_key"],
              "av1": ["extract_av1", "is_av1_key", "obus", "obu_header"], "vp9": ["extract_vp9", "is_vp9_key", "is_valid_vp9"],
              "adts": ["opus_valid"], "opus": ["opus_samples", "opus_valid", "opus_count"]}
    nmut = 40 if tier == "quick" else 600
    for codec, data in seeds:
        for fn in fn_for[codec]:
            for cut in range(len(data) + 1):
                out.append("X %s %s" % (fn, hx(data[:cut])))
            for _ in range(nmut):
                b = bytearray(data)
                for _ in range(rng.randrange(1, 4)):
                    j = rng.randrange(len(b))
                    b[j] = rng.choice([b[j] ^ (1 << rng.randrange(8)), 0x00, 0xFF, 0x80, 0x7F])
                out.append("X %s %s" % (fn, hx(bytes(b))))
            dist["structured_" + fn] += len(data) + 1 + nmut
    for _ in range(200 if tier == "quick" else 20000):
        fn = rng.choice(XFUNCS_BYTES)
        n = rng.choice([5, 17, 100, 4096]) if rng.random() < 0.5 else rng.randrange(0, 64)
        out.append("X %s %s" % (fn, hx(bytes(rng.choice([0, 0, 1, 0xFF, rng.randrange(256)]) for _ in range(n)))))
    # leb128 / obu sizes with extreme values
    # sizes whose sum with the header length or the iterator position leaves 64 bits, with every header kind
    td = bytes([0x12, 0x00])                                   # a temporal delimiter in front: position > 0
    for v in [2 ** 64 - 1, 2 ** 64 - 2, 2 ** 64 - 3, 2 ** 64 - 12, 2 ** 63 - 1, 2 ** 70 - 1, 2 ** 56, 2 ** 49 - 1]:
        x = v
        enc = bytearray()
        while True:
            b = x & 0x7F; x >>= 7
            enc.append(b | (0x80 if x else 0))
            if not x:
                break
        e = bytes(enc)
        out.append("X leb128 %s" % hx(e))
        for hb in (0x0A, 0x32, 0x2A, 0x0E):                    # seq header / frame / frame header, with/without extension
            hdr = bytes([hb]) + (b"\x00" if hb & 4 else b"")
            for pre in (b"", td):
                blob = pre + hdr + e + bytes(6)
                for fn in ("obu_header", "obus", "extract_av1", "is_av1_key"):
                    out.append("X %s %s" % (fn, hx(blob if fn != "obu_header" else hdr + e + bytes(6))))
                out.append(pcase(cfg_str(codec="av1"), ["wv %s %s 1" % (f64bits(0.0), hx(blob)), "fins"]))
        dist["leb128_extreme"] += 1
    for v in [0, 127, 128, 2 ** 32, 2 ** 56 - 1, 2 ** 63]:
        enc = bytearray()
        x = v
        for _ in range(10):
            enc.append((x & 0x7F) | 0x80); x >>= 7
        for k in range(1, 11):
            e = bytes(enc[:k - 1]) + bytes([enc[k - 1] & 0x7F])
            out.append("X leb128 %s" % hx(e))
            out.append("X obu_header %s" % hx(bytes([0x0A]) + e))
            out.append("X obus %s" % hx(bytes([0x0A]) + e + bytes(4)))
            out.append("X extract_av1 %s" % hx(bytes([0x0A]) + e + bytes(4)))
    for x in range(256):
        out.append("X obu_bits %d" % x)
        out.append("X opus_dur %d" % x)
        out.append("X is_hevc_key_type %d" % x)
    for ch in (0, 1, 2, 3, 255):
        out.append("X opus_cfg %d %d" % (ch, rng.choice([0, 312, 65535])))
    f64s = [0.0, -0.0, 1.0, -1.0, 29.97, 120.0, 120.0000001, float("inf"), -float("inf"), float("nan"), 5e-324, 1e300]
    for codec in VCODECS:
        for w, h in [(0, 0), (1, 1), (320, 240), (4096, 2160), (4097, 2160), (2 ** 32 - 1, 2 ** 32 - 1)]:
            for f in f64s:
                out.append("X validate_video_config %s %d %d %s" % (codec, w, h, f64bits(f)))
    for ac in AUDIOS[1:] + ["cnone"]:
        for r in (0, 1, 48000, 192000, 192001, 2 ** 32 - 1):
            for ch in (0, 1, 8, 9, 255):
                out.append("X validate_audio_config %s %d %d" % (ac, r, ch))
        for d in [b"", b"\xff", adts(rng), opus_pkt(rng, 3), bytes(7)]:
            out.append("X validate_audio_frame %s %s" % (ac, hx(d)))
    for codec in VCODECS:
        for d in [b"", bytes(3), key_frame(rng, codec), delta_frame(rng, codec), SC3, SC4 + SC3]:
            for k in (0, 1):
                out.append("X validate_video_frame %s %s %d" % (codec, hx(d), k))
    # validate_muxing_config: every presence pattern of the optional fields, with and without sample frames
    def opt(v):
        return "~" if v is None else str(v)
    r9 = random.Random(99)
    for vc in [None, "h264", "vp9"]:
        for dims in [(None, None), (640, None), (640, 480), (100, 100), (0, 0)]:
            for fps in [None, 30.0, 0.0, float("nan")]:
                for ac in [None, "aac-lc", "opus", "cnone"]:
                    for sr, ch in [(None, None), (48000, None), (48000, 2), (0, 9)]:
                        vf = r9.choice([None, None, key_frame(r9, vc or "h264"), delta_frame(r9, vc or "h264"), b""])
                        af = r9.choice([None, None, adts(r9), opus_pkt(r9, 3), b"", b"\x01"])
                        out.append("X validate_muxing %s %s %s %s %s %d %s %s %s %s" % (
                            opt(vc), opt(dims[0]), opt(dims[1]), "~" if fps is None else f64bits(fps),
                            "~" if vf is None else hx(vf), r9.randrange(2), opt(ac), opt(sr), opt(ch), "~" if af is None else hx(af)))
                        dist["validate_muxing"] += 1
    # new_with_fragment: every presence pattern of the parameters the codec needs
    for codec, need in (("h264", ["sps:6742001e", "pps:68ce3880"]), ("h265", ["vps:40010c", "sps:4201", "pps:4401"]),
                        ("av1", ["av1:0a0b00000024cf7f"]), ("vp9", ["vp9:64.64.0.8.2.2.2.10.0"])):
        for mask in range(1 << len(need)):
            ops = ["v:%s:640:480" % codec] + [need[i] for i in range(len(need)) if mask >> i & 1]
            out.append(fcase("via=bops bops=" + ",".join(ops), ["finit", "fw 0 0 aabb 1", "fflush"]))
    # plain data builders, the wall-clock convenience, Display/Debug of every error variant
    for w, h in [(0, 0), (1920, 1080), (2 ** 32 - 1, 1)]:
        for ac in ["~", "aac-lc", "opus", "cnone"]:
            for fast in (0, 1):
                out.append("X muxer_config %d %d %s %s %d %d %d %d" % (w, h, f64bits(r9.choice(f64s)), ac, r9.choice([0, 48000, 2 ** 32 - 1]), r9.choice([0, 2, 65535]), fast, r9.randrange(2)))
    out.append("X metadata_now")
    for a, b2 in [(b"", b""), (b"\x67\x42", b"\x68"), (bytes(70000), b"\x00"), (bytes(range(0x40, 0x60)), b"\x44\x01"), (b"\x42\x01\x01\xff", b"")]:
        out.append("X plain_ctors %s %s" % (hx(a), hx(b2)))
    for f in f64s + [1e-310, 2.0 ** 63, -2.0 ** 64]:
        out.append("X error_display %s" % f64bits(f))
    # VP9 key frames of profile 2/3 cut right behind the frame header; an AV1 uvlc() of 33 leading zeros
    for b3 in (0x80, 0xC0, 0x40, 0x00, 0xA0, 0x90):
        for n in range(3, 12):
            f = bytes([0x49, 0x83, 0x42, b3]) + bytes([0x80, 0x10, 0x10, 0x12, 0, 0, 0, 0])
            for fn in ("extract_vp9", "is_vp9_key", "is_valid_vp9"):
                out.append("X %s %s" % (fn, hx(f[:n])))
    for lz in (31, 32, 33, 40):
        w = BitW(); w.f(3, 0); w.f(1, 0); w.f(1, 0); w.f(1, 1); w.f(32, 1); w.f(32, 30); w.f(1, 1); w.f(lz, 0); w.f(1, 1); w.f(min(lz, 32), 0)
        w.f(1, 0); w.f(1, 0); w.f(5, 0); w.f(12, 0); w.f(5, 4); w.f(4, 9); w.f(4, 9); w.f(10, 63); w.f(10, 63); w.f(40, 0)
        pl = w.bytes()
        obu = bytes([0x0A]) + leb128(len(pl)) + pl
        out.append("X extract_av1 %s" % hx(obu))
        out.append(pcase(cfg_str(codec="av1"), ["wv %s %s 1" % (f64bits(0.0), hx(bytes([0x12, 0x00]) + obu + bytes([0x32, 0x02, 0x10, 0x00]))), "fins"]))
    for sname in ["h264", "H.264", "AVC", "hevc", "av1", "VP9", "", "x", "h.265", "\u00e9"]:
        out.append("X vcodec_str %s" % hx(sname.encode()))
    for sname in ["aac", "AAC-LC", "aac-main", "aac-hev2", "opus", "none", "", "mp3"]:
        out.append("X acodec_str %s" % hx(sname.encode()))
    # --- progressive muxer: extreme configurations and call sequences
    n = 600 if tier == "quick" else 40000
    for _ in range(n):
        codec = rng.choice(VCODECS)
        audio = rng.choice(AUDIOS + ["cnone"])
        w = rng.choice([0, 1, 640, 65535, 65536, 2 ** 32 - 1])
        h = rng.choice([0, 1, 480, 65535, 65536, 2 ** 32 - 1])
        rate = rng.choice([0, 1, 8000, 48000, 96000, 2 ** 32 - 1])
        ch = rng.choice([0, 1, 2, 8, 255, 256, 65535])
        md = rng.choice([dict(md=0), dict(md=1, title=rng.choice([None, b"", bytes(rng.choice(b"ab\xc3\xa9") for _ in range(0))or b"t", "\U0001F600".encode() * 50]),
                                         ctime=rng.choice([None, 0, 2 ** 31, 2 ** 32, 253402300800, 10 ** 15, 2 ** 63, 2 ** 64 - 1]),
                                         lang=rng.choice([None, b"", b"e", b"eng", b"\xf0\x9f\x98\x80ab", b"\x7f\x7f\x7f", b"ENGLISH"]))])
        ops = contract_history(rng, dist, codec, audio, maxlen=10)
        extra = ""
        if rng.random() < 0.05:
            extra = "novideo=1"
        out.append(pcase(cfg_str(codec=codec, w=w, h=h, fps=rng.choice(f64s), audio=audio, rate=rate, ch=ch, fast=rng.randrange(2), extra=extra, **md), ops))
    # --- fragmented muxer: extreme configurations and operations
    for _ in range(300 if tier == "quick" else 20000):
        cfg = "w=%d h=%d ts=%d fd=%d sps=%s pps=%s" % (rng.choice([0, 640, 65536, 2 ** 32 - 1]), rng.choice([0, 480, 2 ** 32 - 1]),
                                                   rng.choice([0, 1, 90000, 2 ** 32 - 1]), rng.choice([0, 1, 2000, 2 ** 32 - 1]),
                                                   rng.choice(["~", "-", "67", "6742001e"]), rng.choice(["~", "-", "68ce"]))
        if rng.random() < 0.3:
            cfg = frag_cfg(rng, dist)
        if rng.random() < 0.15:
            cfg = "w=640 h=480 via=builder codec=%s" % rng.choice(VCODECS)      # missing parameter sets
        elif rng.random() < 0.1:
            cfg = "via=default"                                                  # FragmentConfig::default()
        elif rng.random() < 0.15:
            cfg = "via=bops bops=" + random_bops(rng, dist)[0]                   # arbitrary builder calls, then new_with_fragment
        ops = []
        dts = rng.choice([0, 2 ** 32, 2 ** 63, 2 ** 64 - 10])
        for _ in range(rng.randrange(1, 12)):
            r = rng.random()
            if r < 0.6:
                pts = rng.choice([dts, 0, 2 ** 64 - 1, dts + 3000 if dts + 3000 < 2 ** 64 else dts])
                ops.append("fw %d %d %s %d" % (pts, dts, hx(bytes(rng.randrange(256) for _ in range(rng.choice([0, 1, 9])))), rng.randrange(2)))
                dts = min(2 ** 64 - 1, dts + rng.choice([0, 1, 3000, 2 ** 32, 2 ** 62]))
            else:
                ops.append(rng.choice(["fflush", "fready", "fdur", "finit"]))
        ops.append("fflush")
        out.append(fcase(cfg, ops))
    return out


def gen_C17(rng, tier, dist):
    """every history appears in several variants that must all give identical bytes:
    sink types, builder alias path, convenience vs explicit timestamps, audio None vs no audio"""
    out = []
    n = 250 if tier == "quick" else 15000
    g = 0
    for _ in range(n):
        cfg, ops, info = gen_history(rng, dist, rejects=0.05, finish=rng.choice(["fin", "fins", "finish", "finishs", "flush"]))
        g += 1
        # "a different sink type" includes sinks that use the freedom of the io::Write contract:
        # short writes and Interrupted (never an error, never Ok(0)) must not change a byte or a reply
        short = ["sink=cap:%d" % rng.choice([1, 2, 7, 64]),
                 "sink=cap:%d+intr:%s" % (rng.choice([1, 5, 4096]), ",".join(str(rng.randrange(0, 1500)) for _ in range(4)))]
        # two builder call sequences denoting the same configuration (overridden earlier calls, aliases,
        # metadata through a value or through the setters, audio(None) after an audio call)
        bseq = ["bops=" + bops_from_cfg(rng, cfg), "bops=" + bops_from_cfg(rng, cfg)]
        for variant in ["", "sinkty=vec", "sinkty=cursor", "sinkty=file", "path=set", "path=setonly", "path=setrev"] + short + bseq:
            out.append(pcase(cfg + " grp=%d" % g + (" " + variant if variant else ""), ops))
        dist["variants"] += 11
        dist["builder_call_sequences"] += 2
        dist["short_write_sinks"] += 2
    # convenience vs explicit: encode_video/encode_audio with accumulated f64 time == write at that time
    for _ in range(80 if tier == "quick" else 5000):
        codec = rng.choice(VCODECS)
        audio = rng.choice(["none", "aac-lc", "opus"])
        rate = rng.choice([48000, 44100]) if audio != "opus" else 48000
        g += 1
        ms = rng.choice([33, 40, 1, 1001, 16])
        smp = rng.choice([960, 1024])
        nv = rng.randrange(1, 8)
        na = rng.randrange(0, 6) if audio != "none" else 0
        # every call of a pair must be accepted on both paths: the key frames are ones encode_video's own detection
        # recognises (H.265: IDR; BLA/CRA frames are key frames only when the caller says so)
        kf = (lambda: annexb_tail(rng, codec, h265_key(rng, irap=rng.choice([19, 20, 21])))) if codec == "h265" else (lambda: key_frame(rng, codec))
        frames = [kf()] + [delta_frame(rng, codec) if codec == "av1" or rng.random() < 0.8 else kf() for _ in range(nv - 1)]
        aframes = [audio_frame(rng, audio) for _ in range(na)]
        ev = ["ev %s %d" % (hx(f), ms) for f in frames] + ["ea %s %d" % (hx(f), smp) for f in aframes] + ["fins"]
        t = 0.0
        wv = []
        for i, f in enumerate(frames):
            key = (i == 0) if codec == "av1" else is_key_bytes(codec, f)
            wv.append("wv %s %s %d" % (f64bits(t), hx(f), 1 if key else 0))
            t += ms / 1000.0
        ta = 0.0
        for f in aframes:
            wv.append("wa %s %s" % (f64bits(ta), hx(f)))
            ta += smp / float(rate)
        wv.append("fins")
        c = cfg_str(codec=codec, audio=audio, rate=rate, fast=rng.randrange(2)) + " grp=%d" % g
        out.append(pcase(c, ev))
        out.append(pcase(c, wv))
        dist["convenience_pairs"] += 1
    # audio None vs no audio at all
    for _ in range(20 if tier == "quick" else 500):
        cfg, ops, info = gen_history(rng, dist, audio="none")
        g += 1
        out.append(pcase(cfg + " grp=%d" % g, ops))
        out.append(pcase(cfg.replace("audio=none", "audio=cnone:48000:2") + " grp=%d" % g, ops))
    # fragmented muxer: same op sequence, direct vs builder construction does not matter here; just replay
    for _ in range(100 if tier == "quick" else 5000):
        out.append(fcase(frag_cfg(rng, dist), frag_ops(rng, dist, maxlen=25)))
    for _ in range(60 if tier == "quick" else 3000):
        cfg = "via=default" if rng.random() < 0.2 else "via=bops bops=" + random_bops(rng, dist)[0]
        out.append(fcase(cfg, frag_ops(rng, dist, maxlen=12)))
    return out


def is_key_bytes(codec, f):
    """auto keyframe detection of encode_video (spec level)"""
    if codec == "h264":
        return any((u[0] & 0x1F) == 5 for u in split_annexb(f) if u)
    if codec == "h265":
        return any(19 <= ((u[0] >> 1) & 0x3F) <= 21 for u in split_annexb(f) if u)
    if codec == "vp9":
        return len(f) >= 4 and f[:3] == bytes([0x49, 0x83, 0x42]) and ((f[3] >> 5) & 1) == 0 and ((f[3] >> 4) & 1) == 0
    return False


def split_annexb(d):
    out = []
    i = 0
    n = len(d)
    def sc(i):
        if d[i:i + 4] == b"\x00\x00\x00\x01": return 4
        if d[i:i + 3] == b"\x00\x00\x01": return 3
        return 0
    pos = None
    while i < n:
        l = sc(i)
        if l:
            if pos is not None:
                out.append(d[pos:i])
            pos = i + l
            i += l
        else:
            i += 1
    if pos is not None:
        out.append(d[pos:])
    return out


def hexfile(data, rng, style=None):
    """text of an input file holding `data` as hex"""
    style = style or rng.choice(["plain", "plain", "upper", "spaced", "newline", "crlf"])
    h = bytes(data).hex()
    if style == "upper":
        h = h.upper()
    elif style == "spaced":
        h = " ".join(h[i:i + 2] for i in range(0, len(h), 2))
    elif style == "newline":
        h = "\n".join(h[i:i + 32] for i in range(0, len(h), 32)) + "\n"
    elif style == "crlf":
        h = "\r\n".join(h[i:i + 16] for i in range(0, len(h), 16)) + "\r\n\t "
    return h.encode()


def gen_C20(rng, tier, dist):
    out = []
    g = 0
    n = 120 if tier == "quick" else 4000
    vnames = {"h264": ["h264", "H264", "h.264", "avc", "AVC"], "h265": ["h265", "h.265", "hevc", "HEVC"], "av1": ["av1", "AV1"], "vp9": ["vp9", "VP9"]}
    anames = {"aac-lc": ["aac", "aac-lc", "AAC"], "aac-main": ["aac-main"], "aac-ssr": ["aac-ssr"], "aac-ltp": ["aac-ltp"], "aac-he": ["aac-he"],
              "aac-hev2": ["aac-hev2"], "opus": ["opus", "Opus"]}
    for _ in range(n):
        g += 1
        codec = rng.choice(VCODECS)
        audio = rng.choice(["none", "none"] + AUDIOS[1:])
        w, h = rng.choice([(640, 480), (320, 240), (4096, 2160), (1920, 1080)])
        fps = rng.choice(["30", "29.97", "24", "120", "0.5", "60"])
        rate = rng.choice([48000, 44100, 8000, 192000])
        ch = rng.choice([1, 2, 6, 8])
        if audio == "opus":
            rate = 48000
        key = key_frame(rng, codec)
        toks = []
        for fl in ["--verbose", "--json", "--no-progress"]:
            if fl == "--no-progress" or rng.random() < 0.3:
                toks.append(fl)
        toks += [rng.choice(["mux", "m"]), "--video", "@v", "--output", "@out", "--width", str(w), "--height", str(h), "--fps", fps]
        use_default_codec = codec == "h264" and rng.random() < 0.5
        if not use_default_codec:
            toks += ["--video-codec", rng.choice(vnames[codec])]
        files = "v=%s" % hexfile(key, rng).hex()
        title = None; lang = None
        if rng.random() < 0.4:
            title = rng.choice(["T", "My Title", "Tïtle é中", "x" * 200]); toks += ["--title", "x:" + title.encode().hex()]
        if rng.random() < 0.4:
            lang = rng.choice(["eng", "und", "fra", "zz", "ENG", "e"]); toks += ["--language", "x:" + lang.encode().hex()]
        aframe = None
        if audio != "none":
            aframe = audio_frame(rng, audio)
            toks += ["--audio", "@a", "--sample-rate", str(rate), "--channels", str(ch)]
            if not (audio == "aac-lc" and rng.random() < 0.5):
                toks += ["--audio-codec", rng.choice(anames[audio])]
            files += " a=%s" % hexfile(aframe, rng).hex()
        # invalid variations
        r = rng.random()
        bad = None
        if r < 0.35:
            bad = rng.choice(["odd", "nonhex", "empty", "binary", "missing", "nodims", "smalldims", "bigdims", "fps0", "novideo", "garbage_frame",
                              "noaudio_params", "bad_audio", "fragmented", "dry", "dry_bad", "bigfps", "ws_only", "plus", "plus", "minus", "prefix0x"])
            def setv(content):
                nonlocal files
                files = " ".join(["v=%s" % (content.hex() if content is not None and len(content) else ("~" if content is None else "-"))] + [f for f in files.split() if not f.startswith("v=")])
            if bad == "odd": setv(hexfile(key, rng, "plain")[:-1])
            elif bad == "nonhex": setv(b"zz" + hexfile(key, rng, "plain"))
            elif bad == "plus":
                # a sign where a digit belongs: an even number of characters, but not hexadecimal text
                t = bytearray(hexfile(key, rng, "plain")); t[-2] = ord("+"); setv(bytes(t))
            elif bad == "minus":
                t = bytearray(hexfile(key, rng, "plain")); t[-2] = ord("-"); setv(bytes(t))
            elif bad == "prefix0x": setv(b"0x" + hexfile(key, rng, "plain"))
            elif bad == "empty": setv(b"")
            elif bad == "ws_only": setv(b" \n\t ")
            elif bad == "binary": setv(bytes([0xFF, 0xFE, 0x00, 0x80]) + key)
            elif bad == "missing": setv(None)
            elif bad == "garbage_frame": setv(hexfile(bytes(rng.randrange(1, 256) for _ in range(12)), rng))
            elif bad == "nodims": toks = [t for i, t in enumerate(toks) if not (t == "--width" or (i > 0 and toks[i - 1] == "--width"))]
            elif bad == "smalldims": toks[toks.index("--width") + 1] = "319"
            elif bad == "bigdims": toks[toks.index("--height") + 1] = "2161"
            elif bad == "fps0": toks[toks.index("--fps") + 1] = "0"
            elif bad == "bigfps": toks[toks.index("--fps") + 1] = "120.5"
            elif bad == "fragmented": toks.append("--fragmented")
            elif bad == "dry": toks.append("--dry-run")
            elif bad == "dry_bad": toks.append("--dry-run"); setv(b"zz")
            elif bad == "novideo":
                k = toks.index("--video"); del toks[k:k + 2]
                if audio == "none":
                    bad = "noinputs"
            elif bad == "noaudio_params" and audio != "none":
                k = toks.index("--channels"); del toks[k:k + 2]
            elif bad == "bad_audio" and audio != "none":
                files = " ".join([f for f in files.split() if not f.startswith("a=")] + ["a=%s" % hexfile(bytes([0, 1, 2, 3]), rng).hex()])
        dist["mux_" + (bad or "valid")] += 1
        out.append("L %s | %s g=%d" % (" ".join(toks), files, g))
        if bad is None:
            # the library call sequence for the same single-frame input and settings
            md = dict(md=1, title=title.encode() if title is not None else None, ctime=None, lang=lang.encode() if lang is not None else None) if (title is not None or lang is not None) else dict(md=0)
            ops = ["wv %s %s 1" % (f64bits(0.0), hx(key))] + (["wa %s %s" % (f64bits(0.0), hx(aframe))] if aframe is not None else []) + ["finish"]
            out.append(pcase(cfg_str(codec=codec, w=w, h=h, fps=float(fps), audio=audio, rate=rate, ch=ch, fast=1, **md) + " grp=%d" % g + (" path=set" if False else ""), ops))
    # validate
    for _ in range(60 if tier == "quick" else 2000):
        toks = ["--json"] if rng.random() < 0.7 else []
        toks += [rng.choice(["validate", "v"])]
        files = []
        for nm, flag in (("v", "--video"), ("a", "--audio")):
            if rng.random() < 0.7:
                toks += [flag, "@" + nm]
                k = rng.choice(["valid", "valid", "odd", "nonhex", "empty", "binary", "missing", "ws", "upper", "plus"])
                data = bytes(rng.randrange(256) for _ in range(rng.randrange(1, 20)))
                c = {"valid": hexfile(data, rng), "odd": hexfile(data, rng, "plain")[:-1], "nonhex": b"0g" + hexfile(data, rng, "plain"), "empty": b"",
                     "binary": bytes([0xC3, 0x28, 0xFF]), "missing": None, "ws": b"  \n", "upper": hexfile(data, rng, "upper"), "plus": b"+f"}[k]
                files.append("%s=%s" % (nm, "~" if c is None else ("-" if len(c) == 0 else c.hex())))
                dist["validate_" + k] += 1
        if rng.random() < 0.2:
            toks += ["--output", "@rep"]
        out.append("L %s | %s" % (" ".join(toks), " ".join(files)))
    # info on generated MP4s, truncated ones, random bytes, size-0 / size<8 boxes
    K = h264_key(random.Random(9), extra=False)
    for _ in range(60 if tier == "quick" else 2000):
        k = rng.choice(["mp4", "mp4", "truncated", "random", "size0", "small", "tiny", "missing", "huge_size"])
        boxes = [(b"ftyp", b"isom" + bytes(12)), (b"free", bytes(rng.randrange(0, 9))), (b"mdat", bytes(rng.randrange(0, 40))), (b"moov", bytes(rng.randrange(0, 30)))]
        rng.shuffle(boxes)
        mp4 = b"".join(struct.pack(">I", 8 + len(p)) + t + p for t, p in boxes[:rng.randrange(1, 5)])
        c = {"mp4": mp4, "truncated": mp4[:rng.randrange(0, len(mp4))], "random": bytes(rng.randrange(256) for _ in range(rng.randrange(0, 60))),
             "size0": mp4 + struct.pack(">I", 0) + b"free" + bytes(5), "small": mp4 + struct.pack(">I", rng.randrange(1, 8)) + b"abcd" + bytes(9),
             "tiny": bytes(rng.randrange(0, 8)), "missing": None, "huge_size": mp4 + struct.pack(">I", 2 ** 32 - 1) + b"mdat"}[k]
        toks = (["--json"] if rng.random() < 0.3 else []) + [rng.choice(["info", "i"]), "@i"]
        out.append("L %s | i=%s" % (" ".join(toks), "~" if c is None else ("-" if len(c) == 0 else c.hex())))
        dist["info_" + k] += 1
    return out


GENERATORS = {"C14": gen_C14, "C01": gen_C01, "C02": gen_C02, "C03": gen_C03, "C15": gen_C15, "C06": gen_C06,
              "C09": gen_C09, "C08": gen_C08, "C18": gen_C18, "C04": gen_C04, "C05": gen_C05,
              "C10": gen_C10, "C11": gen_C11, "C13": gen_C13,
              "C07": gen_C07, "C19": gen_C19, "C16": gen_C16, "C12": gen_C12, "C17": gen_C17, "C20": gen_C20}

RULES = {
    "C14": "exhaustive byte strings up to a length bound over {00,01,02,03,67,FF} through both conversion entry points; "
           "random joins of NAL units with 3/4-byte start codes, leading garbage, trailing zeros; ADTS frames (valid, truncated, "
           "bit-flipped, all header lengths) written through the muxer and read back with the Spec reader. "
           "non-trivial: input contains a start code / history has an accepted audio frame; distinct by case text",
}
