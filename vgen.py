"""Case generators for the correspondence runs (one PRNG, seeded by VERIF_SEED).

Every generator returns a list of case lines WITHOUT ids: "P <cfg> | ops", "F <cfg> | ops",
"X fn args".  The orchestrator numbers them.  Generators also fill `dist`, a Counter that
is written into the evidence (what the inputs looked like).
"""
import itertools
import random
import struct
from collections import Counter


def hx(b):
    return bytes(b).hex() if len(b) else "-"


def f64bits(x):
    return "%016x" % struct.unpack(">Q", struct.pack(">d", x))[0]


def bits_f64(s):
    return struct.unpack(">d", struct.pack(">Q", int(s, 16)))[0]


# ----------------------------------------------------------------------------------------------
# frame builders
# ----------------------------------------------------------------------------------------------
SC3 = b"\x00\x00\x01"
SC4 = b"\x00\x00\x00\x01"


def nal_body(rng, n, fill=None):
    """n bytes that contain no start code and do not end in 0 (well-formed NAL payload)."""
    if fill is not None:
        return bytes([fill if fill else 1]) * n
    out = bytearray()
    for _ in range(n):
        out.append(rng.choice([rng.randrange(1, 256), rng.randrange(2, 256), 0x80, 0xFF]))
    return bytes(out)


def h264_key(rng, sps_len=None, pps_len=None, slice_len=None, sc=None, extra=True):
    sc = sc or (lambda: rng.choice([SC3, SC4]))
    sps = bytes([0x67]) + nal_body(rng, sps_len if sps_len is not None else rng.randrange(3, 12))
    pps = bytes([0x68]) + nal_body(rng, pps_len if pps_len is not None else rng.randrange(1, 5))
    idr = bytes([0x65]) + nal_body(rng, slice_len if slice_len is not None else rng.randrange(1, 40))
    parts = [sps, pps, idr]
    if extra and rng.random() < 0.3:
        parts.insert(0, bytes([0x09, 0xF0]))  # AUD
    if extra and rng.random() < 0.2:
        parts.insert(rng.randrange(len(parts) + 1), bytes([0x06]) + nal_body(rng, 3))  # SEI
    return b"".join(sc() + p for p in parts)


def h264_delta(rng, n=None, sc=None):
    sc = sc or (lambda: rng.choice([SC3, SC4]))
    k = rng.randrange(1, 3)
    return b"".join(sc() + bytes([0x41]) + nal_body(rng, n if n is not None else rng.randrange(1, 60)) for _ in range(k))


def h265_key(rng, sc=None):
    sc = sc or (lambda: rng.choice([SC3, SC4]))
    vps = bytes([0x40, 0x01]) + nal_body(rng, rng.randrange(2, 8))
    sps = bytes([0x42, 0x01]) + nal_body(rng, rng.randrange(2, 20))
    pps = bytes([0x44, 0x01]) + nal_body(rng, rng.randrange(1, 5))
    idr = bytes([0x26, 0x01]) + nal_body(rng, rng.randrange(1, 40))
    return b"".join(sc() + p for p in [vps, sps, pps, idr])


def h265_delta(rng, sc=None):
    sc = sc or (lambda: rng.choice([SC3, SC4]))
    return sc() + bytes([0x02, 0x01]) + nal_body(rng, rng.randrange(1, 60))


AV1_SEQ_PAYLOAD = bytes([0x00, 0x00, 0x00, 0x10, 0x07, 0x80, 0x04, 0x38, 0x00, 0x00, 0x00, 0x00])


def leb128(n):
    out = bytearray()
    while True:
        b = n & 0x7F
        n >>= 7
        if n:
            out.append(b | 0x80)
        else:
            out.append(b)
            return bytes(out)


def av1_key(rng, seq_payload=None):
    p = seq_payload if seq_payload is not None else AV1_SEQ_PAYLOAD
    body = bytes([0x10]) + nal_body(rng, rng.randrange(3, 30))
    return bytes([0x0A]) + leb128(len(p)) + p + bytes([0x32]) + leb128(len(body)) + body


def av1_delta(rng):
    body = bytes([0x30]) + nal_body(rng, rng.randrange(3, 30))
    return bytes([0x32]) + leb128(len(body)) + body


def vp9_key(rng, w=100, h=100, cc=0x12):
    return bytes([0x49, 0x83, 0x42, 0x00, 0x80]) + leb128(w) + leb128(h) + bytes([cc]) + nal_body(rng, rng.randrange(2, 20))


def vp9_delta(rng):
    return bytes([0x49, 0x83, 0x42, 0x10, 0x80]) + nal_body(rng, rng.randrange(2, 30))


def adts(rng, payload_len=None, protection_absent=True, sfi=3, ch=2, profile=1, payload=None, extra_tail=0):
    if payload is None:
        payload = bytes(rng.randrange(256) for _ in range(payload_len if payload_len is not None else rng.randrange(1, 40)))
    hl = 7 if protection_absent else 9
    fl = hl + len(payload)
    b1 = 0xF0 | (1 if protection_absent else 0)
    b2 = ((profile & 3) << 6) | ((sfi & 15) << 2) | ((ch >> 2) & 1)
    b3 = ((ch & 3) << 6) | ((fl >> 11) & 3)
    b4 = (fl >> 3) & 0xFF
    b5 = ((fl & 7) << 5) | 0x1F
    b6 = 0xFC
    hdr = bytes([0xFF, b1, b2, b3, b4, b5, b6]) + (b"" if protection_absent else bytes([rng.randrange(256), rng.randrange(256)]))
    return hdr + payload + bytes(rng.randrange(256) for _ in range(extra_tail))


def opus_pkt(rng, n=None):
    toc = (rng.randrange(32) << 3) | rng.choice([0, 1, 2])
    return bytes([toc]) + bytes(rng.randrange(256) for _ in range(n if n is not None else rng.randrange(0, 30)))


VCODECS = ["h264", "h265", "av1", "vp9"]
AUDIOS = ["none", "aac-lc", "aac-main", "aac-ssr", "aac-ltp", "aac-he", "aac-hev2", "opus"]


def key_frame(rng, codec):
    return {"h264": h264_key, "h265": h265_key, "av1": av1_key, "vp9": vp9_key}[codec](rng)


def delta_frame(rng, codec):
    return {"h264": h264_delta, "h265": h265_delta, "av1": av1_delta, "vp9": vp9_delta}[codec](rng)


def audio_frame(rng, acodec):
    if acodec == "opus":
        return opus_pkt(rng)
    return adts(rng, protection_absent=rng.random() < 0.8)


def cfg_str(codec="h264", w=640, h=480, fps=30.0, audio="none", rate=48000, ch=2, fast=1, md=0, title=None,
            ctime=None, lang=None, extra=""):
    a = "none" if audio == "none" else "%s:%d:%d" % (audio, rate, ch)
    s = "codec=%s w=%d h=%d fps=%s audio=%s fast=%d md=%d" % (codec, w, h, f64bits(fps), a, fast, md)
    if md:
        s += " title=%s" % ("~" if title is None else hx(title))
        s += " ctime=%s" % ("~" if ctime is None else str(ctime))
        s += " lang=%s" % ("~" if lang is None else hx(lang))
    if extra:
        s += " " + extra
    return s


def rand_metadata(rng):
    if rng.random() < 0.5:
        return dict(md=0)
    title = rng.choice([None, b"", b"T", "Tïtle é中".encode(), bytes(rng.choice(b"abcdefgh ") for _ in range(rng.randrange(1, 60)))])
    ctime = rng.choice([None, 0, 86399, 951782400, 1700000000, 4102444800, rng.randrange(0, 253402300800)])
    lang = rng.choice([None, b"eng", b"und", b"spa", b"zz", b"", b"ENG", "déu".encode(), b"abcd"])
    return dict(md=1, title=title, ctime=ctime, lang=lang)


# ----------------------------------------------------------------------------------------------
# history generator (progressive muxer), shared by several properties
# ----------------------------------------------------------------------------------------------
FPS_GRIDS = [1 / 30, 1 / 25, 1001 / 30000, 1001 / 24000, 1 / 24, 1001 / 60000, 0.04, 1 / 90000, 0.5]


def gen_history(rng, dist, codec=None, audio=None, fast=None, md=None, nv=None, na=None, reorder=None,
                rejects=0.0, finish="fins", small=True, start=None):
    """A mostly-valid A/V history. Returns (cfg string, list of op strings, info dict)."""
    codec = codec or rng.choice(VCODECS)
    audio = audio if audio is not None else rng.choice(AUDIOS)
    fast = rng.randrange(2) if fast is None else fast
    mdd = rand_metadata(rng) if md is None else md
    rate = rng.choice([48000, 44100, 8000, 96000, 12345]) if audio != "opus" else 48000
    ch = rng.choice([1, 2, 2, 6])
    cfg = cfg_str(codec=codec, w=rng.choice([640, 1920, 16, 65535]), h=rng.choice([480, 1080, 16]), audio=audio,
                  rate=rate, ch=ch, fast=fast, **mdd)
    nv = rng.randrange(0, 12) if nv is None else nv
    na = (rng.randrange(0, 12) if audio != "none" else 0) if na is None else na
    step = rng.choice(FPS_GRIDS)
    t0 = rng.choice([0.0, 0.0, 1.0, 3600.0, 0.5]) if start is None else start
    reorder = (rng.random() < 0.35) if reorder is None else reorder
    # decode-order video frames
    vops = []
    dts = [t0 + i * step + (rng.random() * step * 0.3 if rng.random() < 0.2 else 0) for i in range(nv)]
    dts = sorted(set(dts))
    nv = len(dts)
    if reorder and nv >= 3:
        # I P B B pattern: pts permuted within groups, shifted so pts >= 0
        pts = list(dts)
        i = 1
        while i + 2 < nv + 1 and i + 2 <= nv - 0:
            if i + 2 < nv:
                pts[i], pts[i + 1], pts[i + 2] = dts[i + 2], dts[i], dts[i + 1]
            i += 3
        if rng.random() < 0.3:
            pts = [p + 2 * step for p in pts]  # positive offset on every frame
    else:
        pts = list(dts)
    for i in range(nv):
        key = i == 0 or rng.random() < 0.15
        data = key_frame(rng, codec) if i == 0 else (key_frame(rng, codec) if key and rng.random() < 0.5 else delta_frame(rng, codec))
        if reorder or rng.random() < 0.3:
            vops.append(("v", dts[i], "wvd %s %s %s %d" % (f64bits(pts[i]), f64bits(dts[i]), hx(data), 1 if key else 0)))
        else:
            vops.append(("v", dts[i], "wv %s %s %d" % (f64bits(pts[i]), hx(data), 1 if key else 0)))
    first_v = pts[0] if nv else 0.0
    aops = []
    astep = rng.choice([1024 / 48000, 0.02, 0.0213333, step])
    a0 = first_v + rng.choice([0.0, 0.0, 0.01, 0.5, 1 / 90000])
    t = a0
    for i in range(na):
        aops.append(("a", t, "wa %s %s" % (f64bits(t), hx(audio_frame(rng, audio)))))
        t += astep if rng.random() < 0.9 else 0.0
    # submission order
    mode = rng.choice(["interleave", "video_first", "bursts"])
    ops = []
    if nv == 0:
        seq = aops
    elif mode == "video_first":
        seq = vops + aops
    elif mode == "interleave":
        seq = [vops[0]] + sorted(vops[1:] + aops, key=lambda x: x[1])
    else:
        seq = [vops[0]]
        vi, ai = 1, 0
        while vi < len(vops) or ai < len(aops):
            for _ in range(rng.randrange(1, 4)):
                if vi < len(vops):
                    seq.append(vops[vi]); vi += 1
            for _ in range(rng.randrange(1, 4)):
                if ai < len(aops):
                    seq.append(aops[ai]); ai += 1
    for kind, ts, op in seq:
        if rejects and rng.random() < rejects:
            ops.append(gen_bad_op(rng, codec, audio, ts))
        ops.append(op)
    if finish:
        ops.append(finish)
    dist["codec=" + codec] += 1
    dist["audio=" + audio] += 1
    dist["fast=%d" % fast] += 1
    dist["reorder=%d" % (1 if reorder and nv >= 3 else 0)] += 1
    dist["order=" + mode] += 1
    dist["nv=%s" % ("0" if nv == 0 else "1" if nv == 1 else "2-5" if nv <= 5 else "6+")] += 1
    dist["na=%s" % ("0" if na == 0 else "1" if na == 1 else "2-5" if na <= 5 else "6+")] += 1
    return cfg, ops, dict(codec=codec, audio=audio, nv=nv, na=na, fast=fast)


def gen_bad_op(rng, codec, audio, ts):
    """an op that should be rejected (or at least is unusual) around time ts"""
    k = rng.randrange(9)
    if k == 0:
        return "wv %s - 1" % f64bits(ts)
    if k == 1:
        return "wv %s %s 0" % (f64bits(float("nan")), hx(delta_frame(rng, codec)))
    if k == 2:
        return "wv %s %s 0" % (f64bits(-1.0), hx(delta_frame(rng, codec)))
    if k == 3:
        return "wa %s %s" % (f64bits(ts), hx(b"\x00\x01\x02"))
    if k == 4:
        return "wa %s -" % f64bits(ts)
    if k == 5:
        return "wv %s %s 0" % (f64bits(0.0), hx(delta_frame(rng, codec)))
    if k == 6:
        return "wa %s %s" % (f64bits(float("inf")), hx(audio_frame(rng, audio if audio != "none" else "aac-lc")))
    if k == 7:
        return "wvd %s %s %s 0" % (f64bits(ts), f64bits(-0.5), hx(delta_frame(rng, codec)))
    return "wa %s %s" % (f64bits(max(ts - 5.0, 0.0)), hx(audio_frame(rng, audio if audio != "none" else "aac-lc")))


def pcase(cfg, ops):
    return "P %s | %s" % (cfg, " ; ".join(ops))


# ----------------------------------------------------------------------------------------------
# C14
# ----------------------------------------------------------------------------------------------
def gen_C14(rng, tier, dist):
    cases = []
    alphabet = [0x00, 0x01, 0x02, 0x03, 0x67, 0xFF]
    maxlen = 5 if tier == "quick" else 7
    # exhaustive small strings (both entry points share one body; alternate)
    for n in range(0, maxlen + 1):
        for tup in itertools.product(alphabet, repeat=n):
            fn = "annexb_to_avcc" if (sum(tup) + n) % 2 == 0 else "hevc_annexb_to_hvcc"
            cases.append("X %s %s" % (fn, hx(bytes(tup))))
    dist["exhaustive_len<=%d_over_6_symbols" % maxlen] = len(cases)
    # constructive joins
    nj = 600 if tier == "quick" else 20000
    for _ in range(nj):
        k = rng.randrange(0, 6)
        garbage = bytes(rng.choice([0, 0, 2, 0xFF]) for _ in range(rng.randrange(0, 4)))
        d = garbage
        for _ in range(k):
            d += rng.choice([SC3, SC4]) + nal_body(rng, rng.randrange(0, 9) if rng.random() < 0.9 else rng.randrange(100, 700))
        d += bytes(rng.randrange(0, 4))
        if rng.random() < 0.2:
            d = bytes(rng.choice(alphabet) for _ in range(rng.randrange(0, 40)))
        cases.append("X %s %s" % (rng.choice(["annexb_to_avcc", "hevc_annexb_to_hvcc"]), hx(d)))
        dist["join_nals=%d" % k] += 1
    # ADTS through the muxer: keyframe, audio frames, finish
    na = 300 if tier == "quick" else 6000
    for i in range(na):
        frames = []
        for _ in range(rng.randrange(1, 4)):
            pa = rng.random() < 0.6
            plen = rng.choice([1, 2, 7, 30, 200]) if rng.random() < 0.9 else 0
            f = bytearray(adts(rng, payload_len=plen, protection_absent=pa, sfi=rng.randrange(16) if rng.random() < 0.2 else 3,
                               ch=rng.randrange(8) if rng.random() < 0.2 else 2, profile=rng.randrange(4),
                               extra_tail=rng.choice([0, 0, 1, 9])))
            m = rng.random()
            if m < 0.15 and len(f) > 1:
                del f[rng.randrange(len(f)):]
            elif m < 0.3:
                j = rng.randrange(min(len(f), 7)); f[j] ^= 1 << rng.randrange(8)
            frames.append(bytes(f))
            dist["adts_pa=%d" % pa] += 1
        ops = ["wv %s %s 1" % (f64bits(0.0), hx(h264_key(rng)))]
        t = 0.0
        for f in frames:
            ops.append("wa %s %s" % (f64bits(t), hx(f)))
            t += 0.02
        ops.append("fin")
        cases.append(pcase(cfg_str(audio=rng.choice(AUDIOS[1:7]), fast=rng.randrange(2)), ops))
    # systematic ADTS frame-length sweep (thorough): all 13-bit lengths around the buffer size
    if tier == "thorough":
        for pa in (True, False):
            hl = 7 if pa else 9
            for fl in list(range(0, 40)) + [8190, 8191]:
                for buflen in (fl - 1, fl, fl + 1, fl + 9):
                    if buflen < 0 or buflen > 9000:
                        continue
                    payload = bytes((i * 7 + 1) & 0xFF for i in range(max(fl - hl, 0)))
                    f = bytearray(adts(rng, payload=payload, protection_absent=pa))
                    # force declared length
                    f[3] = (f[3] & 0xFC) | ((fl >> 11) & 3); f[4] = (fl >> 3) & 0xFF; f[5] = ((fl & 7) << 5) | (f[5] & 0x1F)
                    f = bytes(f)[:buflen] + bytes(max(0, buflen - len(f)))
                    ops = ["wv %s %s 1" % (f64bits(0.0), hx(h264_key(rng))), "wa %s %s" % (f64bits(0.0), hx(f)), "fin"]
                    cases.append(pcase(cfg_str(audio="aac-lc"), ops))
    return cases


GENERATORS = {"C14": gen_C14}

RULES = {
    "C14": "exhaustive byte strings up to a length bound over {00,01,02,03,67,FF} through both conversion entry points; "
           "random joins of NAL units with 3/4-byte start codes, leading garbage, trailing zeros; ADTS frames (valid, truncated, "
           "bit-flipped, all header lengths) written through the muxer and read back with the Spec reader. "
           "non-trivial: input contains a start code / history has an accepted audio frame; distinct by case text",
}
